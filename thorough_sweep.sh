#!/bin/bash
cd /verif
ids="$@"
[ -z "$ids" ] && ids=$(python3 -c "import json;print(' '.join(c['property_id'] for c in json.load(open('MANIFEST.json'))['checks']))")
for p in $ids; do
  t0=$(date +%s)
  out=$(VERIF_SEED=${VERIF_SEED:-5} VERIF_FUZZ_RUNS=${VERIF_FUZZ_RUNS:-5000000} ./check $p --tier thorough 2>&1); rc=$?
  echo "$p rc=$rc $(( $(date +%s) - t0 ))s $(echo "$out" | grep -E "^$p thorough" | cut -c1-150)"
  [ $rc -ne 0 ] && echo "$out" | grep -E "failure:|VIOLATION|INCONCLUSIVE" | cut -c1-700
done
