#!/usr/bin/env python3
"""confirm_demo.py <worktree>: for every out/<ID>: demo passes on the unchanged tree, fails with the patch;
writes out/<ID>/confirm.json. Runs entirely inside the scratch worktree."""
import json, os, subprocess, sys, re
W = sys.argv[1]
OUTDIR = sys.argv[2] if len(sys.argv) > 2 else 'out'
def sh(cmd):
    r = subprocess.run(cmd, shell=True, cwd=W, capture_output=True, text=True, env={**os.environ, 'CARGO_NET_OFFLINE': 'true'})
    return r.returncode, (r.stdout + r.stderr)[-1500:]
for i in sorted(os.listdir(f'{W}/{OUTDIR}')):
    d = f'{W}/{OUTDIR}/{i}'
    if not os.path.isdir(d) or not os.path.exists(f'{d}/patch.diff'): continue
    meta = json.load(open(f'{d}/meta.json'))
    cmd = meta.get('demo_command')
    if cmd: cmd = cmd.split('  (')[0].split(' (')[0].split('#')[0].strip()
    if not cmd:
        cands = [c for c in meta.get('commands_run', []) if 'cargo test' in c and 'demo' in c]
        cmd = cands[0].split('#')[0].split('&&')[-1].strip() if cands else None
    if cmd: cmd = re.split(r'\s{2,}\(|\s+#', cmd)[0].strip()
    demo = f'{d}/demo.diff'
    res = {'id': i, 'demo_command': cmd}
    if not cmd or not os.path.exists(demo):
        res['error'] = 'no demo command / demo.diff'; json.dump(res, open(f'{d}/confirm.json', 'w')); print(i, 'NO-DEMO'); continue
    sh('git checkout -- . && git clean -fdq -e out -e out4 -e "out_*"')
    rc, o = sh(f'git apply {demo}')
    if rc != 0: res['error'] = 'demo.diff does not apply: ' + o[-300:]
    else:
        rc1, o1 = sh(cmd + ' 2>&1 | tail -15')
        base_ok = 'test result: ok' in o1 and ' 0 passed' not in o1.split('test result: ok')[-1][:40] and 'FAILED' not in o1
        rc, o = sh(f'git apply {d}/patch.diff')
        if rc != 0: res['error'] = 'patch.diff does not apply on top of demo: ' + o[-300:]
        else:
            rc2, o2 = sh(cmd + ' 2>&1 | tail -25')
            res.update({'passes_on_unchanged_tree': base_ok, 'fails_with_patch': ('FAILED' in o2 or 'panicked' in o2 or 'error: test failed' in o2), 'unchanged_tail': o1[-300:], 'patched_tail': o2[-500:]})
    sh('git checkout -- . && git clean -fdq -e out -e out4 -e "out_*"')
    json.dump(res, open(f'{d}/confirm.json', 'w'), indent=1)
    print(i, res.get('passes_on_unchanged_tree'), res.get('fails_with_patch'), res.get('error'))
