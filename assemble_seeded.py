#!/usr/bin/env python3
"""assemble_seeded.py: copy confirmed seeded changes from the scratch worktrees into /verif/seeded/<name>/
(patch.diff, demo.diff, meta.json) with what was confirmed here: demo pass/fail (confirm.json, run in the
scratch worktree) and which check caught it (/tmp/muteval/*.json)."""
import json, os, shutil, glob
out='/verif/seeded'; os.makedirs(out, exist_ok=True)
rows=[]
for n in range(1,7):
    for d in sorted(glob.glob(f'/tmp/mut{n}/out/C*')):
        i=os.path.basename(d)
        if not os.path.exists(f'{d}/patch.diff'): continue
        meta=json.load(open(f'{d}/meta.json'))
        conf=json.load(open(f'{d}/confirm.json')) if os.path.exists(f'{d}/confirm.json') else {}
        evs=[json.load(open(f)) for f in glob.glob(f'/tmp/muteval/mut{n}-{i}.json')]
        ev=evs[0] if evs else {}
        confirmed = conf.get('passes_on_unchanged_tree') and conf.get('fails_with_patch')
        if not confirmed:
            rows.append((i, meta.get('property'), 'NOT CONFIRMED', '')); continue
        name=f"{i}-mut{n}"
        t=f'{out}/{name}'; os.makedirs(t, exist_ok=True)
        shutil.copy(f'{d}/patch.diff', t); 
        if os.path.exists(f'{d}/demo.diff'): shutil.copy(f'{d}/demo.diff', t)
        m={'property': meta.get('property', i[:3]), 'files': meta.get('files'), 'what_breaks': meta.get('what_breaks'),
           'needs_to_manifest': meta.get('needs_to_manifest'), 'demo_command': conf.get('demo_command'),
           'confirmed_in_scratch_worktree': {'demo_passes_on_unchanged_tree': True, 'demo_fails_with_patch': True, 'existing_tests_pass_claimed_by_author': meta.get('existing_tests_pass')},
           'what_i_ran': ['git apply demo.diff && <demo_command>  (unchanged: pass)', 'git apply patch.diff && <demo_command>  (patched: fail)', f"git -C /repo apply patch.diff && ./check {meta.get('property', i[:3])} --tier quick && git -C /repo checkout -- ."],
           'check_result': {'caught': ev.get('caught'), 'runs': ev.get('runs')}}
        json.dump(m, open(f'{t}/meta.json','w'), indent=1)
        r=(ev.get('runs') or [{}])[-1]
        rows.append((i, m['property'], 'caught' if ev.get('caught') else ('MISSED' if ev else 'not evaluated'), f"{r.get('signature')} after {r.get('cases')} cases" if ev.get('caught') else ''))
json.dump(rows, open('/tmp/seeded_rows.json','w'))
for r in rows: print(*r)
