#!/bin/bash
# sens.sh <patch.diff> <ID> "<seeds>": apply a seeded change to /repo, run the quick check per seed, undo.
p="$1"; id="$2"; seeds="${3:-0 1 2}"
git -C /repo apply "$p" || exit 2
for s in $seeds; do
  out=$(VERIF_SEED=$s VERIF_WORKER_TIMEOUT_S=400 /verif/check $id --tier quick 2>&1); rc=$?
  echo "seed=$s rc=$rc $(echo "$out" | grep -E "^failure" | cut -c1-160) | $(echo "$out" | grep -E "^$id quick" | cut -c1-60)"
done
git -C /repo checkout -- .
