#!/bin/bash
# run.sh <target> [runs]: bounded libFuzzer campaign from corpus/<ID> + an empty corpus; artifacts are
# replayed through vcheck (release semantics); exit 1 only if vcheck confirms the artifact.
t="$1"; runs="${2:-1000000}"; ID=$(echo "$t" | tr a-z A-Z)
bin=/verif/fuzz/target/x86_64-unknown-linux-gnu/release/$t
if [ ! -x "$bin" ]; then
  # lazy build (first thorough run after a fresh restore); never a violation if it does not work out
  echo "building fuzz target $t (first use) ..."
  (cd /verif/harness && RUSTFLAGS="--cfg pendulum_project_ntpd_rs_verif --cap-lints warn" CARGO_NET_OFFLINE=true timeout 3000 cargo +nightly fuzz build --fuzz-dir /verif/fuzz -O --sanitizer none "$t" >/dev/null 2>&1)
fi
[ -x "$bin" ] || { echo "fuzz target $t not built (see fuzz/README.md); skipped"; exit 0; }
work=/verif/fuzz/target/run-$t-$$; mkdir -p "$work/corpus" "$work/art"
cp /verif/corpus/$ID/*.bin "$work/corpus/" 2>/dev/null
"$bin" -runs="$runs" -max_total_time=900 -seed="${VERIF_SEED:-1}" -len_control=0 -max_len=4096 -artifact_prefix="$work/art/" -print_final_stats=1 "$work/corpus" > "$work/log" 2>&1
grep -E "stat::number_of_executed_units|stat::new_units_added|cov:" "$work/log" | tail -3
rc=0
for a in "$work"/art/*; do [ -e "$a" ] || continue
  mkdir -p /verif/replays; cp "$a" /verif/replays/$ID-fuzz-$(basename "$a").bin
  if /verif/harness/target/release/vcheck $ID --replay /verif/replays/$ID-fuzz-$(basename "$a").bin; then echo "artifact $(basename $a) not confirmed in the release-semantics build (inconclusive)"; else rc=1; fi
done
rm -rf "$work"; exit $rc
