#![no_main]
// libFuzzer target for C27: decodes the bytes into the property's case type and runs the same
// check() as the proptest tier; aborts only on a violation that is not a recorded known finding.
use libfuzzer_sys::fuzz_target;
fuzz_target!(|data: &[u8]| {
    vlib::engine::fuzz_one::<vlib::props::c27::C27>(data);
});
