//! verification hook (cfg pendulum_project_ntpd_rs_verif only): lets the harness stand in for SRV resolution
//! of the NTS pool spawner (hickory needs a reachable DNS server, which the sandbox does not have)
use super::{KeResolutionResult, NtsPoolSpawner};
use std::net::SocketAddr;

/// append one resolved key-exchange server (address + SRV target name) to the spawner's list of known
/// resolutions, exactly what `resolve_ke` would have put there
pub fn push_known_resolution(spawner: &mut NtsPoolSpawner, addr: SocketAddr, srv_record_name: Option<String>) {
    spawner.known_resolutions.push_back(KeResolutionResult { addr, srv_record_name });
}
pub fn known_resolutions_left(spawner: &NtsPoolSpawner) -> usize {
    spawner.known_resolutions.len()
}
