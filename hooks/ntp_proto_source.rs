//! verification hook (cfg pendulum_project_ntpd_rs_verif only): read-only view of an NtpSource's private state
use super::{NtpSource, ProtocolVersion};
use crate::algorithm::SourceController;

#[derive(Debug, Clone, PartialEq, Eq)]
pub struct SourceState {
    pub protocol_version: ProtocolVersion,
    pub last_poll_interval: i8,
    pub remote_min_poll_interval: i8,
    pub reach: u8,
    pub tries: usize,
    pub have_deny_rstr_response: bool,
    pub stratum: u8,
    pub reference_id: u32,
    pub pending: bool,
    pub nts_cookies: Option<usize>,
    pub bloom_complete: bool,
}

pub fn source_state<C: SourceController>(s: &NtpSource<C>) -> SourceState {
    SourceState {
        protocol_version: s.protocol_version,
        last_poll_interval: s.last_poll_interval.as_log(),
        remote_min_poll_interval: s.remote_min_poll_interval.as_log(),
        reach: s.reach.0,
        tries: s.tries,
        have_deny_rstr_response: s.have_deny_rstr_response,
        stratum: s.stratum,
        reference_id: u32::from_be_bytes(s.reference_id.to_bytes()),
        pending: s.current_request_identifier.is_some(),
        nts_cookies: s.nts.as_ref().map(|n| n.cookies.len()),
        bloom_complete: s.bloom_filter.full_filter().is_some(),
    }
}
pub fn full_bloom<C: SourceController>(s: &NtpSource<C>) -> Option<Vec<u8>> {
    s.bloom_filter.full_filter().map(|f| f.as_bytes().to_vec())
}
