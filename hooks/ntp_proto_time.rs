//! verification hook (cfg pendulum_project_ntpd_rs_verif only): raw access to time types
use super::{NtpDuration, NtpTimestamp, PollInterval};

pub fn duration_raw(d: NtpDuration) -> i64 {
    d.duration
}
pub fn duration_from_raw(v: i64) -> NtpDuration {
    NtpDuration { duration: v }
}
pub fn timestamp_raw(t: NtpTimestamp) -> u64 {
    t.timestamp
}
pub fn timestamp_from_raw(v: u64) -> NtpTimestamp {
    NtpTimestamp { timestamp: v }
}
pub fn poll_from_log(v: i8) -> PollInterval {
    PollInterval(v)
}
pub fn duration_from_bits_short(b: [u8; 4]) -> NtpDuration {
    NtpDuration::from_bits_short(b)
}
pub fn duration_to_bits_short(d: NtpDuration) -> [u8; 4] {
    d.to_bits_short()
}
pub fn duration_from_bits_time32(b: [u8; 4]) -> NtpDuration {
    NtpDuration::from_bits_time32(b)
}
pub fn duration_to_bits_time32(d: NtpDuration) -> [u8; 4] {
    d.to_bits_time32()
}

// --- non-finite seconds converted to a duration (release builds turn NaN into 0 and +-inf into the extremes
// without a trace; the harness reads this counter to see them)
thread_local! {
    static NONFINITE_SECONDS: std::cell::Cell<u64> = const { std::cell::Cell::new(0) };
}
pub fn note_from_seconds(seconds: f64) {
    if !seconds.is_finite() {
        NONFINITE_SECONDS.with(|c| c.set(c.get() + 1));
    }
}
/// number of non-finite values passed to `NtpDuration::from_seconds` on this thread since the last call
pub fn take_nonfinite_seconds() -> u64 {
    NONFINITE_SECONDS.with(|c| c.replace(0))
}
