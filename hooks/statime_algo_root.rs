//! verification hook (cfg pendulum_project_ntpd_rs_verif only)

// --- BEGIN C42/C43 (PTP estimator / controller)
#![allow(missing_docs)]
pub use crate::estimator::{EstimatorState, UncertainValue};
pub use crate::filter::{LinkFilter, LinkFilterConfig};
pub use crate::estimator::verif_hook as est;
pub use crate::filter::verif_hook as filt;
use crate::storage::StateMutex;
use crate::{AlgoError, KalmanController, KalmanLink, KalmanStorage};
use statime_base::{Clock, LinkId};

/// copy of the controller's current filter (estimator + link bookkeeping)
pub fn filter_clone<S: KalmanStorage<C>, C: Clock>(c: &KalmanController<S, C>) -> LinkFilter<S> {
    c.state.with_ref(|s| s.filter.clone())
}

/// ids of the steered clocks in the controller's own order (index 0 = system clock)
pub fn steered_clock_ids<S: KalmanStorage<C>, C: Clock>(c: &KalmanController<S, C>) -> std::vec::Vec<statime_base::ClockId> {
    c.state.with_ref(|s| s.clocks.iter().map(|i| i.id).collect())
}

pub fn link_id<R: AsRef<KalmanController<S, C>>, S: KalmanStorage<C>, C: Clock>(l: &KalmanLink<R, S, C>) -> LinkId {
    l.link_id
}

/// the private steering step on its own (what `KalmanLink::measurement` runs after the filter update)
pub fn steer_clocks<S: KalmanStorage<C>, C: Clock>(c: &KalmanController<S, C>) -> Result<(), AlgoError> {
    c.state.with_mut(|s| s.steer_clocks())
}
// --- END C42/C43
