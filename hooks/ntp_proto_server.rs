//! verification hook (cfg pendulum_project_ntpd_rs_verif only)

// --- BEGIN wsD C20 (rate limiter adapters)
pub mod ratelimit {
    //! thin adapter around the private `TimestampedCache<IpAddr>` and the server's cache field
    use super::super::{Server, TimestampedCache};
    use std::net::IpAddr;
    use std::time::{Duration, Instant};

    pub struct Cache(TimestampedCache<IpAddr>);
    impl Cache {
        pub fn new(length: usize) -> Self {
            Cache(TimestampedCache::new(length))
        }
        pub fn len(&self) -> usize {
            self.0.elements.len()
        }
        /// slot used for `ip` (None when the cache has no slots)
        pub fn index(&self, ip: &IpAddr) -> Option<usize> {
            if self.0.elements.is_empty() { None } else { Some(self.0.index(ip)) }
        }
        pub fn is_allowed(&mut self, ip: IpAddr, now: Instant, cutoff: Duration) -> bool {
            self.0.is_allowed(ip, now, cutoff)
        }
        pub fn slot(&self, i: usize) -> Option<(IpAddr, Instant)> {
            self.0.elements[i]
        }
    }

    pub fn server_cache_len<C>(s: &Server<C>) -> usize {
        s.client_cache.elements.len()
    }
    pub fn server_cache_index<C>(s: &Server<C>, ip: &IpAddr) -> Option<usize> {
        if s.client_cache.elements.is_empty() { None } else { Some(s.client_cache.index(ip)) }
    }
    pub fn server_cache_slot<C>(s: &Server<C>, i: usize) -> Option<IpAddr> {
        s.client_cache.elements[i].map(|(a, _)| a)
    }
}
// --- END wsD C20
