//! verification hook (cfg pendulum_project_ntpd_rs_verif only): build / view Kalman snapshots,
//! call the private selection and combination functions, read controller state
use super::source::KalmanState;
use super::matrix::{Matrix, Vector};
use super::{
    KalmanClockController, KalmanControllerMessage, KalmanControllerMessageInner,
    KalmanSourceMessage, SourceSnapshot, combiner, select,
};
use crate::config::SynchronizationConfig;
use crate::{AlgorithmConfig, ClockId, NtpClock, NtpDuration, NtpLeapIndicator, NtpTimestamp};

#[derive(Debug, Clone, Copy, PartialEq)]
pub struct Snap {
    pub id: ClockId,
    pub offset: f64,
    pub offset_var: f64,
    pub cov: f64,
    pub freq: f64,
    pub freq_var: f64,
    pub wander: f64,
    pub delay: f64,
    pub period: Option<f64>,
    pub source_uncertainty: NtpDuration,
    pub source_delay: NtpDuration,
    pub leap: NtpLeapIndicator,
    pub time: NtpTimestamp,
    pub last_update: NtpTimestamp,
}

fn to_inner(s: &Snap) -> SourceSnapshot {
    SourceSnapshot {
        index: s.id,
        state: KalmanState {
            state: Vector::new_vector([s.offset, s.freq]),
            uncertainty: Matrix::new([[s.offset_var, s.cov], [s.cov, s.freq_var]]),
            time: s.time,
        },
        wander: s.wander,
        delay: s.delay,
        period: s.period,
        source_uncertainty: s.source_uncertainty,
        source_delay: s.source_delay,
        leap_indicator: s.leap,
        last_update: s.last_update,
    }
}

fn from_inner(s: &SourceSnapshot) -> Snap {
    Snap {
        id: s.index,
        offset: s.state.state.ventry(0),
        freq: s.state.state.ventry(1),
        offset_var: s.state.uncertainty.entry(0, 0),
        cov: s.state.uncertainty.entry(0, 1),
        freq_var: s.state.uncertainty.entry(1, 1),
        wander: s.wander,
        delay: s.delay,
        period: s.period,
        source_uncertainty: s.source_uncertainty,
        source_delay: s.source_delay,
        leap: s.leap_indicator,
        time: s.state.time,
        last_update: s.last_update,
    }
}

pub fn make_message(s: &Snap) -> KalmanSourceMessage {
    KalmanSourceMessage { inner: to_inner(s) }
}
pub fn view_message(m: &KalmanSourceMessage) -> Snap {
    from_inner(&m.inner)
}

/// ids selected by `select::select`
pub fn select_ids(sync: &SynchronizationConfig, algo: &AlgorithmConfig, candidates: &[Snap]) -> Vec<ClockId> {
    let c: Vec<SourceSnapshot> = candidates.iter().map(to_inner).collect();
    select::select(sync, algo, &c).iter().map(|s| s.index).collect()
}

#[derive(Debug, Clone)]
pub struct Combined {
    pub offset: f64,
    pub offset_var: f64,
    pub freq: f64,
    pub freq_var: f64,
    pub sources: Vec<ClockId>,
    pub delay: NtpDuration,
    pub leap: Option<NtpLeapIndicator>,
}
pub fn combine(selection: &[Snap], algo: &AlgorithmConfig) -> Option<Combined> {
    let c: Vec<SourceSnapshot> = selection.iter().map(to_inner).collect();
    combiner::combine(&c, algo).map(|c| Combined {
        offset: c.estimate.offset(),
        offset_var: c.estimate.offset_variance(),
        freq: c.estimate.frequency(),
        freq_var: c.estimate.frequency_variance(),
        sources: c.sources,
        delay: c.delay,
        leap: c.leap_indicator,
    })
}

#[derive(Debug, Clone, Copy, PartialEq)]
pub enum ControlMsg {
    Step { steer: f64 },
    FreqChange { steer: f64, time: NtpTimestamp },
}
pub fn view_control(m: &KalmanControllerMessage) -> ControlMsg {
    match m.inner {
        KalmanControllerMessageInner::Step { steer } => ControlMsg::Step { steer },
        KalmanControllerMessageInner::FreqChange { steer, time } => ControlMsg::FreqChange { steer, time },
    }
}

#[derive(Debug, Clone, Copy, PartialEq)]
pub struct ControllerState {
    pub in_startup: bool,
    pub freq_offset: f64,
    pub desired_freq: f64,
    pub registered: usize,
}
pub fn controller_state<C: NtpClock>(c: &KalmanClockController<C>) -> ControllerState {
    ControllerState {
        in_startup: c.in_startup,
        freq_offset: c.freq_offset,
        desired_freq: c.desired_freq,
        registered: c.sources.len(),
    }
}
/// (id, has snapshot, usable) of every registered source
pub fn controller_sources<C: NtpClock>(c: &KalmanClockController<C>) -> Vec<(ClockId, Option<Snap>, bool)> {
    c.sources.iter().map(|(id, (s, u))| (*id, s.as_ref().map(from_inner), *u)).collect()
}
