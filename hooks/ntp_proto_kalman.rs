//! verification hook (cfg pendulum_project_ntpd_rs_verif only)
