//! verification hook (cfg pendulum_project_ntpd_rs_verif only): the estimator inside a LinkFilter (C42)
#![allow(missing_docs)]
use super::*;

pub fn estimator<S: KalmanStorageBase>(f: &LinkFilter<S>) -> &EstimatorState<S> {
    &f.estimation_state
}
