//! verification hook (cfg pendulum_project_ntpd_rs_verif only): read access to the estimator state (C42)
#![allow(missing_docs)]
use super::*;

/// same as the `#[cfg(test)]` accessor `EstimatorState::link_delay`
pub fn link_delay<S: KalmanStorageBase>(e: &EstimatorState<S>, id: LinkId) -> Result<UncertainValue, AlgoError> {
    let link_info = e.get_link_info(id)?;
    Ok(UncertainValue {
        value: e.state[(link_info.index, 0)],
        uncertainty: e.uncertainty[(link_info.index, link_info.index)].sqrt(),
    })
}

pub fn time<S: KalmanStorageBase>(e: &EstimatorState<S>) -> Timestamp<TAI> {
    e.time
}

pub fn clock_ids<S: KalmanStorageBase>(e: &EstimatorState<S>) -> std::vec::Vec<ClockId> {
    e.clock_info.iter().map(|c| c.id).collect()
}

pub fn link_ids<S: KalmanStorageBase>(e: &EstimatorState<S>) -> std::vec::Vec<LinkId> {
    e.link_info.iter().map(|l| l.id).collect()
}

/// number of rows of the state vector
pub fn state_rows<S: KalmanStorageBase>(e: &EstimatorState<S>) -> usize {
    e.state.rows()
}
