//! verification hook (cfg pendulum_project_ntpd_rs_verif only): raw access to PTP time types
#![allow(missing_docs)]
use super::{Duration, Timestamp};
use core::marker::PhantomData;

pub fn duration_raw(d: Duration) -> i128 {
    d.0
}
pub fn duration_from_raw(v: i128) -> Duration {
    Duration(v)
}
pub fn timestamp_raw<A>(t: Timestamp<A>) -> u128 {
    t.0
}
pub fn timestamp_from_raw<A>(v: u128) -> Timestamp<A> {
    Timestamp(v, PhantomData)
}
