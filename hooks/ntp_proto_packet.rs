//! verification hook (cfg pendulum_project_ntpd_rs_verif only): read access to a packet's extension-field lists
use super::{ExtensionField, NtpPacket};

/// (authenticated, encrypted, untrusted) extension fields, owned
pub fn ef_lists(
    p: &NtpPacket<'_>,
) -> (
    Vec<ExtensionField<'static>>,
    Vec<ExtensionField<'static>>,
    Vec<ExtensionField<'static>>,
) {
    let own = |v: &Vec<ExtensionField<'_>>| v.iter().cloned().map(ExtensionField::into_owned).collect();
    (own(&p.efdata.authenticated), own(&p.efdata.encrypted), own(&p.efdata.untrusted))
}
pub fn has_mac(p: &NtpPacket<'_>) -> bool {
    p.mac.is_some()
}
