//! verification hook (cfg pendulum_project_ntpd_rs_verif only), included from ntp-proto/src/nts/mod.rs
//! Thin adapters only: plain-data projections of NTS-KE request/response values (the protocol id
//! type `NextProtocol` is private to this module, so field reads have to happen here).

// --- BEGIN C28/C29/C30
use super::{KeyExchangeResponse, Request};

#[derive(Debug, Clone, PartialEq, Eq)]
pub enum ReqView {
    KeyExchange {
        algorithms: Vec<u16>,
        protocols: Vec<u16>,
        denied: Vec<String>,
    },
    FixedKey {
        authentication: String,
        c2s: Vec<u8>,
        s2c: Vec<u8>,
        algorithm: u16,
        protocol: u16,
        keep_alive: bool,
    },
    Support {
        authentication: String,
        wants_protocols: bool,
        wants_algorithms: bool,
        keep_alive: bool,
    },
}

pub fn req_view(r: &Request<'_>) -> ReqView {
    match r {
        Request::KeyExchange {
            algorithms,
            protocols,
            denied_servers,
        } => ReqView::KeyExchange {
            algorithms: algorithms.iter().map(|a| u16::from(*a)).collect(),
            protocols: protocols.iter().map(|p| u16::from(*p)).collect(),
            denied: denied_servers.iter().map(|d| d.to_string()).collect(),
        },
        Request::FixedKey {
            authentication,
            c2s_key,
            s2c_key,
            algorithm,
            protocol,
            keep_alive,
        } => ReqView::FixedKey {
            authentication: authentication.to_string(),
            c2s: c2s_key.key_bytes().to_vec(),
            s2c: s2c_key.key_bytes().to_vec(),
            algorithm: u16::from(*algorithm),
            protocol: u16::from(*protocol),
            keep_alive: *keep_alive,
        },
        Request::Support {
            authentication,
            wants_protocols,
            wants_algorithms,
            keep_alive,
        } => ReqView::Support {
            authentication: authentication.to_string(),
            wants_protocols: *wants_protocols,
            wants_algorithms: *wants_algorithms,
            keep_alive: *keep_alive,
        },
    }
}

#[derive(Debug, Clone, PartialEq, Eq)]
pub struct RespView {
    pub protocol: u16,
    pub algorithm: u16,
    pub cookies: Vec<Vec<u8>>,
    pub server: Option<String>,
    pub port: Option<u16>,
    pub keep_alive: bool,
}

pub fn resp_view(r: &KeyExchangeResponse<'_>) -> RespView {
    RespView {
        protocol: u16::from(r.protocol),
        algorithm: u16::from(r.algorithm),
        cookies: r.cookies.iter().map(|c| c.to_vec()).collect(),
        server: r.server.as_ref().map(|s| s.to_string()),
        port: r.port,
        keep_alive: r.keep_alive,
    }
}

/// algorithm id stored in a decoded server cookie (field is pub(crate))
pub fn cookie_algorithm(c: &crate::DecodedServerCookie) -> u16 {
    u16::from(c.algorithm)
}
// --- END C28/C29/C30
