//! verification hook (cfg pendulum_project_ntpd_rs_verif only): re-exports of private daemon items
pub use super::server::{ServerStats, ServerTask};
pub use super::config::ServerConfig as DaemonServerConfig;
