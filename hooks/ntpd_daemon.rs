//! verification hook (cfg pendulum_project_ntpd_rs_verif only): re-exports of private daemon items
pub use super::server::{ServerStats, ServerTask};
pub use super::config::ServerConfig as DaemonServerConfig;

// --- BEGIN wsD C27 (daemon key provider adapter)
pub mod keyprov {
    use std::sync::Arc;
    /// `nts_key_provider::spawn` with an explicit configuration
    pub async fn spawn(
        key_storage_path: Option<String>,
        stale_key_count: usize,
        key_rotation_interval: usize,
    ) -> tokio::sync::watch::Receiver<Arc<ntp_proto::KeySet>> {
        super::super::nts_key_provider::spawn(super::super::config::KeysetConfig {
            stale_key_count,
            key_rotation_interval,
            key_storage_path,
        })
        .await
    }
}
// --- END wsD C27

// --- BEGIN wsB C38 (observation socket)
pub use super::observer::{ObservableServerState, ObservableState, ProgramData};
pub use super::server::Counter;
pub use super::sockets::{read_json, write_json};
// --- END wsB C38
// --- BEGIN wsB C40 (GPSd SOCK source)
pub use super::ntp_source::{MsgForSystem, SourceChannels};

/// `SockSourceTask::spawn` exactly as `system.rs` calls it
pub fn spawn_sock_source<C, Controller>(
    index: ntp_proto::ClockId,
    socket_path: std::path::PathBuf,
    clock: C,
    channels: SourceChannels,
    source: ntp_proto::OneWaySource<Controller>,
) -> tokio::task::JoinHandle<()>
where
    C: 'static + ntp_proto::NtpClock + Send + Sync,
    Controller: ntp_proto::SourceController,
{
    super::sock_source::SockSourceTask::spawn(index, socket_path, clock, channels, source)
}
// --- END wsB C40
// --- BEGIN wsB C39 (configuration loading)
pub use super::config::{Config, ConfigError};

/// the loading path of the daemon (`initialize_logging_parse_config`) and of `ntp-ctl validate`
pub fn load_config_file(path: &std::path::Path) -> Result<Config, ConfigError> {
    Config::from_args(Some(&path), vec![], vec![])
}

/// `Config::from_file` without the file system part
pub fn load_config_text(text: &str) -> Result<Config, ConfigError> {
    Ok(toml::de::from_str(text)?)
}
// --- END wsB C39

// --- BEGIN C35/C36 (spawners, spawner task, DNS-facing config types)
/// thin re-exports/constructors for the spawner checks (no logic)
pub mod spawn_hook {
    pub use super::super::config::{
        NormalizedAddress, NtpAddress, NtsKeAddress, NtsPoolSourceConfig, PoolSourceConfig,
        StandardSource,
    };
    pub use super::super::spawn::nts_pool::NtsPoolSpawner;
    pub use super::super::spawn::nts_pool::verif_hook as nts_pool_hook;
    pub use super::super::spawn::pool::PoolSpawner;
    pub use super::super::spawn::standard::StandardSpawner;
    pub use super::super::spawn::{
        NtpSourceCreateParameters, SockSourceCreateParameters, SourceCreateParameters,
        SourceRemovalReason, SourceRemovedEvent, SpawnAction, SpawnEvent, Spawner, SpawnerId, SystemEvent,
        spawner_task,
    };
    pub use super::super::system::{MESSAGE_BUFFER_SIZE, NETWORK_WAIT_PERIOD};

    /// `NormalizedAddress::new_from_parts` (pub(crate))
    pub fn normalized_address(server_name: &str, port: u16) -> NormalizedAddress {
        NormalizedAddress::new_from_parts(server_name, port)
    }

    // --- BEGIN wsE2 C35/C36 (NTS single-server spawner, NTS source config)
    pub use super::super::config::NtsSourceConfig;
    pub use super::super::spawn::nts::NtsSpawner;
    // --- END wsE2 C35/C36
}
// --- END C35/C36
