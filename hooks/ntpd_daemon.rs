//! verification hook (cfg pendulum_project_ntpd_rs_verif only): re-exports of private daemon items
pub use super::server::{ServerStats, ServerTask};
pub use super::config::ServerConfig as DaemonServerConfig;

// --- BEGIN wsD C27 (daemon key provider adapter)
pub mod keyprov {
    use std::sync::Arc;
    /// `nts_key_provider::spawn` with an explicit configuration
    pub async fn spawn(
        key_storage_path: Option<String>,
        stale_key_count: usize,
        key_rotation_interval: usize,
    ) -> tokio::sync::watch::Receiver<Arc<ntp_proto::KeySet>> {
        super::super::nts_key_provider::spawn(super::super::config::KeysetConfig {
            stale_key_count,
            key_rotation_interval,
            key_storage_path,
        })
        .await
    }
}
// --- END wsD C27
