//! verification hook (cfg pendulum_project_ntpd_rs_verif only)
pub use crate::time_types::verif_hook as time;
