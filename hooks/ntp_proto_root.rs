//! verification hook (cfg pendulum_project_ntpd_rs_verif only)
pub use crate::time_types::verif_hook as time;

// --- packets / crypto / cookies (server and source worlds)
pub use crate::packet::{AesSivCmac256, AesSivCmac512};
use crate::keyset::DecodedServerCookie;
use crate::nts::AeadAlgorithm;
use crate::packet::Cipher;

/// build a decoded server cookie (session keys) from raw key bytes (32+32 or 64+64)
pub fn make_cookie(s2c: &[u8], c2s: &[u8]) -> Option<DecodedServerCookie> {
    match (s2c.len(), c2s.len()) {
        (32, 32) => Some(DecodedServerCookie {
            algorithm: AeadAlgorithm::AeadAesSivCmac256,
            s2c: Box::new(AesSivCmac256::try_from(s2c).ok()?),
            c2s: Box::new(AesSivCmac256::try_from(c2s).ok()?),
        }),
        (64, 64) => Some(DecodedServerCookie {
            algorithm: AeadAlgorithm::AeadAesSivCmac512,
            s2c: Box::new(AesSivCmac512::try_from(s2c).ok()?),
            c2s: Box::new(AesSivCmac512::try_from(c2s).ok()?),
        }),
        _ => None,
    }
}
/// (IANA algorithm id, s2c key bytes, c2s key bytes)
pub fn cookie_parts(c: &DecodedServerCookie) -> (u16, Vec<u8>, Vec<u8>) {
    (u16::from(c.algorithm), c.s2c.key_bytes().to_vec(), c.c2s.key_bytes().to_vec())
}
pub fn make_cipher(key: &[u8]) -> Option<Box<dyn Cipher>> {
    match key.len() {
        32 => Some(Box::new(AesSivCmac256::try_from(key).ok()?)),
        64 => Some(Box::new(AesSivCmac512::try_from(key).ok()?)),
        _ => None,
    }
}
pub fn refid_from_u32(v: u32) -> crate::ReferenceId {
    crate::ReferenceId::from_int(v)
}
pub fn refid_to_u32(r: crate::ReferenceId) -> u32 {
    u32::from_be_bytes(r.to_bytes())
}
pub use crate::packet::verif_hook as packet;

// --- source world
pub use crate::source::verif_hook as source;
/// wrapper around the crate-private cookie stash
#[derive(Default)]
pub struct Stash(crate::cookiestash::CookieStash);
impl Stash {
    pub fn new() -> Self {
        Self::default()
    }
    pub fn store(&mut self, c: Vec<u8>) {
        self.0.store(c)
    }
    pub fn get(&mut self) -> Option<Vec<u8>> {
        self.0.get()
    }
    pub fn gap(&self) -> u8 {
        self.0.gap()
    }
    pub fn len(&self) -> usize {
        self.0.len()
    }
    pub fn is_empty(&self) -> bool {
        self.0.is_empty()
    }
}
pub fn make_nts_data(cookies: Vec<Vec<u8>>, c2s: &[u8], s2c: &[u8]) -> Option<Box<crate::SourceNtsData>> {
    let mut stash = crate::cookiestash::CookieStash::default();
    for c in cookies {
        stash.store(c);
    }
    Some(Box::new(crate::SourceNtsData { cookies: stash, c2s: make_cipher(c2s)?, s2c: make_cipher(s2c)? }))
}

// --- BEGIN wsD C31 (IP filter adapter)
pub mod ipf {
    //! thin adapter around the crate-private `IpFilter`
    pub struct Filter(crate::ipfilter::IpFilter);
    impl Filter {
        pub fn new(subnets: &[crate::IpSubnet]) -> Self {
            Filter(crate::ipfilter::IpFilter::new(subnets))
        }
        pub fn is_in(&self, addr: std::net::IpAddr) -> bool {
            self.0.is_in(addr)
        }
    }
}
// --- END wsD C31
// --- BEGIN wsD C26/C27 (server cookie adapters)
pub mod cookies {
    //! thin adapters: build / inspect `DecodedServerCookie`, call the crate-private
    //! `KeySet::{encode_cookie, decode_cookie}`
    use crate::nts::AeadAlgorithm;
    use crate::packet::{AesSivCmac256, AesSivCmac512};
    use crate::{DecodedServerCookie, KeySet};

    /// `alg256` ⇒ AEAD_AES_SIV_CMAC_256 (32-byte keys), else _512 (64-byte keys)
    pub fn make(alg256: bool, s2c: &[u8], c2s: &[u8]) -> Option<DecodedServerCookie> {
        Some(if alg256 {
            DecodedServerCookie {
                algorithm: AeadAlgorithm::AeadAesSivCmac256,
                s2c: Box::new(AesSivCmac256::try_from(s2c).ok()?),
                c2s: Box::new(AesSivCmac256::try_from(c2s).ok()?),
            }
        } else {
            DecodedServerCookie {
                algorithm: AeadAlgorithm::AeadAesSivCmac512,
                s2c: Box::new(AesSivCmac512::try_from(s2c).ok()?),
                c2s: Box::new(AesSivCmac512::try_from(c2s).ok()?),
            }
        })
    }
    /// (IANA AEAD id, s2c key bytes, c2s key bytes)
    pub fn parts(c: &DecodedServerCookie) -> (u16, Vec<u8>, Vec<u8>) {
        (u16::from(c.algorithm), c.s2c.key_bytes().to_vec(), c.c2s.key_bytes().to_vec())
    }
    pub fn encode(ks: &KeySet, c: &DecodedServerCookie) -> Vec<u8> {
        ks.encode_cookie(c)
    }
    pub fn decode(ks: &KeySet, cookie: &[u8]) -> Option<DecodedServerCookie> {
        ks.decode_cookie(cookie).ok()
    }
}
// --- END wsD C26/C27
// --- BEGIN wsD C34 (Bloom filter transfer: re-exports of pub items in private modules)
pub mod bloom {
    pub use crate::packet::v5::NtpClientCookie;
    pub use crate::packet::v5::extension_fields::{ReferenceIdRequest, ReferenceIdResponse};
    pub use crate::packet::v5::server_reference_id::{
        BloomFilter, RemoteBloomFilter, ResponseHandlingError, ServerId,
    };
}
// --- END wsD C34
// --- BEGIN wsD C20 (re-export of the in-module hook of server.rs)
pub use crate::server::verif_hook as server_hook;
// --- END wsD C20

// --- BEGIN C28/C29/C30
pub use crate::nts::verif_hook as nts;
// --- END C28/C29/C30

// --- BEGIN wsB C38 (raw access to id newtypes)
pub fn clock_id_from_raw(v: u64) -> crate::ClockId {
    crate::ClockId(v)
}
pub fn clock_id_raw(id: crate::ClockId) -> u64 {
    id.0
}
pub fn reference_id_from_raw(v: u32) -> crate::ReferenceId {
    crate::ReferenceId::from_int(v)
}
pub fn reference_id_raw(id: crate::ReferenceId) -> u32 {
    u32::from_be_bytes(id.to_bytes())
}
// --- END wsB C38

// --- Kalman world
pub use crate::algorithm::kalman_verif_hook as kalman;
pub use crate::algorithm::{
    InternalMeasurement, InternalSourceController, InternalStateUpdate, InternalTimeSyncController,
};

// --- C33
pub use crate::source::SourceSnapshot;
pub fn reach_with(received: bool) -> crate::Reach {
    let mut r = crate::Reach::never();
    if received {
        r.received_packet();
    }
    r
}
