#!/usr/bin/env python3
"""eval_mut.py <out-dir> [ID ...]: apply each seeded patch to /repo, run the property's quick check, undo.
Writes /tmp/muteval/<dirname>-<ID>.json"""
import json, os, subprocess, sys, time, re
# EVAL_REPO / EVAL_VERIF / EVAL_OUT: evaluate in an isolated copy made by mkws.sh (defaults: the real trees)
REPO = os.environ.get('EVAL_REPO', '/repo'); VERIF = os.environ.get('EVAL_VERIF', '/verif'); OUT = os.environ.get('EVAL_OUT', '/tmp/muteval')
out = sys.argv[1]; ids = sys.argv[2:] or sorted(os.listdir(out))
os.makedirs(OUT, exist_ok=True)
tag = os.path.basename(os.path.dirname(out.rstrip('/')))
for i in ids:
    d = os.path.join(out, i); p = os.path.join(d, 'patch.diff')
    if not os.path.exists(p): continue
    meta = json.load(open(os.path.join(d, 'meta.json'))) if os.path.exists(os.path.join(d, 'meta.json')) else {}
    prop = meta.get('property', i[:3])
    res = {'id': i, 'property': prop}
    if subprocess.call(['git', '-C', REPO, 'apply', '--check', p]) != 0:
        res['error'] = 'patch does not apply'; json.dump(res, open(f'{OUT}/{tag}-{i}.json', 'w')); print(i, 'NOAPPLY'); continue
    subprocess.check_call(['git', '-C', REPO, 'apply', p])
    try:
        for seed in (os.environ.get('SEEDS', '0').split()):
            t = time.time()
            r = subprocess.run(['./check', prop, '--tier', 'quick'], cwd=VERIF, capture_output=True, text=True, env={**os.environ, 'VERIF_SEED': seed})
            o = r.stdout + r.stderr
            m = re.search(r'failure: property=\S+ signature=(\S+) what=(.{0,300})', o)
            c = re.search(rf'^{prop} quick: (\d+) cases', o, re.M)
            res.setdefault('runs', []).append({'seed': seed, 'rc': r.returncode, 'signature': m.group(1) if m else None, 'what': m.group(2) if m else None, 'cases': int(c.group(1)) if c else None, 'wall_s': round(time.time() - t, 1), 'tail': o[-400:] if r.returncode == 2 else None})
            if r.returncode == 1: break
    finally:
        subprocess.check_call(['git', '-C', REPO, 'checkout', '--', '.'])
    res['caught'] = any(x['rc'] == 1 for x in res['runs'])
    json.dump(res, open(f'{OUT}/{tag}-{i}.json', 'w'), indent=1)
    print(i, prop, 'CAUGHT' if res['caught'] else 'MISSED', [(x['rc'], x['signature'], x['cases']) for x in res['runs']])
