fn main() {
    vlib::driver::main_with(vlib::registry());
}
