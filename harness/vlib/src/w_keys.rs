//! helpers shared by C26 / C27: deterministic key material, key-file images, cookie comparison
use ntp_proto::verif_hook::cookies;
use ntp_proto::{DecodedServerCookie, KeySet, KeySetProvider};

/// deterministic byte stream (splitmix64) — all "random" key material of a case comes from its seed
pub fn bytes(seed: u64, n: usize) -> Vec<u8> {
    let mut s = seed;
    let mut out = Vec::with_capacity(n + 8);
    while out.len() < n {
        s = s.wrapping_add(0x9E37_79B9_7F4A_7C15);
        let mut z = s;
        z = (z ^ (z >> 30)).wrapping_mul(0xBF58_476D_1CE4_E5B9);
        z = (z ^ (z >> 27)).wrapping_mul(0x94D0_49BB_1331_11EB);
        z ^= z >> 31;
        out.extend_from_slice(&z.to_le_bytes());
    }
    out.truncate(n);
    out
}

/// session keys + algorithm of one client
#[derive(Debug, Clone, PartialEq, Eq)]
pub struct Session {
    pub alg256: bool,
    pub s2c: Vec<u8>,
    pub c2s: Vec<u8>,
}

impl Session {
    pub fn from_seed(alg256: bool, seed: u64) -> Self {
        let w = if alg256 { 32 } else { 64 };
        let b = bytes(seed, 2 * w);
        Session { alg256, s2c: b[..w].to_vec(), c2s: b[w..].to_vec() }
    }
    pub fn cookie(&self) -> DecodedServerCookie {
        cookies::make(self.alg256, &self.s2c, &self.c2s).expect("key widths are correct by construction")
    }
    pub fn matches(&self, d: &DecodedServerCookie) -> bool {
        let (alg, s2c, c2s) = cookies::parts(d);
        alg == if self.alg256 { 15 } else { 17 } && s2c == self.s2c && c2s == self.c2s
    }
}

/// byte image of a key file: time(8) id_offset(4) primary(4) len(4) keys(64 each), all big endian
pub fn image(time: u64, id_offset: u32, primary: u32, len_field: u32, keys: &[Vec<u8>]) -> Vec<u8> {
    let mut v = Vec::new();
    v.extend_from_slice(&time.to_be_bytes());
    v.extend_from_slice(&id_offset.to_be_bytes());
    v.extend_from_slice(&primary.to_be_bytes());
    v.extend_from_slice(&len_field.to_be_bytes());
    for k in keys {
        v.extend_from_slice(k);
    }
    v
}

pub fn load(img: &[u8], history: usize) -> std::io::Result<(KeySetProvider, std::time::SystemTime)> {
    let mut r: &[u8] = img;
    KeySetProvider::load(&mut r, history)
}

pub fn store(p: &KeySetProvider) -> std::io::Result<Vec<u8>> {
    let mut v = Vec::new();
    p.store(&mut v)?;
    Ok(v)
}

/// encode under `ks` and decode again; Err(text) when the round trip does not give the session back
pub fn round_trip(ks: &KeySet, s: &Session) -> Result<Vec<u8>, String> {
    let c = cookies::encode(ks, &s.cookie());
    match cookies::decode(ks, &c) {
        Some(d) if s.matches(&d) => Ok(c),
        Some(_) => Err("cookie decodes to different session keys/algorithm".into()),
        None => Err("freshly issued cookie does not decode under the issuing key set".into()),
    }
}
