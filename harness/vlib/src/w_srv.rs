//! small server world shared by C31 / C20: fixed clock, recording statistics
//! handler, hand-built plain NTPv4 client request.
use std::net::IpAddr;
use std::sync::Arc;

use ntp_proto::{
    FilterAction, FilterList, IpSubnet, KeySetProvider, NtpClock, NtpDuration, NtpLeapIndicator,
    NtpTimestamp, NtpVersion, Server, ServerAction, ServerConfig, ServerReason, ServerResponse,
    ServerStatHandler,
};

#[derive(Debug, Clone, Default)]
pub struct FixedClock {
    pub raw: u64,
}

impl NtpClock for FixedClock {
    type Error = std::io::Error;

    fn now(&self) -> Result<NtpTimestamp, Self::Error> {
        Ok(ntp_proto::verif_hook::time::timestamp_from_raw(self.raw))
    }
    fn set_frequency(&self, _freq: f64) -> Result<NtpTimestamp, Self::Error> {
        unreachable!("server must not steer the clock")
    }
    fn get_frequency(&self) -> Result<f64, Self::Error> {
        Ok(0.0)
    }
    fn step_clock(&self, _offset: NtpDuration) -> Result<NtpTimestamp, Self::Error> {
        unreachable!("server must not steer the clock")
    }
    fn disable_ntp_algorithm(&self) -> Result<(), Self::Error> {
        unreachable!("server must not steer the clock")
    }
    fn error_estimate_update(&self, _e: NtpDuration, _m: NtpDuration) -> Result<(), Self::Error> {
        unreachable!("server must not steer the clock")
    }
    fn status_update(&self, _l: NtpLeapIndicator) -> Result<(), Self::Error> {
        unreachable!("server must not steer the clock")
    }
}

#[derive(Debug, Default)]
pub struct RecStats {
    pub entries: Vec<(u8, bool, ServerReason, ServerResponse)>,
}

impl ServerStatHandler for RecStats {
    fn register(&mut self, version: u8, nts: bool, reason: ServerReason, response: ServerResponse) {
        self.entries.push((version, nts, reason, response));
    }
}

/// plain NTPv4 client request: LI 0, VN 4, mode 3; poll 6; transmit timestamp = `xmit`
pub fn v4_client_request(xmit: u64) -> [u8; 48] {
    let mut b = [0u8; 48];
    b[0] = 0x23;
    b[2] = 6;
    b[40..48].copy_from_slice(&xmit.to_be_bytes());
    b
}

pub fn list(filter: Vec<IpSubnet>, action: FilterAction) -> FilterList {
    FilterList { filter, action }
}

pub fn everything() -> Vec<IpSubnet> {
    vec!["0.0.0.0/0".parse().unwrap(), "::/0".parse().unwrap()]
}

pub fn server(config: ServerConfig) -> Server<FixedClock> {
    Server::new_internal(
        config,
        FixedClock { raw: 0x1234_5678_0000_0000 },
        Arc::default(),
        KeySetProvider::new(1).get(),
    )
}

pub fn base_config() -> ServerConfig {
    ServerConfig {
        denylist: list(vec![], FilterAction::Deny),
        allowlist: list(everything(), FilterAction::Ignore),
        rate_limiting_cache_size: 0,
        rate_limiting_cutoff: std::time::Duration::from_secs(0),
        require_nts: None,
        accepted_versions: vec![NtpVersion::V4],
    }
}

/// what the server did with one request, as seen from outside
#[derive(Debug, Clone, Copy, PartialEq, Eq)]
pub enum Seen {
    /// answered; `deny` = the answer is a kiss-o'-death DENY (stratum 0, reference id "DENY")
    Answered { deny: bool },
    Ignored,
}

/// send one plain v4 client request from `ip`; returns the externally visible
/// action and the single statistics entry
pub fn ask(
    server: &mut Server<FixedClock>,
    ip: IpAddr,
    xmit: u64,
) -> Result<(Seen, (u8, bool, ServerReason, ServerResponse)), String> {
    let req = v4_client_request(xmit);
    let mut buf = [0u8; 48];
    let mut stats = RecStats::default();
    let seen = match server.handle(
        ip,
        ntp_proto::verif_hook::time::timestamp_from_raw(0x1234_5677_0000_0000),
        &req,
        &mut buf,
        &mut stats,
    ) {
        ServerAction::Ignore => Seen::Ignored,
        ServerAction::Respond { message } => {
            if message.len() != 48 {
                return Err(format!("answer to a 48-byte request has {} bytes", message.len()));
            }
            // mode 4, origin timestamp echoes our transmit timestamp
            if message[0] & 7 != 4 || message[24..32] != xmit.to_be_bytes() {
                return Err("answer is not a server-mode packet echoing the origin".into());
            }
            let deny = message[1] == 0 && &message[12..16] == b"DENY";
            Seen::Answered { deny }
        }
    };
    if stats.entries.len() != 1 {
        return Err(format!("{} statistics entries for one request", stats.entries.len()));
    }
    Ok((seen, stats.entries[0]))
}
