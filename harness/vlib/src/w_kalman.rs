//! Kalman world: the real `KalmanClockController` with a recording clock, real
//! Kalman source controllers, synthetic snapshots injected through the hook,
//! and feedback of controller messages to the sources (as
//! `TimeSyncControllerWrapper::run` does).

use std::sync::{Arc, Mutex};
use std::time::Duration;

use ntp_proto::verif_hook as nh;
use ntp_proto::verif_hook::kalman as kh;
use ntp_proto::verif_hook::{InternalMeasurement, InternalSourceController, InternalTimeSyncController};
use ntp_proto::{
    AlgorithmConfig, ClockId, KalmanClockController, NtpClock, NtpDuration, NtpLeapIndicator,
    NtpTimestamp, PollInterval, PollIntervalLimits, SourceConfig, StepThreshold,
    SynchronizationConfig, TimeSnapshot,
};
use proptest::prelude::*;
use serde::{Deserialize, Serialize};

// ---------------------------------------------------------------------------
// specs

#[derive(Debug, Clone, Serialize, Deserialize, PartialEq)]
pub struct SyncSpec {
    pub min_agree: u8,
    pub startup_fwd: Option<f64>,
    pub startup_bwd: Option<f64>,
    pub single_fwd: Option<f64>,
    pub single_bwd: Option<f64>,
    pub accumulated: Option<f64>,
}

#[derive(Debug, Clone, Serialize, Deserialize, PartialEq)]
pub struct AlgoSpec {
    pub step_threshold: f64,
    pub offset_threshold: f64,
    pub offset_leftover: f64,
    pub freq_threshold: f64,
    pub freq_leftover: f64,
    pub max_freq_steer: f64,
    pub slew_max_freq: f64,
    pub slew_min_duration: f64,
    pub max_source_uncertainty: f64,
    pub stat_weight: f64,
    pub delay_weight: f64,
    pub ignore_dispersion: bool,
    pub meddling_off: bool,
}

#[derive(Debug, Clone, Serialize, Deserialize, PartialEq)]
pub enum SrcKind {
    TwoWay,
    OneWay { period: Option<f64>, noise: f64, accuracy: f64 },
}

/// offset of a synthetic snapshot, possibly relative to a configured threshold
#[derive(Debug, Clone, Copy, Serialize, Deserialize, PartialEq)]
pub enum OffsetSel {
    Abs(f64),
    /// threshold × (1 + eps) with sign; which: 0 startup fwd, 1 startup bwd, 2 single fwd, 3 single bwd
    Near { which: u8, eps: f64 },
}

#[derive(Debug, Clone, Serialize, Deserialize, PartialEq)]
pub struct SnapSpec {
    pub offset: OffsetSel,
    pub sigma: f64,
    pub freq: f64,
    pub freq_sigma: f64,
    pub corr: f64,
    pub wander: f64,
    pub delay: f64,
    pub periodic: bool,
    pub src_unc: f64,
    pub src_delay: f64,
    /// 0 nowarning 1 leap61 2 leap59 3 unknown 4 unsynchronized
    pub leap: u8,
}

#[derive(Debug, Clone, Serialize, Deserialize, PartialEq)]
pub enum KOp {
    Snap { src: u8, s: SnapSpec },
    Meas { src: u8, offset: f64, delay: f64, root_delay: f64, root_disp: f64, leap: u8, dt_ms: u32 },
    Usable { src: u8, usable: bool },
    Remove { src: u8 },
    TimeUpdate,
    Advance { ms: u32 },
    /// local clock moves without the monotonic clock (external meddling)
    Skew { ms: i32 },
}

#[derive(Debug, Clone, Serialize, Deserialize, PartialEq)]
pub struct KCase {
    pub sync: SyncSpec,
    pub algo: AlgoSpec,
    pub init_freq: f64,
    pub sources: Vec<SrcKind>,
    pub poll_min: i8,
    pub poll_max: i8,
    pub poll_initial: i8,
    pub start_time: u64,
    pub ops: Vec<KOp>,
    /// measured offsets are relative to the true time: steps the daemon applied reduce them
    #[serde(default)]
    pub closed_loop: bool,
}

// ---------------------------------------------------------------------------
// recording clock

#[derive(Debug, Clone, Serialize, Deserialize, PartialEq)]
pub enum ClockEvent {
    Step { raw: i64 },
    SetFreq { bits: u64 },
    ErrEst { est: i64, max: i64 },
    Status { leap: u8 },
    Disable,
}

pub struct ClockState {
    pub now: u64,
    pub freq: f64,
    pub events: Vec<ClockEvent>,
    /// file descriptor to stream events to (forked child), if any
    pub stream_fd: Option<i32>,
}

#[derive(Clone)]
pub struct RecClock(pub Arc<Mutex<ClockState>>);

#[derive(Debug)]
pub struct NoErr;
impl std::fmt::Display for NoErr {
    fn fmt(&self, f: &mut std::fmt::Formatter<'_>) -> std::fmt::Result {
        write!(f, "no error")
    }
}
impl std::error::Error for NoErr {}

pub fn leap_code(l: NtpLeapIndicator) -> u8 {
    match l {
        NtpLeapIndicator::NoWarning => 0,
        NtpLeapIndicator::Leap61 => 1,
        NtpLeapIndicator::Leap59 => 2,
        NtpLeapIndicator::Unknown => 3,
        NtpLeapIndicator::Unsynchronized => 4,
    }
}
pub fn leap_from(c: u8) -> NtpLeapIndicator {
    match c % 5 {
        0 => NtpLeapIndicator::NoWarning,
        1 => NtpLeapIndicator::Leap61,
        2 => NtpLeapIndicator::Leap59,
        3 => NtpLeapIndicator::Unknown,
        _ => NtpLeapIndicator::Unsynchronized,
    }
}

/// output buffer of the forked helper: flushed after every case and by an atexit handler, so
/// a `process::exit` in the code under test cannot lose what was recorded before it
static STREAM_BUF: Mutex<Vec<u8>> = Mutex::new(Vec::new());
static STREAM_FD: std::sync::atomic::AtomicI32 = std::sync::atomic::AtomicI32::new(-1);

pub fn stream_write(bytes: &[u8]) {
    STREAM_BUF.lock().unwrap().extend_from_slice(bytes);
}
pub extern "C" fn stream_flush() {
    let fd = STREAM_FD.load(std::sync::atomic::Ordering::Relaxed);
    if fd < 0 {
        return;
    }
    if let Ok(mut b) = STREAM_BUF.try_lock() {
        let mut off = 0;
        while off < b.len() {
            let n = unsafe { libc::write(fd, b[off..].as_ptr() as *const libc::c_void, b.len() - off) };
            if n <= 0 {
                break;
            }
            off += n as usize;
        }
        b.clear();
    }
}

impl RecClock {
    fn push(&self, e: ClockEvent) {
        let mut st = self.0.lock().unwrap();
        if st.stream_fd.is_some() {
            let line = format!("E {}\n", serde_json::to_string(&e).unwrap());
            stream_write(line.as_bytes());
        }
        st.events.push(e);
    }
}

impl NtpClock for RecClock {
    type Error = NoErr;
    fn now(&self) -> Result<NtpTimestamp, NoErr> {
        Ok(nh::time::timestamp_from_raw(self.0.lock().unwrap().now))
    }
    fn set_frequency(&self, freq: f64) -> Result<NtpTimestamp, NoErr> {
        self.push(ClockEvent::SetFreq { bits: freq.to_bits() });
        let mut st = self.0.lock().unwrap();
        st.freq = freq;
        Ok(nh::time::timestamp_from_raw(st.now))
    }
    fn get_frequency(&self) -> Result<f64, NoErr> {
        Ok(self.0.lock().unwrap().freq)
    }
    fn step_clock(&self, offset: NtpDuration) -> Result<NtpTimestamp, NoErr> {
        let raw = nh::time::duration_raw(offset);
        self.push(ClockEvent::Step { raw });
        let mut st = self.0.lock().unwrap();
        st.now = st.now.wrapping_add(raw as u64);
        Ok(nh::time::timestamp_from_raw(st.now))
    }
    fn disable_ntp_algorithm(&self) -> Result<(), NoErr> {
        self.push(ClockEvent::Disable);
        Ok(())
    }
    fn error_estimate_update(&self, est: NtpDuration, max: NtpDuration) -> Result<(), NoErr> {
        self.push(ClockEvent::ErrEst { est: nh::time::duration_raw(est), max: nh::time::duration_raw(max) });
        Ok(())
    }
    fn status_update(&self, leap: NtpLeapIndicator) -> Result<(), NoErr> {
        self.push(ClockEvent::Status { leap: leap_code(leap) });
        Ok(())
    }
}

// ---------------------------------------------------------------------------
// results

/// f64 fields travel through JSON as bit patterns so that NaN/inf survive the pipe of the forked runs
pub mod fbits {
    use serde::{Deserialize, Deserializer, Serializer};
    pub fn serialize<S: Serializer>(v: &f64, s: S) -> Result<S::Ok, S::Error> {
        s.serialize_u64(v.to_bits())
    }
    pub fn deserialize<'de, D: Deserializer<'de>>(d: D) -> Result<f64, D::Error> {
        Ok(f64::from_bits(u64::deserialize(d)?))
    }
}
pub mod fbits_opt4 {
    use serde::{Deserialize, Deserializer, Serialize, Serializer};
    pub fn serialize<S: Serializer>(v: &Option<[f64; 4]>, s: S) -> Result<S::Ok, S::Error> {
        v.map(|a| a.map(f64::to_bits)).serialize(s)
    }
    pub fn deserialize<'de, D: Deserializer<'de>>(d: D) -> Result<Option<[f64; 4]>, D::Error> {
        Ok(Option::<[u64; 4]>::deserialize(d)?.map(|a| a.map(f64::from_bits)))
    }
}
pub mod fbits_opt {
    use serde::{Deserialize, Deserializer, Serialize, Serializer};
    pub fn serialize<S: Serializer>(v: &Option<f64>, s: S) -> Result<S::Ok, S::Error> {
        v.map(f64::to_bits).serialize(s)
    }
    pub fn deserialize<'de, D: Deserializer<'de>>(d: D) -> Result<Option<f64>, D::Error> {
        Ok(Option::<u64>::deserialize(d)?.map(f64::from_bits))
    }
}

#[derive(Debug, Clone, Serialize, Deserialize, PartialEq)]
pub struct SnapView {
    pub src: usize,
    #[serde(with = "fbits")]
    pub offset: f64,
    #[serde(with = "fbits")]
    pub offset_var: f64,
    #[serde(with = "fbits")]
    pub cov: f64,
    #[serde(with = "fbits")]
    pub freq: f64,
    #[serde(with = "fbits")]
    pub freq_var: f64,
    #[serde(with = "fbits")]
    pub wander: f64,
    #[serde(with = "fbits")]
    pub delay: f64,
    pub periodic: bool,
    pub leap: u8,
}

#[derive(Debug, Clone, Serialize, Deserialize, PartialEq)]
pub struct ObsView {
    pub offset: i64,
    pub uncertainty: i64,
    pub delay: i64,
}

#[derive(Debug, Clone, Serialize, Deserialize, PartialEq)]
pub struct OpResult {
    pub events: Vec<ClockEvent>,
    /// indices (into case.sources) of the sources reported as used, if the op produced a report
    pub used: Option<Vec<usize>>,
    #[serde(with = "fbits_opt4")]
    pub snapshot_floats: Option<[f64; 4]>,
    pub snapshot_leap: Option<u8>,
    pub snapshot_root_delay: Option<i64>,
    pub accumulated_steps: Option<i64>,
    #[serde(with = "fbits_opt")]
    pub next_update_ms: Option<f64>,
    pub in_startup: bool,
    #[serde(with = "fbits")]
    pub freq_offset: f64,
    #[serde(with = "fbits")]
    pub desired_freq: f64,
    /// snapshot that a real source produced in this op (before the controller saw it)
    pub produced: Option<SnapView>,
    /// what the controller holds for every registered source BEFORE this op: (src, snapshot, usable)
    pub held_before: Vec<(usize, Option<SnapView>, bool)>,
    pub observes: Vec<Option<ObsView>>,
    pub desired_polls: Vec<Option<i8>>,
    pub now: u64,
    /// how many non-finite values were converted with `NtpDuration::from_seconds` during this op (hook counter)
    #[serde(default)]
    pub nonfinite_seconds: u64,
}

/// The synchronisation settings as the daemon gets them: rendered as the `[synchronization]` table of the
/// configuration file and read back through the crate's deserialisers (single number where both directions agree,
/// otherwise the map form; "inf" = no limit; accumulated threshold 0 = off, as documented).
pub fn sync_config(s: &SyncSpec) -> SynchronizationConfig {
    let part = |v: Option<f64>| match v {
        None => "\"inf\"".to_string(),
        Some(x) => format!("{x:?}"),
    };
    let both = |f: Option<f64>, b: Option<f64>| {
        if f == b && f.is_none_or(|x| x.to_bits() & 1 == 0) {
            part(f)
        } else {
            format!("{{ forward = {}, backward = {} }}", part(f), part(b))
        }
    };
    // accumulated: the file format has no way to say "limit 0"; such a spec is built directly (below)
    let text = format!(
        "minimum-agreeing-sources = {}\nstartup-step-panic-threshold = {}\nsingle-step-panic-threshold = {}\naccumulated-step-panic-threshold = {:?}\n",
        s.min_agree,
        both(s.startup_fwd, s.startup_bwd),
        both(s.single_fwd, s.single_bwd),
        s.accumulated.unwrap_or(0.0),
    );
    if s.accumulated != Some(0.0) {
        if let Ok(c) = toml::from_str::<SynchronizationConfig>(&text) {
            return c;
        }
    }
    sync_config_direct(s)
}

pub fn sync_config_direct(s: &SyncSpec) -> SynchronizationConfig {
    let mut c = SynchronizationConfig::default();
    c.minimum_agreeing_sources = s.min_agree as usize;
    let d = |v: Option<f64>| v.map(NtpDuration::from_seconds);
    c.startup_step_panic_threshold = StepThreshold { forward: d(s.startup_fwd), backward: d(s.startup_bwd) };
    c.single_step_panic_threshold = StepThreshold { forward: d(s.single_fwd), backward: d(s.single_bwd) };
    c.accumulated_step_panic_threshold = d(s.accumulated);
    c
}

pub fn algo_config(a: &AlgoSpec) -> AlgorithmConfig {
    let mut c = AlgorithmConfig::default();
    c.step_threshold = a.step_threshold;
    c.steer_offset_threshold = a.offset_threshold;
    c.steer_offset_leftover = a.offset_leftover;
    c.steer_frequency_threshold = a.freq_threshold;
    c.steer_frequency_leftover = a.freq_leftover;
    c.maximum_frequency_steer = a.max_freq_steer;
    c.slew_maximum_frequency_offset = a.slew_max_freq;
    c.slew_minimum_duration = a.slew_min_duration;
    c.maximum_source_uncertainty = a.max_source_uncertainty;
    c.range_statistical_weight = a.stat_weight;
    c.range_delay_weight = a.delay_weight;
    c.ignore_server_dispersion = a.ignore_dispersion;
    if a.meddling_off {
        c.meddling_threshold = NtpDuration::MAX;
    }
    c
}

pub fn resolve_offset(sel: OffsetSel, sync: &SyncSpec) -> f64 {
    match sel {
        OffsetSel::Abs(v) => v,
        OffsetSel::Near { which, eps } => {
            let (t, sign) = match which % 4 {
                0 => (sync.startup_fwd, 1.0),
                1 => (sync.startup_bwd, -1.0),
                2 => (sync.single_fwd, 1.0),
                _ => (sync.single_bwd, -1.0),
            };
            let t = t.unwrap_or(1000.0).min(2.0e9);
            let t = if matches!(sel, OffsetSel::Near { .. }) { t } else { t };
            sign * t * (1.0 + eps)
        }
    }
}

enum Src {
    Two(ntp_proto::TwoWayKalmanSourceController),
    One(<KalmanClockController<RecClock> as InternalTimeSyncController>::OneWaySourceController),
    Gone,
}

pub fn snap_view(src: usize, s: &kh::Snap) -> SnapView {
    SnapView {
        src,
        offset: s.offset,
        offset_var: s.offset_var,
        cov: s.cov,
        freq: s.freq,
        freq_var: s.freq_var,
        wander: s.wander,
        delay: s.delay,
        periodic: s.period.is_some(),
        leap: leap_code(s.leap),
    }
}

/// Run a case; must be called inside a paused tokio runtime. `stream_fd`: stream op results/events to this fd.
pub async fn run_case(case: &KCase, stream_fd: Option<i32>) -> Vec<OpResult> {
    let clock = RecClock(Arc::new(Mutex::new(ClockState { now: case.start_time, freq: case.init_freq, events: vec![], stream_fd })));
    let sync = sync_config(&case.sync);
    let algo = algo_config(&case.algo);
    let mut ctl = KalmanClockController::new(clock.clone(), sync, algo).expect("clock never fails");
    ctl.take_control().unwrap();
    let scfg = SourceConfig {
        poll_interval_limits: PollIntervalLimits {
            min: PollInterval::from_byte(case.poll_min as u8),
            max: PollInterval::from_byte(case.poll_max as u8),
        },
        initial_poll_interval: PollInterval::from_byte(case.poll_initial as u8),
    };
    let mut ids = Vec::new();
    let mut srcs: Vec<Src> = Vec::new();
    for k in &case.sources {
        let id = ClockId::new();
        ids.push(id);
        match k {
            SrcKind::TwoWay => srcs.push(Src::Two(ctl.add_source(id, scfg))),
            SrcKind::OneWay { period, noise, accuracy } => {
                srcs.push(Src::One(ctl.add_one_way_source(id, scfg, *noise, *accuracy, *period)))
            }
        }
    }
    let idx_of = |id: ClockId, ids: &[ClockId]| ids.iter().position(|x| *x == id).unwrap_or(usize::MAX);
    let mut out = Vec::new();
    let mut stepped = 0.0f64;
    // what take_control passed to the clock: values (frequency, step, error estimate) are judged together with the
    // first op; the status/disable bookkeeping it always does is not part of any op
    let mut startup_values: Vec<ClockEvent> = std::mem::take(&mut clock.0.lock().unwrap().events)
        .into_iter()
        .filter(|e| matches!(e, ClockEvent::Step { .. } | ClockEvent::SetFreq { .. } | ClockEvent::ErrEst { .. }))
        .collect();
    let _ = nh::time::take_nonfinite_seconds();
    let mut last_local: Vec<Option<u64>> = vec![None; case.sources.len()];
    for op in &case.ops {
        let held_before: Vec<(usize, Option<SnapView>, bool)> = kh::controller_sources(&ctl)
            .into_iter()
            .map(|(id, s, u)| {
                let i = idx_of(id, &ids);
                (i, s.map(|s| snap_view(i, &s)), u)
            })
            .collect();
        let mut update = None;
        let mut produced = None;
        let mut skipped_meas = false;
        match op {
            KOp::Advance { ms } => {
                tokio::time::advance(Duration::from_millis(*ms as u64)).await;
                let mut st = clock.0.lock().unwrap();
                st.now = st.now.wrapping_add(((*ms as u64) << 32) / 1000);
            }
            KOp::Skew { ms } => {
                let mut st = clock.0.lock().unwrap();
                st.now = st.now.wrapping_add((((*ms as i64) << 32) / 1000) as u64);
            }
            KOp::Usable { src, usable } => {
                let i = *src as usize % ids.len();
                ctl.source_update(ids[i], *usable);
            }
            KOp::Remove { src } => {
                let i = *src as usize % ids.len();
                ctl.remove_source(ids[i]);
                srcs[i] = Src::Gone;
            }
            KOp::TimeUpdate => {
                update = Some(ctl.time_update());
            }
            KOp::Snap { src, s } => {
                let i = *src as usize % ids.len();
                let now = nh::time::timestamp_from_raw(clock.0.lock().unwrap().now);
                // real estimates always have a non-singular covariance
                let sigma = s.sigma.abs().max(1e-9);
                let fs = s.freq_sigma.abs().max(1e-9);
                let mut off = resolve_offset(s.offset, &case.sync);
                if s.periodic {
                    // periodic (PPS-like) sources keep their offset within half a period by construction
                    off -= off.round();
                }
                let snap = kh::Snap {
                    id: ids[i],
                    offset: off,
                    offset_var: sigma * sigma,
                    cov: s.corr.clamp(-0.95, 0.95) * sigma * fs,
                    freq: s.freq,
                    freq_var: fs * fs,
                    wander: s.wander.abs(),
                    delay: s.delay.abs(),
                    period: s.periodic.then_some(1.0),
                    source_uncertainty: NtpDuration::from_seconds(s.src_unc.abs()),
                    source_delay: NtpDuration::from_seconds(s.src_delay.abs()),
                    leap: leap_from(s.leap),
                    time: now,
                    last_update: now,
                };
                update = Some(ctl.source_message(ids[i], kh::make_message(&snap)));
            }
            KOp::Meas { src, offset, delay, root_delay, root_disp, leap, dt_ms } => {
                let i = *src as usize % ids.len();
                tokio::time::advance(Duration::from_millis(*dt_ms as u64)).await;
                let now = {
                    let mut st = clock.0.lock().unwrap();
                    st.now = st.now.wrapping_add(((*dt_ms as u64) << 32) / 1000);
                    nh::time::timestamp_from_raw(st.now)
                };
                // the statements quantify over measurements taken at strictly increasing local times (>= 1 ms apart);
                // after an external backward change of the clock (Skew) a source's next measurement would not be:
                // such a measurement is not delivered
                let raw_now = nh::time::timestamp_raw(now);
                if let Some(prev) = last_local[i] {
                    if (raw_now.wrapping_sub(prev) as i64) < ((1i64 << 32) / 1000) {
                        skipped_meas = true;
                    }
                }
                if !skipped_meas {
                    last_local[i] = Some(raw_now);
                }
                let eff_offset = if case.closed_loop { *offset - stepped } else { *offset };
                let offset = &eff_offset;
                let base = |d| InternalMeasurement {
                    delay: d,
                    offset: NtpDuration::from_seconds(*offset),
                    localtime: now,
                    root_delay: NtpDuration::from_seconds(root_delay.abs()),
                    root_dispersion: NtpDuration::from_seconds(root_disp.abs()),
                    leap: leap_from(*leap),
                    precision: -20,
                };
                let periodic = matches!(case.sources[i], SrcKind::OneWay { period: Some(_), .. });
                let msg = match &mut srcs[i] {
                    _ if skipped_meas => None,
                    Src::Two(c) => c.handle_measurement(base(NtpDuration::from_seconds(*delay))),
                    Src::One(c) => {
                        let mut m = base(NtpDuration::ZERO);
                        if periodic {
                            // a pulse-per-second source only ever reports sub-period offsets
                            let o = offset - offset.round();
                            m.offset = NtpDuration::from_seconds(o);
                        }
                        c.handle_measurement(InternalMeasurement {
                            delay: (),
                            offset: m.offset,
                            localtime: m.localtime,
                            root_delay: m.root_delay,
                            root_dispersion: m.root_dispersion,
                            leap: m.leap,
                            precision: m.precision,
                        })
                    }
                    Src::Gone => None,
                };
                if let Some(msg) = msg {
                    produced = Some(snap_view(i, &kh::view_message(&msg)));
                    update = Some(ctl.source_message(ids[i], msg));
                }
            }
        }
        let mut used = None;
        let mut snapshot: Option<TimeSnapshot> = None;
        let mut next_update_ms = None;
        if let Some(u) = update {
            if let Some(m) = u.source_message {
                for s in srcs.iter_mut() {
                    match s {
                        Src::Two(c) => c.handle_message(m.clone()),
                        Src::One(c) => c.handle_message(m.clone()),
                        Src::Gone => {}
                    }
                }
            }
            used = u.used_sources.map(|v| v.into_iter().map(|id| idx_of(id, &ids)).collect());
            snapshot = u.time_snapshot;
            next_update_ms = u.next_update.map(|d| d.as_secs_f64() * 1e3);
        }
        let st = kh::controller_state(&ctl);
        let mut events = std::mem::take(&mut clock.0.lock().unwrap().events);
        if !startup_values.is_empty() {
            let mut v = std::mem::take(&mut startup_values);
            v.append(&mut events);
            events = v;
        }
        for e in &events {
            if let ClockEvent::Step { raw } = e {
                stepped += *raw as f64 / 4294967296.0;
                // the daemon's own steps move the sources' notion of local time along
                for l in last_local.iter_mut().flatten() {
                    *l = l.wrapping_add(*raw as u64);
                }
            }
        }
        let observes = srcs
            .iter()
            .map(|s| {
                let o = match s {
                    Src::Two(c) => Some(c.observe()),
                    Src::One(c) => Some(c.observe()),
                    Src::Gone => None,
                };
                o.map(|o| ObsView {
                    offset: nh::time::duration_raw(o.offset),
                    uncertainty: nh::time::duration_raw(o.uncertainty),
                    delay: nh::time::duration_raw(o.delay),
                })
            })
            .collect();
        let desired_polls = srcs
            .iter()
            .map(|s| match s {
                Src::Two(c) => Some(c.desired_poll_interval().as_log()),
                Src::One(c) => Some(c.desired_poll_interval().as_log()),
                Src::Gone => None,
            })
            .collect();
        let r = OpResult {
            events,
            used,
            snapshot_floats: snapshot.map(|s| [s.root_variance_base, s.root_variance_linear, s.root_variance_quadratic, s.root_variance_cubic]),
            snapshot_leap: snapshot.map(|s| leap_code(s.leap_indicator)),
            snapshot_root_delay: snapshot.map(|s| nh::time::duration_raw(s.root_delay)),
            accumulated_steps: snapshot.map(|s| nh::time::duration_raw(s.accumulated_steps)),
            next_update_ms,
            in_startup: st.in_startup,
            freq_offset: st.freq_offset,
            desired_freq: st.desired_freq,
            produced,
            held_before,
            observes,
            desired_polls,
            now: clock.0.lock().unwrap().now,
            nonfinite_seconds: nh::time::take_nonfinite_seconds(),
        };
        if std::env::var_os("VERIF_TRACE").is_some() {
            eprintln!("TRACE {:?}", r);
        }
        if stream_fd.is_some() {
            // compact: the forked oracle only needs the op boundary and whether sources were reported
            stream_write(if r.used.is_some() { b"OU\n" } else { b"ON\n" });
        }
        out.push(r);
    }
    out
}

/// how a forked child ended
#[derive(Debug, Clone, PartialEq)]
pub enum ChildEnd {
    Completed,
    Exit(i32),
    Signal(i32),
    Panic(String),
}

/// Run the case in a forked helper process (the real `process::exit(70)` is observed).
/// The helper is forked once per worker and serves cases over a pipe until one of them makes it
/// exit; then the exit status is collected and a new helper is forked for the next case.
/// (Intercepting libc's `exit` in-process is not possible more than once per process: Rust's
/// `process::exit` parks every second caller in `unique_thread_exit`.)
/// The helper buffers its output and flushes it after every case and from an atexit handler, so
/// a `process::exit` in the code under test cannot lose what was recorded before it.
/// Returns per op (clock events, whether sources were reported), the events of an unfinished op,
/// and how the run ended.
pub fn run_forked(case: &KCase) -> (Vec<(Vec<ClockEvent>, bool)>, Vec<ClockEvent>, ChildEnd) {
    use std::io::{BufRead, BufReader, Write};
    use std::os::fd::FromRawFd;
    struct Helper {
        pid: i32,
        to: std::fs::File,
        from: BufReader<std::fs::File>,
    }
    thread_local! { static HELPER: std::cell::RefCell<Option<Helper>> = const { std::cell::RefCell::new(None) }; }

    fn spawn_helper() -> Helper {
        let mut down = [0i32; 2];
        let mut up = [0i32; 2];
        unsafe {
            if libc::pipe(down.as_mut_ptr()) != 0 || libc::pipe(up.as_mut_ptr()) != 0 {
                panic!("pipe failed");
            }
        }
        let pid = unsafe { libc::fork() };
        if pid < 0 {
            panic!("fork failed");
        }
        if pid == 0 {
            unsafe {
                libc::close(down[1]);
                libc::close(up[0]);
            }
            STREAM_FD.store(up[1], std::sync::atomic::Ordering::Relaxed);
            STREAM_BUF.lock().unwrap().clear();
            unsafe { libc::atexit(stream_flush) };
            let input = unsafe { std::fs::File::from_raw_fd(down[0]) };
            let mut lines = BufReader::new(input);
            let mut line = String::new();
            loop {
                line.clear();
                match lines.read_line(&mut line) {
                    Ok(0) | Err(_) => unsafe { libc::_exit(0) },
                    Ok(_) => {}
                }
                let Ok(case) = serde_json::from_str::<KCase>(&line) else { unsafe { libc::_exit(4) } };
                let r = crate::engine::catch(|| {
                    crate::rt::run_paused(run_case(&case, Some(up[1])));
                });
                let msg = match r {
                    Ok(()) => "D\n".to_string(),
                    Err(m) => format!("P {}\n", m.replace('\n', " ")),
                };
                stream_write(msg.as_bytes());
                stream_flush();
            }
        }
        unsafe {
            libc::close(down[0]);
            libc::close(up[1]);
        }
        Helper {
            pid,
            to: unsafe { std::fs::File::from_raw_fd(down[1]) },
            from: BufReader::new(unsafe { std::fs::File::from_raw_fd(up[0]) }),
        }
    }

    HELPER.with(|h| {
        let mut h = h.borrow_mut();
        if h.is_none() {
            *h = Some(spawn_helper());
        }
        let helper = h.as_mut().unwrap();
        let mut line = serde_json::to_string(case).unwrap();
        line.push('\n');
        let sent = helper.to.write_all(line.as_bytes()).and_then(|_| helper.to.flush());
        let mut ops = Vec::new();
        let mut dangling: Vec<ClockEvent> = Vec::new();
        let mut end: Option<ChildEnd> = None;
        if sent.is_ok() {
            let mut buf = String::new();
            loop {
                buf.clear();
                match helper.from.read_line(&mut buf) {
                    Ok(0) | Err(_) => break, // helper died
                    Ok(_) => {}
                }
                let l = buf.trim_end_matches('\n');
                if let Some(j) = l.strip_prefix("E ") {
                    if let Ok(e) = serde_json::from_str::<ClockEvent>(j) {
                        dangling.push(e);
                    }
                } else if l == "OU" || l == "ON" {
                    ops.push((std::mem::take(&mut dangling), l == "OU"));
                } else if l == "D" {
                    end = Some(ChildEnd::Completed);
                    break;
                } else if let Some(m) = l.strip_prefix("P ") {
                    end = Some(ChildEnd::Panic(m.to_string()));
                    break;
                }
            }
        }
        let end = match end {
            Some(e) => e,
            None => {
                // the helper is gone: collect its status and start a fresh one next time
                let helper = h.take().unwrap();
                let mut status = 0i32;
                unsafe { libc::waitpid(helper.pid, &mut status, 0) };
                if libc::WIFSIGNALED(status) {
                    ChildEnd::Signal(libc::WTERMSIG(status))
                } else {
                    ChildEnd::Exit(libc::WEXITSTATUS(status))
                }
            }
        };
        (ops, dangling, end)
    })
}

// ---------------------------------------------------------------------------
// strategies

pub fn thresholds() -> BoxedStrategy<Option<f64>> {
    prop_oneof![
        2 => Just(None),
        1 => Just(Some(0.0)),
        2 => Just(Some(0.01)),
        2 => Just(Some(1.0)),
        2 => Just(Some(1800.0)),
        1 => Just(Some(1.0e9)),
        1 => (0.0f64..3000.0).prop_map(Some),
    ]
    .boxed()
}

pub fn sync_strategy(finite_thresholds: bool) -> BoxedStrategy<SyncSpec> {
    if finite_thresholds {
        (1u8..4, thresholds(), thresholds(), thresholds(), thresholds(), prop_oneof![2 => Just(None), 1 => Just(Some(0.5)), 1 => Just(Some(10.0)), 1 => Just(Some(4000.0)), 1 => (0.0f64..5000.0).prop_map(Some)])
            .prop_map(|(min_agree, startup_fwd, startup_bwd, single_fwd, single_bwd, accumulated)| SyncSpec { min_agree, startup_fwd, startup_bwd, single_fwd, single_bwd, accumulated })
            .boxed()
    } else {
        (1u8..6).prop_map(|min_agree| SyncSpec { min_agree, startup_fwd: None, startup_bwd: None, single_fwd: None, single_bwd: None, accumulated: None }).boxed()
    }
}

pub fn algo_strategy(inert: bool) -> BoxedStrategy<AlgoSpec> {
    (
        prop_oneof![2 => Just(0.010f64), 1 => Just(0.0), 1 => Just(1e-4), 1 => Just(10.0), 1 => 0.0f64..1.0],
        prop_oneof![2 => Just(2.0f64), 1 => Just(0.0), 1 => 0.0f64..5.0],
        prop_oneof![2 => Just(1.0f64), 1 => Just(0.0), 1 => 0.0f64..2.0],
        prop_oneof![2 => Just(0.0f64), 1 => Just(2.0), 1 => 0.0f64..5.0],
        prop_oneof![2 => Just(0.0f64), 1 => 0.0f64..2.0],
        prop_oneof![2 => Just(495e-6f64), 1 => Just(1e-6), 1 => Just(1e-3), 1 => 1e-9f64..1e-2],
        prop_oneof![2 => Just(200e-6f64), 1 => Just(1e-6), 1 => 1e-9f64..1e-2],
        prop_oneof![2 => Just(8.0f64), 1 => Just(1e-3), 1 => 1e-3f64..1000.0],
        prop_oneof![3 => Just(0.250f64), 1 => Just(1e-3), 1 => Just(1e6), 1 => 0.0f64..10.0],
        prop_oneof![2 => Just(2.0f64), 1 => Just(1.0), 1 => Just(0.0), 1 => 0.0f64..4.0],
        prop_oneof![2 => Just(0.25f64), 1 => Just(0.0), 1 => Just(1.0)],
        any::<bool>(),
    )
        .prop_map(move |(step_threshold, offset_threshold, offset_leftover, freq_threshold, freq_leftover, max_freq_steer, slew_max_freq, slew_min_duration, max_source_uncertainty, stat_weight, delay_weight, ignore_dispersion)| AlgoSpec {
            step_threshold,
            offset_threshold: if inert { 1e300 } else { offset_threshold },
            offset_leftover,
            freq_threshold: if inert { 1e300 } else { freq_threshold },
            freq_leftover,
            max_freq_steer,
            slew_max_freq,
            slew_min_duration,
            max_source_uncertainty,
            stat_weight,
            delay_weight,
            ignore_dispersion,
            meddling_off: true,
        })
        .boxed()
}

/// offsets / radii from a small lattice so touching, nested, identical and disjoint intervals are frequent
pub fn lattice_snap(near: bool) -> BoxedStrategy<SnapSpec> {
    let offset = if near {
        prop_oneof![
            3 => prop::sample::select(vec![-0.004f64, -0.002, -0.001, 0.0, 0.001, 0.002, 0.003, 0.004, 0.008]).prop_map(OffsetSel::Abs),
            4 => (0u8..4, prop::sample::select(vec![-0.5f64, -0.01, -1e-6, -1e-9, 0.0, 1e-9, 1e-6, 0.01, 0.5])).prop_map(|(which, eps)| OffsetSel::Near { which, eps }),
            2 => prop::sample::select(vec![-5000.0f64, -1900.0, -1801.0, -1799.0, -100.0, -1.5, -0.5, 0.5, 1.5, 100.0, 1799.0, 1801.0, 5000.0, 2.0e9, -2.0e9]).prop_map(OffsetSel::Abs),
            1 => (-3000.0f64..3000.0).prop_map(OffsetSel::Abs),
        ]
        .boxed()
    } else {
        prop_oneof![
            5 => prop::sample::select(vec![-0.004f64, -0.003, -0.002, -0.001, 0.0, 0.001, 0.002, 0.003, 0.004, 0.006, 0.008]).prop_map(OffsetSel::Abs),
            1 => (-0.01f64..0.01).prop_map(OffsetSel::Abs),
        ]
        .boxed()
    };
    (
        offset,
        prop_oneof![4 => prop::sample::select(vec![0.0f64, 0.0005, 0.001, 0.002]), 1 => Just(1.0f64), 1 => 0.0f64..0.01],
        prop_oneof![3 => Just(0.0f64), 1 => -1e-4f64..1e-4],
        prop_oneof![2 => Just(1e-6f64), 1 => Just(0.0), 1 => 0.0f64..1e-3],
        prop_oneof![3 => Just(0.0f64), 1 => -0.9f64..0.9],
        prop_oneof![2 => Just(1e-8f64), 1 => Just(0.0), 1 => 0.0f64..1e-4],
        prop_oneof![3 => prop::sample::select(vec![0.0f64, 0.001, 0.002, 0.004]), 1 => 0.0f64..2.0],
        prop_oneof![6 => Just(false), 1 => Just(true)],
        prop_oneof![2 => Just(0.0f64), 1 => 0.0f64..0.01],
        prop_oneof![2 => Just(0.0f64), 1 => 0.0f64..0.1],
        prop_oneof![5 => Just(0u8), 1 => Just(1u8), 1 => Just(2u8), 2 => Just(3u8), 2 => Just(4u8)],
    )
        .prop_map(|(offset, sigma, freq, freq_sigma, corr, wander, delay, periodic, src_unc, src_delay, leap)| SnapSpec { offset, sigma, freq, freq_sigma, corr, wander, delay, periodic, src_unc, src_delay, leap })
        .boxed()
}
