//! Scripted in-process NTS-KE server for the NTS spawner checks (C35 NTS pool, C36 NTS single server).
//!
//! * a real TCP listener on 127.0.0.1 (ephemeral port chosen by the kernel, so worker processes never
//!   collide), a harness-side TLS acceptor with the repo's test certificate (valid for `localhost`) and
//!   the independent record codec of `w_ntske`; the repo's own server code is NOT involved;
//! * the answer to the k-th accepted connection is `script[k % len]` (server name, port, cookies, error,
//!   close, stall), every exchange is logged (denied names the client sent, what was answered);
//! * NTP server names handed out are names of [`NTP_NAMES`] (resolved by the interposed resolver `w_dns`
//!   to scripted loopback addresses), IP literals, or absent (the client then uses the KE name).
//!
//! Clock: the checks run on a PAUSED tokio clock. A paused tokio clock auto-advances to the next timer
//! whenever the runtime has nothing to run -- also while a real socket is about to become readable
//! (tokio's auto-advance does not know about pending IO). [`Spin`] therefore keeps one always-ready task
//! alive while the wrapped spawner's `try_spawn` runs: the runtime then never goes idle, virtual time
//! stands still during a spawn attempt and moves only where the script says so (`delay_ms`, `Stall`
//! call `tokio::time::advance`). Outside spawn attempts no real IO is in flight and auto-advance is
//! harmless. The code under test only ever sees the tokio clock, so all verdicts are in virtual time.
use std::net::{IpAddr, Ipv4Addr};
use std::sync::{Arc, Mutex};
use std::time::Duration;

use ntpd::verif_hook::spawn_hook as sh;
use serde::{Deserialize, Serialize};
use tokio::io::AsyncWriteExt;
use tokio::net::{TcpListener, TcpStream};
use tokio::sync::mpsc;
use tokio::time::Instant;

use crate::w_dns::{self, Answer};
use crate::w_ntske::{self, CRIT, ReadMsg, T_AEAD, T_COOKIE, T_EOM, T_ERROR, T_NEXT_PROTO, T_PORT, T_SERVER, rec, u16s};

/// the only name in the repo's test certificate; the KE server is configured under this name
pub const KE_HOST: &str = "localhost";
/// the address the listener is bound to
pub const LISTEN_IP: IpAddr = IpAddr::V4(Ipv4Addr::new(127, 0, 0, 1));
/// loopback address nobody listens on (TCP connect is refused immediately)
pub const DEAD_IP: IpAddr = IpAddr::V4(Ipv4Addr::new(127, 0, 0, 9));
/// NTP server names the scripted KE server hands out
pub const NTP_NAMES: [&str; 4] = ["n0.nts.verif.test", "n1.nts.verif.test", "n2.nts.verif.test", "n3.nts.verif.test"];
/// names of key-exchange servers reached through SRV records (all served by the one scripted listener, which
/// tells them apart by the TLS server name); the harness certificate is valid for them
pub const KE_NAMES: [&str; 4] = ["k0.nts.verif.test", "k1.nts.verif.test", "k2.nts.verif.test", "k3.nts.verif.test"];
/// `ntpd::daemon::spawn::NTS_TIMEOUT` (private constant): time limit of one key exchange. Only used to
/// make `Stall` outlast it; a different value in the repo changes labels, never verdicts.
pub const NTS_TIMEOUT_MS: u64 = 5000;

/// NTP address universe: 127.0.0.1 ..= 127.0.0.6
pub fn ip(i: u8) -> IpAddr {
    IpAddr::V4(Ipv4Addr::new(127, 0, 0, 1 + i % 6))
}

/// the NTPv4 server negotiation record of a response
#[derive(Debug, Clone, Copy, Serialize, Deserialize, PartialEq, Eq)]
pub enum Srv {
    /// no server record: the client keeps talking to the KE host name
    Absent,
    /// `NTP_NAMES[i % 4]`
    Name(u8),
    /// the IP literal of `ip(i)`
    Literal(u8),
}

impl Srv {
    pub fn text(&self) -> Option<String> {
        match self {
            Srv::Absent => None,
            Srv::Name(i) => Some(NTP_NAMES[*i as usize % NTP_NAMES.len()].to_string()),
            Srv::Literal(i) => Some(ip(*i).to_string()),
        }
    }
}

#[derive(Debug, Clone, Serialize, Deserialize, PartialEq, Eq)]
pub enum KeAnswer {
    /// well-formed response. `servers` is a preference list: with `honor_deny` the first entry the client
    /// did not list as denied is used (the first one if all are denied), otherwise always the first.
    Ok { servers: Vec<Srv>, port: Option<u16>, cookies: u8, delay_ms: u32 },
    /// an error record instead of a response
    ErrorRecord(u16),
    /// complete the TLS handshake, read the request, close without answering
    CloseAfterRequest,
    /// close the TCP connection right after accepting it
    DropTcp,
    /// keep the connection open without answering for longer than the client's key exchange timeout
    Stall,
}

/// scripted answer to one resolver call for the KE host name
#[derive(Debug, Clone, Copy, Serialize, Deserialize, PartialEq, Eq)]
pub enum KeDns {
    Listen,
    DeadThenListen,
    Dead,
    NoName,
    Again,
}

/// scripted answer to one resolver call for an NTP server name (`Addrs`: indices for [`ip`])
#[derive(Debug, Clone, Serialize, Deserialize, PartialEq, Eq)]
pub enum NDns {
    Addrs(Vec<u8>),
    NoName,
    Again,
}

pub fn ke_dns_answer(d: KeDns) -> Answer {
    match d {
        KeDns::Listen => Answer::Addrs(vec![LISTEN_IP]),
        KeDns::DeadThenListen => Answer::Addrs(vec![DEAD_IP, LISTEN_IP]),
        KeDns::Dead => Answer::Addrs(vec![DEAD_IP]),
        KeDns::NoName => Answer::NoName,
        KeDns::Again => Answer::Again,
    }
}

pub fn ndns_answer(d: &NDns) -> Answer {
    match d {
        NDns::Addrs(v) => Answer::Addrs(v.iter().map(|i| ip(*i)).collect()),
        NDns::NoName => Answer::NoName,
        NDns::Again => Answer::Again,
    }
}

/// install the resolver scripts of a case (after `w_dns::reset()`): KE host + every NTP name
/// (`hosts[i]` for `NTP_NAMES[i]`; a missing or empty script = the name does not exist)
pub fn script_dns(ke_dns: &[KeDns], hosts: &[Vec<NDns>]) {
    w_dns::script(KE_HOST, ke_dns.iter().map(|d| ke_dns_answer(*d)).collect());
    for (i, name) in NTP_NAMES.iter().enumerate() {
        let answers = hosts.get(i).map(|v| v.iter().map(ndns_answer).collect()).unwrap_or_default();
        w_dns::script(name, answers);
    }
}

/// what the server did with one accepted connection
#[derive(Debug, Clone, PartialEq, Eq)]
pub enum Reply {
    /// still being handled
    Pending,
    Responded { server: Option<String>, port: Option<u16>, cookies: u8 },
    Error(u16),
    ClosedAfterRequest,
    DroppedTcp,
    Stalled,
    /// the client did not complete the TLS handshake / did not send a complete request
    HandshakeFailed,
    BadRequest,
}

#[derive(Debug, Clone)]
pub struct Exchange {
    /// virtual time of the accept
    pub t_us: u64,
    /// value of the caller's probe at accept time
    pub probe: usize,
    /// NTPv4 server names the client asked not to get (record type 13... as sent)
    pub denied: Vec<String>,
    /// TLS server name the client asked for
    pub sni: Option<String>,
    /// next-protocol ids the client offered and the one the server answered with
    pub offered: Vec<u16>,
    pub negotiated: Option<u16>,
    /// what the server decided to do (recorded before anything is written)
    pub reply: Reply,
    /// the response / error record was written and the TLS stream shut down without an IO error
    pub write_ok: bool,
}

#[derive(Debug, Default)]
pub struct KeState {
    pub log: Vec<Exchange>,
}

pub type Probe = Arc<dyn Fn() -> usize + Send + Sync>;

pub struct KeServer {
    pub port: u16,
    pub state: Arc<Mutex<KeState>>,
    task: tokio::task::JoinHandle<()>,
}

impl Drop for KeServer {
    fn drop(&mut self) {
        self.task.abort();
    }
}

impl KeServer {
    /// number of TCP connections accepted so far
    pub fn accepted(&self) -> usize {
        self.state.lock().unwrap_or_else(|e| e.into_inner()).log.len()
    }
    pub fn log(&self) -> Vec<Exchange> {
        self.state.lock().unwrap_or_else(|e| e.into_inner()).log.clone()
    }
    /// the last exchange that was answered with a well-formed response
    pub fn last_responded(&self) -> Option<(Option<String>, Option<u16>)> {
        self.log().iter().rev().find_map(|e| match &e.reply {
            Reply::Responded { server, port, .. } => Some((server.clone(), *port)),
            _ => None,
        })
    }
}

/// harness-side time limit of every await of the server (virtual time)
const T: Duration = Duration::from_secs(20);

/// bind the listener and start serving; must be called inside the runtime of the case
pub async fn start(script: Vec<KeAnswer>, honor_deny: bool, t0: Instant, probe: Option<Probe>) -> std::io::Result<KeServer> {
    start_with(script, honor_deny, t0, probe, false).await
}

/// `prefer_v4`: of the protocols the client offers the server picks NTPv4 when it is among them (otherwise, and
/// by default, the first one offered)
pub async fn start_with(script: Vec<KeAnswer>, honor_deny: bool, t0: Instant, probe: Option<Probe>, prefer_v4: bool) -> std::io::Result<KeServer> {
    let listener = TcpListener::bind((LISTEN_IP, 0)).await?;
    let port = listener.local_addr()?.port();
    let state = Arc::new(Mutex::new(KeState::default()));
    let st = state.clone();
    let acceptor = w_ntske::tls::acceptor_multi();
    let task = tokio::spawn(async move {
        loop {
            let Ok((tcp, _)) = listener.accept().await else {
                tokio::task::yield_now().await;
                continue;
            };
            let k = {
                let mut s = st.lock().unwrap_or_else(|e| e.into_inner());
                s.log.push(Exchange {
                    t_us: Instant::now().duration_since(t0).as_micros() as u64,
                    probe: probe.as_ref().map(|p| p()).unwrap_or(0),
                    denied: vec![],
                    sni: None,
                    offered: vec![],
                    negotiated: None,
                    reply: Reply::Pending,
                    write_ok: false,
                });
                s.log.len() - 1
            };
            let answer = if script.is_empty() { KeAnswer::DropTcp } else { script[k % script.len()].clone() };
            let record = |denied: Vec<String>, reply: Reply| {
                let mut s = st.lock().unwrap_or_else(|e| e.into_inner());
                s.log[k].denied = denied;
                s.log[k].reply = reply;
            };
            let note_sni = |name: Option<String>| {
                st.lock().unwrap_or_else(|e| e.into_inner()).log[k].sni = name;
            };
            let note_proto = |offered: Vec<u16>, negotiated: u16| {
                let mut s = st.lock().unwrap_or_else(|e| e.into_inner());
                s.log[k].offered = offered;
                s.log[k].negotiated = Some(negotiated);
            };
            let write_ok = handle(tcp, &acceptor, &answer, honor_deny, k, &record, &note_sni, prefer_v4, &note_proto).await;
            st.lock().unwrap_or_else(|e| e.into_inner()).log[k].write_ok = write_ok;
        }
    });
    Ok(KeServer { port, state, task })
}

/// returns whether the scripted bytes were written completely
async fn handle(
    tcp: TcpStream,
    acceptor: &tokio_rustls::TlsAcceptor,
    answer: &KeAnswer,
    honor_deny: bool,
    k: usize,
    record: &(dyn Fn(Vec<String>, Reply) + Send + Sync),
    note_sni: &(dyn Fn(Option<String>) + Send + Sync),
    prefer_v4: bool,
    note_proto: &(dyn Fn(Vec<u16>, u16) + Send + Sync),
) -> bool {
    if matches!(answer, KeAnswer::DropTcp) {
        drop(tcp);
        record(vec![], Reply::DroppedTcp);
        return false;
    }
    let mut tls = match tokio::time::timeout(T, acceptor.accept(tcp)).await {
        Ok(Ok(s)) => s,
        _ => {
            record(vec![], Reply::HandshakeFailed);
            return false;
        }
    };
    let own_name = tls.get_ref().1.server_name().map(|n| n.to_string());
    note_sni(own_name.clone());
    let recs = match w_ntske::read_message(&mut tls).await {
        ReadMsg::Message(r) => r,
        _ => {
            record(vec![], Reply::HandshakeFailed);
            return false;
        }
    };
    let req = w_ntske::summarize(&recs);
    let denied: Vec<String> = req.denied.iter().map(|d| String::from_utf8_lossy(d).into_owned()).collect();
    if req.malformed || req.next_protocols.len() != 1 || req.next_protocols[0].is_empty() {
        record(denied, Reply::BadRequest);
        return false;
    }
    let offered: Vec<u16> = req.next_protocols[0].clone();
    let proto = if prefer_v4 && offered.contains(&0) { 0 } else { offered[0] };
    note_proto(offered, proto);

    let bytes = match answer {
        KeAnswer::DropTcp => unreachable!(),
        KeAnswer::CloseAfterRequest => {
            record(denied, Reply::ClosedAfterRequest);
            drop(tls);
            return false;
        }
        KeAnswer::Stall => {
            record(denied, Reply::Stalled);
            tokio::time::advance(Duration::from_millis(NTS_TIMEOUT_MS + 100)).await;
            // give the client's timeout a chance to fire before the connection goes away
            for _ in 0..4 {
                tokio::task::yield_now().await;
            }
            drop(tls);
            return false;
        }
        KeAnswer::ErrorRecord(code) => {
            record(denied, Reply::Error(*code));
            let mut out = rec(CRIT | T_ERROR, &u16s(&[*code]));
            out.extend(rec(CRIT | T_EOM, &[]));
            out
        }
        KeAnswer::Ok { servers, port, cookies, delay_ms } => {
            let texts: Vec<Option<String>> = servers.iter().map(|s| s.text()).collect();
            let is_denied = |t: &Option<String>| {
                let name = t.clone().unwrap_or_else(|| own_name.clone().unwrap_or_else(|| KE_HOST.to_string()));
                denied.iter().any(|d| *d == name)
            };
            let server = if honor_deny {
                texts.iter().find(|t| !is_denied(t)).or(texts.first()).cloned().flatten()
            } else {
                texts.first().cloned().flatten()
            };
            record(denied, Reply::Responded { server: server.clone(), port: *port, cookies: *cookies });
            if *delay_ms > 0 {
                tokio::time::advance(Duration::from_millis(*delay_ms as u64)).await;
            }
            let mut out = rec(CRIT | T_NEXT_PROTO, &u16s(&[proto]));
            out.extend(rec(CRIT | T_AEAD, &u16s(&[w_ntske::ALG_256])));
            for i in 0..*cookies {
                out.extend(rec(T_COOKIE, &vec![(k as u8).wrapping_mul(31).wrapping_add(i); 100]));
            }
            if let Some(s) = &server {
                out.extend(rec(T_SERVER, s.as_bytes()));
            }
            if let Some(p) = port {
                out.extend(rec(T_PORT, &p.to_be_bytes()));
            }
            out.extend(rec(CRIT | T_EOM, &[]));
            out
        }
    };
    let written = tokio::time::timeout(T, async {
        tls.write_all(&bytes).await?;
        tls.flush().await?;
        tls.shutdown().await
    })
    .await;
    matches!(written, Ok(Ok(())))
}

// ---------------------------------------------------------------------------------------------
// keeping virtual time still while a spawn attempt does real IO

/// upper bound of scheduler turns the spinner keeps the runtime busy for one attempt (hang guard: after
/// that the paused clock auto-advances again and the timeouts of the code under test / the server fire)
const SPIN_LIMIT: u64 = 20_000_000;

struct SpinGuard(tokio::task::JoinHandle<()>);

impl SpinGuard {
    fn start() -> Self {
        SpinGuard(tokio::spawn(async {
            for _ in 0..SPIN_LIMIT {
                tokio::task::yield_now().await;
                // the attempt may be waiting for the resolver thread of the blocking pool
                std::thread::yield_now();
            }
        }))
    }
}

impl Drop for SpinGuard {
    fn drop(&mut self) {
        self.0.abort();
    }
}

/// Pure delegation to `inner`; while `try_spawn` runs an always-ready task keeps the paused clock from
/// auto-advancing (see the module documentation).
pub struct Spin<S> {
    pub inner: S,
}

impl<S: sh::Spawner + Send> sh::Spawner for Spin<S> {
    type Error = S::Error;

    async fn try_spawn(&mut self, action_tx: &mpsc::Sender<sh::SpawnEvent>) -> Result<(), S::Error> {
        let guard = SpinGuard::start();
        let r = self.inner.try_spawn(action_tx).await;
        drop(guard);
        r
    }

    fn is_complete(&self) -> bool {
        self.inner.is_complete()
    }

    async fn handle_source_removed(&mut self, event: sh::SourceRemovedEvent) -> Result<(), S::Error> {
        self.inner.handle_source_removed(event).await
    }

    async fn handle_registered(&mut self, event: sh::SourceCreateParameters) -> Result<(), S::Error> {
        self.inner.handle_registered(event).await
    }

    fn get_id(&self) -> sh::SpawnerId {
        self.inner.get_id()
    }

    fn get_addr_description(&self) -> String {
        self.inner.get_addr_description()
    }

    fn get_description(&self) -> &'static str {
        self.inner.get_description()
    }
}

/// certificate authorities for the spawner configuration: the repo's test CA
pub fn test_cas() -> Arc<[ntp_proto::tls_utils::Certificate]> {
    w_ntske::tls::ca_certs().into()
}

/// Make sure the loopback KE plumbing works in this process at all (TCP on 127.0.0.1, TLS with the test
/// certificate, the repo's KE client accepting the test CA). If it does not, NTS cases could only ever
/// exercise failure paths: inconclusive, not a pass.
pub fn selftest() {
    use std::sync::Once;
    static ONCE: Once = Once::new();
    ONCE.call_once(|| {
        let ok = crate::rt::run_paused(async {
            w_dns::reset();
            script_dns(&[KeDns::Listen], &[vec![NDns::Addrs(vec![2])]]);
            let t0 = Instant::now();
            let script = vec![KeAnswer::Ok { servers: vec![Srv::Name(0)], port: Some(4123), cookies: 2, delay_ms: 0 }];
            let Ok(server) = start(script, false, t0, None).await else {
                return Err("cannot bind a TCP listener on 127.0.0.1".to_string());
            };
            let client = ntp_proto::KeyExchangeClient::new(&ntp_proto::NtsClientConfig {
                certificates: test_cas(),
                protocol_version: ntp_proto::ProtocolVersion::V4,
            })
            .map_err(|e| format!("client config: {e}"))?;
            let guard = SpinGuard::start();
            let io = TcpStream::connect((KE_HOST, server.port)).await.map_err(|e| format!("connect: {e}"))?;
            let r = client.exchange_keys(io, KE_HOST.to_string(), []).await.map_err(|e| format!("exchange: {e}"))?;
            drop(guard);
            if r.remote != NTP_NAMES[0] || r.port != 4123 {
                return Err(format!("unexpected exchange result {} {}", r.remote, r.port));
            }
            if Instant::now() != t0 {
                return Err("virtual time moved during a key exchange".to_string());
            }
            Ok(())
        });
        if let Err(e) = ok {
            eprintln!("INCONCLUSIVE: loopback NTS-KE self-test failed: {e}");
            std::process::exit(2);
        }
    });
}
