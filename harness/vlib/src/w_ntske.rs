//! Shared helpers for the NTS-KE properties (C28, C29, C30):
//! * an independent byte-level NTS-KE record codec (RFC 8915 §4 framing) used to build stimuli
//!   and to decode what the code under test sends,
//! * a counting, always-ready `AsyncRead`,
//! * "views": plain-data projections of the repo's request/response types (built by reading
//!   public fields only),
//! * in-memory TLS plumbing (tokio duplex + tokio-rustls) with the repo's test certificates.
use std::future::Future;
use std::pin::{Pin, pin};
use std::sync::Arc;
use std::task::{Context, Poll, Waker};

use ntp_proto::NtsError;
use tokio::io::{AsyncRead, ReadBuf};

// ---------------------------------------------------------------------------
// hex (de)serialisation of byte vectors for compact replay files

pub mod hexser {
    use serde::{Deserialize, Deserializer, Serializer};
    pub fn serialize<S: Serializer>(v: &Vec<u8>, s: S) -> Result<S::Ok, S::Error> {
        let mut out = String::with_capacity(v.len() * 2);
        for b in v {
            out.push_str(&format!("{b:02x}"));
        }
        s.serialize_str(&out)
    }
    pub fn deserialize<'de, D: Deserializer<'de>>(d: D) -> Result<Vec<u8>, D::Error> {
        let s = String::deserialize(d)?;
        if s.len() % 2 != 0 {
            return Err(serde::de::Error::custom("odd hex length"));
        }
        (0..s.len() / 2)
            .map(|i| u8::from_str_radix(&s[2 * i..2 * i + 2], 16).map_err(serde::de::Error::custom))
            .collect()
    }
}

// ---------------------------------------------------------------------------
// reference record codec (bytes only; independent of the repo's types)

pub const CRIT: u16 = 0x8000;
pub const T_EOM: u16 = 0;
pub const T_NEXT_PROTO: u16 = 1;
pub const T_ERROR: u16 = 2;
pub const T_WARNING: u16 = 3;
pub const T_AEAD: u16 = 4;
pub const T_COOKIE: u16 = 5;
pub const T_SERVER: u16 = 6;
pub const T_PORT: u16 = 7;
pub const T_KEEP_ALIVE: u16 = 8;
pub const T_SUPP_PROTO: u16 = 9;
pub const T_SUPP_ALG: u16 = 10;
pub const T_FIXED_KEY: u16 = 12;
pub const T_DENY: u16 = 13;
pub const T_AUTH: u16 = 14;

pub const PROTO_V4: u16 = 0;
pub const PROTO_V5: u16 = 0x8001;
pub const ALG_256: u16 = 15;
pub const ALG_512: u16 = 17;

/// one record: 16-bit type word (critical bit included), 16-bit body length, body
pub fn rec(ty_word: u16, body: &[u8]) -> Vec<u8> {
    let mut v = Vec::with_capacity(4 + body.len());
    v.extend_from_slice(&ty_word.to_be_bytes());
    v.extend_from_slice(&(body.len() as u16).to_be_bytes());
    v.extend_from_slice(body);
    v
}

pub fn u16s(ids: &[u16]) -> Vec<u8> {
    ids.iter().flat_map(|v| v.to_be_bytes()).collect()
}

/// A raw record as found on the wire.
#[derive(Debug, Clone, PartialEq, Eq)]
pub struct RawRec {
    pub ty: u16,
    pub critical: bool,
    pub body: Vec<u8>,
}

/// Split a byte stream into raw records up to and including the first end-of-message record.
/// Returns (records, bytes used) or None when the stream is truncated / has no end of message.
pub fn split_message(mut data: &[u8]) -> Option<(Vec<RawRec>, usize)> {
    let mut out = Vec::new();
    let mut used = 0;
    loop {
        if data.len() < 4 {
            return None;
        }
        let tw = u16::from_be_bytes([data[0], data[1]]);
        let len = u16::from_be_bytes([data[2], data[3]]) as usize;
        if data.len() < 4 + len {
            return None;
        }
        let r = RawRec {
            ty: tw & 0x7fff,
            critical: tw & CRIT != 0,
            body: data[4..4 + len].to_vec(),
        };
        used += 4 + len;
        data = &data[4 + len..];
        let eom = r.ty == T_EOM;
        out.push(r);
        if eom {
            return Some((out, used));
        }
    }
}

// ---------------------------------------------------------------------------
// counting reader + immediate polling

/// Always-ready reader over a byte slice that hands out at most `chunk` bytes per poll
/// (0 = unlimited) and counts how many bytes were handed out.
pub struct CountingReader<'a> {
    pub data: &'a [u8],
    pub pos: usize,
    pub chunk: usize,
    pub polls: usize,
}

impl<'a> CountingReader<'a> {
    pub fn new(data: &'a [u8], chunk: usize) -> Self {
        CountingReader {
            data,
            pos: 0,
            chunk,
            polls: 0,
        }
    }
}

impl AsyncRead for CountingReader<'_> {
    fn poll_read(
        mut self: Pin<&mut Self>,
        _cx: &mut Context<'_>,
        buf: &mut ReadBuf<'_>,
    ) -> Poll<std::io::Result<()>> {
        self.polls += 1;
        let mut n = buf.remaining().min(self.data.len() - self.pos);
        if self.chunk != 0 {
            n = n.min(self.chunk);
        }
        let pos = self.pos;
        buf.put_slice(&self.data[pos..pos + n]);
        self.pos += n;
        Poll::Ready(Ok(()))
    }
}

/// Poll a future exactly once with a no-op waker. `None` = it returned Pending (with an
/// always-ready reader/writer that means the future stalled).
pub fn poll_now<F: Future>(f: F) -> Option<F::Output> {
    match pin!(f).poll(&mut Context::from_waker(Waker::noop())) {
        Poll::Ready(v) => Some(v),
        Poll::Pending => None,
    }
}

// ---------------------------------------------------------------------------
// views (plain data projections, public fields only)

pub use ntp_proto::verif_hook::nts::{ReqView, RespView, cookie_algorithm, req_view, resp_view};

/// stable class name of an `NtsError` (no payload values)
pub fn err_class(e: &NtsError) -> &'static str {
    match e {
        NtsError::IO(e) => match e.kind() {
            std::io::ErrorKind::UnexpectedEof => "err-io-eof",
            std::io::ErrorKind::InvalidData => "err-io-invalid-data",
            _ => "err-io-other",
        },
        NtsError::Tls(_) => "err-tls",
        NtsError::Dns(_) => "err-dns",
        NtsError::UnrecognizedCriticalRecord => "err-unrecognized-critical",
        NtsError::Invalid => "err-invalid",
        NtsError::NoCookie => "err-no-cookie",
        NtsError::NoOverlappingProtocol => "err-no-overlap-protocol",
        NtsError::NoOverlappingAlgorithm => "err-no-overlap-algorithm",
        NtsError::UnknownWarning(_) => "err-unknown-warning",
        NtsError::Error(_) => "err-error-record",
        NtsError::AeadNotSupported(_) => "err-aead-not-supported",
        NtsError::IncorrectSizedKey => "err-incorrect-sized-key",
        NtsError::NotPermitted => "err-not-permitted",
    }
}

// ---------------------------------------------------------------------------
// TLS plumbing (in-memory)

pub mod tls {
    use super::*;
    use ntp_proto::tls_utils::{
        self, Certificate, ClientConfig, PrivateKey, RootCertStore, ServerConfig, ServerName, TLS13,
    };
    use tokio::io::DuplexStream;
    use tokio_rustls::{TlsAcceptor, TlsConnector};

    pub const TESTCA_PEM: &[u8] = include_bytes!("/repo/ntp-proto/test-keys/testca.pem");
    pub const CHAIN_PEM: &[u8] = include_bytes!("/repo/ntp-proto/test-keys/end.fullchain.pem");
    pub const KEY_PEM: &[u8] = include_bytes!("/repo/ntp-proto/test-keys/end.key");

    pub const EXPORTER_LABEL: &[u8] = b"EXPORTER-network-time-security";

    pub fn ca_certs() -> Vec<Certificate> {
        tls_utils::pemfile::certs(&mut &TESTCA_PEM[..])
            .collect::<Result<Vec<_>, _>>()
            .expect("testca.pem")
    }
    pub fn server_chain() -> Vec<Certificate> {
        tls_utils::pemfile::certs(&mut &CHAIN_PEM[..])
            .collect::<Result<Vec<_>, _>>()
            .expect("end.fullchain.pem")
    }
    pub fn server_key() -> PrivateKey {
        tls_utils::pemfile::private_key(&mut &KEY_PEM[..]).expect("end.key")
    }

    thread_local! {
        static CONNECTOR: TlsConnector = {
            let mut roots = RootCertStore::empty();
            for c in ca_certs() {
                roots.add(c).expect("root");
            }
            let mut cfg: ClientConfig = tls_utils::client_config_builder_with_protocol_versions(&[&TLS13])
                .with_root_certificates(roots)
                .with_no_client_auth();
            cfg.alpn_protocols = vec![b"ntske/1".to_vec()];
            TlsConnector::from(Arc::new(cfg))
        };
        static ACCEPTOR: TlsAcceptor = {
            let mut cfg: ServerConfig = tls_utils::server_config_builder_with_protocol_versions(&[&TLS13])
                .with_no_client_auth()
                .with_single_cert(server_chain(), server_key())
                .expect("server cert");
            cfg.alpn_protocols = vec![b"ntske/1".to_vec()];
            TlsAcceptor::from(Arc::new(cfg))
        };
    }

    /// end-entity certificate issued by the repo's test CA for the harness (committed under harness/vlib/certs):
    /// valid for localhost and k0..k3.nts.verif.test, so that SRV targets with different names can be served
    pub const MULTI_CHAIN_PEM: &[u8] = include_bytes!("../certs/srv_end.fullchain.pem");
    pub const MULTI_KEY_PEM: &[u8] = include_bytes!("../certs/srv_end.key");
    thread_local! {
        static ACCEPTOR_MULTI: TlsAcceptor = {
            let chain = tls_utils::pemfile::certs(&mut &MULTI_CHAIN_PEM[..]).collect::<Result<Vec<_>, _>>().expect("srv_end.fullchain.pem");
            let key = tls_utils::pemfile::private_key(&mut &MULTI_KEY_PEM[..]).expect("srv_end.key");
            let mut cfg: ServerConfig = tls_utils::server_config_builder_with_protocol_versions(&[&TLS13])
                .with_no_client_auth()
                .with_single_cert(chain, key)
                .expect("server cert");
            cfg.alpn_protocols = vec![b"ntske/1".to_vec()];
            TlsAcceptor::from(Arc::new(cfg))
        };
    }
    pub fn acceptor_multi() -> TlsAcceptor {
        ACCEPTOR_MULTI.with(|c| c.clone())
    }

    /// harness-side raw TLS client (plain webpki verification against the repo's test CA)
    pub fn connector() -> TlsConnector {
        CONNECTOR.with(|c| c.clone())
    }
    /// harness-side raw TLS server (the repo's test end-entity certificate)
    pub fn acceptor() -> TlsAcceptor {
        ACCEPTOR.with(|c| c.clone())
    }
    pub fn localhost() -> ServerName<'static> {
        ServerName::try_from("localhost").expect("name")
    }
    pub fn duplex() -> (DuplexStream, DuplexStream) {
        tokio::io::duplex(1 << 16)
    }

    /// RFC 8915 §5.1 exporter context: protocol id, algorithm id, 0 = C2S / 1 = S2C
    pub fn context(protocol: u16, algorithm: u16, s2c: bool) -> [u8; 5] {
        let p = protocol.to_be_bytes();
        let a = algorithm.to_be_bytes();
        [p[0], p[1], a[0], a[1], s2c as u8]
    }

    /// key length (bytes) for the AEAD algorithms of RFC 8915 / RFC 5297
    pub fn key_len(algorithm: u16) -> Option<usize> {
        match algorithm {
            ALG_256 => Some(32),
            ALG_512 => Some(64),
            _ => None,
        }
    }

    /// export (c2s, s2c) from the harness end of the TLS session
    pub fn export<D>(
        conn: &tls_utils::ConnectionCommon<D>,
        protocol: u16,
        algorithm: u16,
    ) -> Option<(Vec<u8>, Vec<u8>)> {
        let n = key_len(algorithm)?;
        let c2s = conn
            .export_keying_material(vec![0u8; n], EXPORTER_LABEL, Some(&context(protocol, algorithm, false)))
            .ok()?;
        let s2c = conn
            .export_keying_material(vec![0u8; n], EXPORTER_LABEL, Some(&context(protocol, algorithm, true)))
            .ok()?;
        Some((c2s, s2c))
    }
}

// ---------------------------------------------------------------------------
// reading the messages the code under test sends (harness side of a connection)

#[derive(Debug)]
pub enum ReadMsg {
    /// a complete message (records up to and including end-of-message)
    Message(Vec<RawRec>),
    /// the peer closed the stream (cleanly or not) before a complete message arrived;
    /// `partial` = some bytes of a message had already been received
    Closed { partial: bool },
    /// nothing (more) arrived although the peer keeps the stream open
    Timeout { partial: bool },
}

/// Read one NTS-KE message with the reference framing. Needs a paused-clock runtime: the
/// timeout only fires when every task is idle (virtual time), never because of wall-clock time.
pub async fn read_message<R: AsyncRead + Unpin>(io: &mut R) -> ReadMsg {
    use tokio::io::AsyncReadExt;
    let mut recs = Vec::new();
    let mut partial = false;
    let fut = async {
        loop {
            let mut hdr = [0u8; 4];
            let mut got = 0;
            while got < 4 {
                match io.read(&mut hdr[got..]).await {
                    Ok(0) | Err(_) => return ReadMsg::Closed { partial: partial || got > 0 },
                    Ok(n) => {
                        got += n;
                        partial = true;
                    }
                }
            }
            let tw = u16::from_be_bytes([hdr[0], hdr[1]]);
            let len = u16::from_be_bytes([hdr[2], hdr[3]]) as usize;
            let mut body = vec![0u8; len];
            let mut got = 0;
            while got < len {
                match io.read(&mut body[got..]).await {
                    Ok(0) | Err(_) => return ReadMsg::Closed { partial: true },
                    Ok(n) => got += n,
                }
            }
            let r = RawRec {
                ty: tw & 0x7fff,
                critical: tw & CRIT != 0,
                body,
            };
            let eom = r.ty == T_EOM;
            recs.push(r);
            if eom {
                return ReadMsg::Message(std::mem::take(&mut recs));
            }
            if recs.len() > 4096 {
                return ReadMsg::Closed { partial: true };
            }
        }
    };
    let r = tokio::time::timeout(std::time::Duration::from_secs(30), fut).await;
    match r {
        Ok(r) => r,
        Err(_) => ReadMsg::Timeout { partial },
    }
}

/// What a message contains, by record type (reference decoding of the bodies).
#[derive(Debug, Default, Clone, PartialEq, Eq)]
pub struct Summary {
    pub errors: Vec<u16>,
    pub warnings: Vec<u16>,
    pub cookies: Vec<Vec<u8>>,
    /// one entry per next-protocol record
    pub next_protocols: Vec<Vec<u16>>,
    /// one entry per AEAD record
    pub aead: Vec<Vec<u16>>,
    pub supported_protocols: Vec<Vec<u16>>,
    pub supported_algorithms: Vec<Vec<(u16, u16)>>,
    pub denied: Vec<Vec<u8>>,
    pub keep_alive: bool,
    pub server: Option<Vec<u8>>,
    pub port: Option<u16>,
    pub other: usize,
    /// a known record had a body of impossible length
    pub malformed: bool,
}

fn be16s(b: &[u8], malformed: &mut bool) -> Vec<u16> {
    if b.len() % 2 != 0 {
        *malformed = true;
    }
    b.chunks_exact(2).map(|c| u16::from_be_bytes([c[0], c[1]])).collect()
}

pub fn summarize(recs: &[RawRec]) -> Summary {
    let mut s = Summary::default();
    for r in recs {
        let mut bad = false;
        match r.ty {
            T_EOM => {}
            T_NEXT_PROTO => s.next_protocols.push(be16s(&r.body, &mut bad)),
            T_ERROR => s.errors.extend(be16s(&r.body, &mut bad)),
            T_WARNING => s.warnings.extend(be16s(&r.body, &mut bad)),
            T_AEAD => s.aead.push(be16s(&r.body, &mut bad)),
            T_COOKIE => s.cookies.push(r.body.clone()),
            T_SERVER => s.server = Some(r.body.clone()),
            T_PORT => {
                let v = be16s(&r.body, &mut bad);
                if v.len() == 1 {
                    s.port = Some(v[0]);
                } else {
                    bad = true;
                }
            }
            T_KEEP_ALIVE => s.keep_alive = true,
            T_SUPP_PROTO => s.supported_protocols.push(be16s(&r.body, &mut bad)),
            T_SUPP_ALG => {
                let v = be16s(&r.body, &mut bad);
                if v.len() % 2 != 0 {
                    bad = true;
                }
                s.supported_algorithms.push(v.chunks_exact(2).map(|c| (c[0], c[1])).collect());
            }
            T_DENY => s.denied.push(r.body.clone()),
            _ => s.other += 1,
        }
        s.malformed |= bad;
    }
    s
}
