//! shared value generators (all randomness comes from proptest strategies)
use proptest::prelude::*;

pub fn i64_interesting() -> BoxedStrategy<i64> {
    prop_oneof![
        3 => prop::sample::select(vec![
            0i64, 1, -1, 2, -2, i64::MIN, i64::MAX, i64::MIN + 1, i64::MAX - 1,
            1 << 31, -(1 << 31), 1 << 32, -(1 << 32), (1 << 32) - 1, (1 << 32) + 1,
            1 << 48, (1 << 48) - 1, (1 << 36) - 1, 1 << 36, 1 << 62, -(1 << 62),
            (1i64 << 63 - 1), 0xFFFF, 0x10000, 0xFFFF_FFFF_0000,
        ]),
        3 => any::<i64>(),
        2 => -100_000i64..100_000,
        2 => (0u32..63, any::<bool>(), -3i64..=3).prop_map(|(s, n, d)| {
            let v = (1i64 << s).wrapping_add(d);
            if n { v.wrapping_neg() } else { v }
        }),
        1 => (any::<i32>(), any::<u32>()).prop_map(|(s, f)| ((s as i64) << 32) | f as i64),
        // sub-second and few-second values of either sign (fraction handling)
        2 => (-4i64..4, any::<u32>()).prop_map(|(s, f)| (s << 32) | f as i64),
    ]
    .boxed()
}

pub fn u64_interesting() -> BoxedStrategy<u64> {
    prop_oneof![
        3 => prop::sample::select(vec![
            0u64, 1, 2, u64::MAX, u64::MAX - 1, 1 << 63, (1 << 63) - 1, (1 << 63) + 1,
            1 << 32, (1 << 32) - 1, 1 << 31,
        ]),
        3 => any::<u64>(),
        2 => (0u32..64, -3i64..=3).prop_map(|(s, d)| (1u64 << s).wrapping_add(d as u64)),
        1 => (any::<u64>(), -1000i64..1000).prop_map(|(a, d)| a.wrapping_add(d as u64)),
    ]
    .boxed()
}

pub fn i128_interesting() -> BoxedStrategy<i128> {
    prop_oneof![
        3 => prop::sample::select(vec![
            0i128, 1, -1, i128::MIN, i128::MAX, i128::MIN + 1, i128::MAX - 1, 1 << 64, -(1 << 64),
            1 << 126, -(1 << 126), (1 << 64) - 1, 1 << 127 - 1,
        ]),
        3 => any::<i128>(),
        2 => -100_000i128..100_000,
        2 => (0u32..127, any::<bool>(), -3i128..=3).prop_map(|(s, n, d)| {
            let v = (1i128 << s).wrapping_add(d);
            if n { v.wrapping_neg() } else { v }
        }),
        1 => (any::<i64>(), any::<u64>()).prop_map(|(s, f)| ((s as i128) << 64) | f as i128),
    ]
    .boxed()
}

pub fn u128_interesting() -> BoxedStrategy<u128> {
    prop_oneof![
        3 => prop::sample::select(vec![
            0u128, 1, u128::MAX, u128::MAX - 1, 1 << 127, (1 << 127) - 1, (1 << 127) + 1, 1 << 64,
        ]),
        3 => any::<u128>(),
        2 => (0u32..128, -3i128..=3).prop_map(|(s, d)| (1u128 << s).wrapping_add(d as u128)),
    ]
    .boxed()
}

/// finite f64 with emphasis on magnitudes relevant for seconds
pub fn f64_finite() -> BoxedStrategy<f64> {
    prop_oneof![
        2 => prop::sample::select(vec![
            0.0f64, -0.0, 1.0, -1.0, 0.5, -0.5, 2147483647.0, 2147483648.0, -2147483648.0,
            -2147483649.0, 2147483647.9999995, -2147483648.0000005, 3e9, -3e9, 1e300, -1e300,
            f64::MAX, f64::MIN, f64::MIN_POSITIVE, -f64::MIN_POSITIVE, 5e-324, -5e-324,
            1e-12, -1e-12, 0.9999999999999999, -0.9999999999999999, 4294967296.0,
        ]),
        3 => any::<u64>().prop_map(f64::from_bits).prop_filter("finite", |v| v.is_finite()),
        3 => -4e9f64..4e9,
        2 => -10.0f64..10.0,
        1 => (-2147483650i64..2147483650, -1e-6f64..1e-6).prop_map(|(i, e)| i as f64 + e),
    ]
    .boxed()
}
