//! Independent reference wire codec for NTPv3/4/5 packets, RFC 7822 extension
//! fields and the NTS authenticator (AEAD_AES_SIV_CMAC_256/512 through the
//! `aes-siv` crate directly, NOT through ntp-proto's wrappers).
//!
//! Used to build stimuli (requests, responses) and to decode what the code
//! under test emits. Nothing here calls into ntp-proto.

use aes_siv::KeyInit;
use aes_siv::siv::{Aes128Siv, Aes256Siv};
use serde::{Deserialize, Serialize};

pub const EF_UID: u16 = 0x0104;
pub const EF_COOKIE: u16 = 0x0204;
pub const EF_PLACEHOLDER: u16 = 0x0304;
pub const EF_AUTH: u16 = 0x0404;
pub const EF_DRAFT_ID: u16 = 0xF5FF;
pub const EF_PADDING: u16 = 0xF501;
pub const EF_REFID_REQ: u16 = 0xF503;
pub const EF_REFID_RESP: u16 = 0xF504;
pub const DRAFT_VERSION: &str = "draft-ietf-ntp-ntpv5-09";
pub const UPGRADE_TS: u64 = u64::from_be_bytes(*b"NTP5DRFT");

pub const KISS_DENY: u32 = u32::from_be_bytes(*b"DENY");
pub const KISS_RATE: u32 = u32::from_be_bytes(*b"RATE");
pub const KISS_RSTR: u32 = u32::from_be_bytes(*b"RSTR");
pub const KISS_NTSN: u32 = u32::from_be_bytes(*b"NTSN");

/// NTPv3/v4 header (48 bytes)
#[derive(Debug, Clone, Copy, PartialEq, Eq, Serialize, Deserialize, Default)]
pub struct Hdr4 {
    pub li: u8,
    pub vn: u8,
    pub mode: u8,
    pub stratum: u8,
    pub poll: u8,
    pub precision: u8,
    pub root_delay: u32,
    pub root_disp: u32,
    pub refid: u32,
    pub ref_ts: u64,
    pub org: u64,
    pub rx: u64,
    pub tx: u64,
}

impl Hdr4 {
    pub fn encode(&self) -> [u8; 48] {
        let mut b = [0u8; 48];
        b[0] = ((self.li & 3) << 6) | ((self.vn & 7) << 3) | (self.mode & 7);
        b[1] = self.stratum;
        b[2] = self.poll;
        b[3] = self.precision;
        b[4..8].copy_from_slice(&self.root_delay.to_be_bytes());
        b[8..12].copy_from_slice(&self.root_disp.to_be_bytes());
        b[12..16].copy_from_slice(&self.refid.to_be_bytes());
        b[16..24].copy_from_slice(&self.ref_ts.to_be_bytes());
        b[24..32].copy_from_slice(&self.org.to_be_bytes());
        b[32..40].copy_from_slice(&self.rx.to_be_bytes());
        b[40..48].copy_from_slice(&self.tx.to_be_bytes());
        b
    }
    pub fn decode(b: &[u8]) -> Option<Hdr4> {
        if b.len() < 48 {
            return None;
        }
        let u32at = |i: usize| u32::from_be_bytes(b[i..i + 4].try_into().unwrap());
        let u64at = |i: usize| u64::from_be_bytes(b[i..i + 8].try_into().unwrap());
        Some(Hdr4 {
            li: b[0] >> 6,
            vn: (b[0] >> 3) & 7,
            mode: b[0] & 7,
            stratum: b[1],
            poll: b[2],
            precision: b[3],
            root_delay: u32at(4),
            root_disp: u32at(8),
            refid: u32at(12),
            ref_ts: u64at(16),
            org: u64at(24),
            rx: u64at(32),
            tx: u64at(40),
        })
    }
}

/// NTPv5 header (draft-ietf-ntp-ntpv5, 48 bytes)
#[derive(Debug, Clone, Copy, PartialEq, Eq, Serialize, Deserialize, Default)]
pub struct Hdr5 {
    pub li: u8,
    pub mode: u8,
    pub stratum: u8,
    pub poll: u8,
    pub precision: u8,
    pub root_delay: u32,
    pub root_disp: u32,
    pub timescale: u8,
    pub era: u8,
    pub flags: u16,
    pub server_cookie: u64,
    pub client_cookie: u64,
    pub rx: u64,
    pub tx: u64,
}

pub const V5_FLAG_SYNC: u16 = 1;
pub const V5_FLAG_INTERLEAVED: u16 = 2;
pub const V5_FLAG_AUTHNAK: u16 = 4;

impl Hdr5 {
    pub fn encode(&self) -> [u8; 48] {
        let mut b = [0u8; 48];
        b[0] = ((self.li & 3) << 6) | (5 << 3) | (self.mode & 7);
        b[1] = self.stratum;
        b[2] = self.poll;
        b[3] = self.precision;
        b[4..8].copy_from_slice(&self.root_delay.to_be_bytes());
        b[8..12].copy_from_slice(&self.root_disp.to_be_bytes());
        b[12] = self.timescale;
        b[13] = self.era;
        b[14..16].copy_from_slice(&self.flags.to_be_bytes());
        b[16..24].copy_from_slice(&self.server_cookie.to_be_bytes());
        b[24..32].copy_from_slice(&self.client_cookie.to_be_bytes());
        b[32..40].copy_from_slice(&self.rx.to_be_bytes());
        b[40..48].copy_from_slice(&self.tx.to_be_bytes());
        b
    }
    pub fn decode(b: &[u8]) -> Option<Hdr5> {
        if b.len() < 48 || (b[0] >> 3) & 7 != 5 {
            return None;
        }
        let u32at = |i: usize| u32::from_be_bytes(b[i..i + 4].try_into().unwrap());
        let u64at = |i: usize| u64::from_be_bytes(b[i..i + 8].try_into().unwrap());
        Some(Hdr5 {
            li: b[0] >> 6,
            mode: b[0] & 7,
            stratum: b[1],
            poll: b[2],
            precision: b[3],
            root_delay: u32at(4),
            root_disp: u32at(8),
            timescale: b[12],
            era: b[13],
            flags: u16::from_be_bytes([b[14], b[15]]),
            server_cookie: u64at(16),
            client_cookie: u64at(24),
            rx: u64at(32),
            tx: u64at(40),
        })
    }
}

#[derive(Debug, Clone, Copy, PartialEq, Eq, Serialize, Deserialize)]
pub enum Hdr {
    V34(Hdr4),
    V5(Hdr5),
}

impl Hdr {
    pub fn encode(&self) -> [u8; 48] {
        match self {
            Hdr::V34(h) => h.encode(),
            Hdr::V5(h) => h.encode(),
        }
    }
    pub fn version(&self) -> u8 {
        match self {
            Hdr::V34(h) => h.vn,
            Hdr::V5(_) => 5,
        }
    }
    pub fn mode(&self) -> u8 {
        match self {
            Hdr::V34(h) => h.mode,
            Hdr::V5(h) => h.mode,
        }
    }
    pub fn stratum(&self) -> u8 {
        match self {
            Hdr::V34(h) => h.stratum,
            Hdr::V5(h) => h.stratum,
        }
    }
    pub fn poll(&self) -> u8 {
        match self {
            Hdr::V34(h) => h.poll,
            Hdr::V5(h) => h.poll,
        }
    }
    pub fn li(&self) -> u8 {
        match self {
            Hdr::V34(h) => h.li,
            Hdr::V5(h) => h.li,
        }
    }
    pub fn rx(&self) -> u64 {
        match self {
            Hdr::V34(h) => h.rx,
            Hdr::V5(h) => h.rx,
        }
    }
    pub fn tx(&self) -> u64 {
        match self {
            Hdr::V34(h) => h.tx,
            Hdr::V5(h) => h.tx,
        }
    }
    /// v3/v4: origin timestamp; v5: client cookie
    pub fn echo(&self) -> u64 {
        match self {
            Hdr::V34(h) => h.org,
            Hdr::V5(h) => h.client_cookie,
        }
    }
}

/// A raw extension field: type, declared length (header included) and body bytes
/// as they appear on the wire after the 4-byte header, up to the padded end.
#[derive(Debug, Clone, PartialEq, Eq, Serialize, Deserialize)]
pub struct RawEf {
    pub ty: u16,
    pub declared_len: u16,
    /// bytes after the header, INCLUDING padding up to the 4-byte boundary
    pub body: Vec<u8>,
}

impl RawEf {
    /// value bytes without trailing pad-to-4 (v5 semantics: declared_len - 4 bytes)
    pub fn value(&self) -> &[u8] {
        let n = (self.declared_len as usize).saturating_sub(4).min(self.body.len());
        &self.body[..n]
    }
    pub fn wire_len(&self) -> usize {
        4 + self.body.len()
    }
    pub fn encode(&self, out: &mut Vec<u8>) {
        out.extend_from_slice(&self.ty.to_be_bytes());
        out.extend_from_slice(&self.declared_len.to_be_bytes());
        out.extend_from_slice(&self.body);
    }
    /// canonical EF: declared length = 4 + value length (v5 style, padded to 4 with zeros)
    pub fn v5(ty: u16, value: &[u8]) -> RawEf {
        let mut body = value.to_vec();
        while body.len() % 4 != 0 {
            body.push(0);
        }
        RawEf { ty, declared_len: (4 + value.len()) as u16, body }
    }
    /// canonical v4 EF: value zero-padded so that the total length is a multiple of 4 and at least `min_total`
    pub fn v4(ty: u16, value: &[u8], min_total: usize) -> RawEf {
        let mut body = value.to_vec();
        while (body.len() + 4) % 4 != 0 || body.len() + 4 < min_total {
            body.push(0);
        }
        RawEf { ty, declared_len: (4 + body.len()) as u16, body }
    }
}

/// Walk extension fields in `data` (bytes after the 48-byte header).
/// v4: stops when `remaining <= 24` (MAC trailer). v5: consumes everything.
/// Returns (fields with their offsets relative to `data`, offset of the first unconsumed byte)
/// or None if the chain is malformed.
pub fn walk_efs(data: &[u8], v5: bool) -> Option<(Vec<(usize, RawEf)>, usize)> {
    let mut off = 0usize;
    let mut out = Vec::new();
    let cutoff = if v5 { 0 } else { 24 };
    loop {
        let rem = &data[off..];
        if rem.len() <= cutoff {
            break;
        }
        if rem.len() < 4 {
            return None;
        }
        let ty = u16::from_be_bytes([rem[0], rem[1]]);
        let len = u16::from_be_bytes([rem[2], rem[3]]) as usize;
        if len < 4 {
            return None;
        }
        if !v5 && len % 4 != 0 {
            return None;
        }
        let padded = len.div_ceil(4) * 4;
        if rem.len() < padded {
            return None;
        }
        out.push((off, RawEf { ty, declared_len: len as u16, body: rem[4..padded].to_vec() }));
        off += padded;
    }
    Some((out, off))
}

// ---------------------------------------------------------------------------
// AEAD

#[derive(Debug, Clone, PartialEq, Eq, Serialize, Deserialize)]
pub struct AeadKey(pub Vec<u8>); // 32 bytes = AES-SIV-CMAC-256, 64 bytes = AES-SIV-CMAC-512

impl AeadKey {
    pub fn is512(&self) -> bool {
        self.0.len() == 64
    }
    /// returns tag||ciphertext (SIV output), aad = [associated_data, nonce]
    pub fn seal(&self, nonce: &[u8], aad: &[u8], plaintext: &[u8]) -> Vec<u8> {
        match self.0.len() {
            32 => {
                let mut c = Aes128Siv::new_from_slice(&self.0).unwrap();
                c.encrypt([aad, nonce], plaintext).unwrap()
            }
            64 => {
                let mut c = Aes256Siv::new_from_slice(&self.0).unwrap();
                c.encrypt([aad, nonce], plaintext).unwrap()
            }
            n => panic!("refwire: bad key length {n}"),
        }
    }
    pub fn open(&self, nonce: &[u8], aad: &[u8], ciphertext: &[u8]) -> Option<Vec<u8>> {
        match self.0.len() {
            32 => {
                let mut c = Aes128Siv::new_from_slice(&self.0).unwrap();
                c.decrypt([aad, nonce], ciphertext).ok()
            }
            64 => {
                let mut c = Aes256Siv::new_from_slice(&self.0).unwrap();
                c.decrypt([aad, nonce], ciphertext).ok()
            }
            _ => None,
        }
    }
}

/// Build the NTS authenticator EF (type 0x404). `aad` = all packet bytes before it.
/// Layout: type, len, nonce_len, ct_len, nonce (padded to 4), ciphertext (padded to 4), extra padding.
pub fn build_auth_ef(
    key: &AeadKey,
    nonce: &[u8],
    aad: &[u8],
    inner_plaintext: &[u8],
    extra_padding: usize,
) -> Vec<u8> {
    let ct = key.seal(nonce, aad, inner_plaintext);
    let mut body = Vec::new();
    body.extend_from_slice(&(nonce.len() as u16).to_be_bytes());
    body.extend_from_slice(&(ct.len() as u16).to_be_bytes());
    body.extend_from_slice(nonce);
    while body.len() % 4 != 0 {
        body.push(0);
    }
    body.extend_from_slice(&ct);
    while body.len() % 4 != 0 {
        body.push(0);
    }
    body.extend(std::iter::repeat(0).take(extra_padding * 4));
    let mut out = Vec::new();
    out.extend_from_slice(&EF_AUTH.to_be_bytes());
    out.extend_from_slice(&((4 + body.len()) as u16).to_be_bytes());
    out.extend_from_slice(&body);
    out
}

/// byte regions of an authenticator EF built by `build_auth_ef` (offsets relative to its start)
#[derive(Debug, Clone, Copy, PartialEq, Eq)]
pub struct AuthRegions {
    pub nonce: (usize, usize),
    pub ciphertext: (usize, usize),
    pub total: usize,
}
pub fn auth_regions(nonce_len: usize, ct_len: usize, extra_padding: usize) -> AuthRegions {
    let n0 = 8;
    let n1 = n0 + nonce_len;
    let c0 = 8 + nonce_len.div_ceil(4) * 4;
    let c1 = c0 + ct_len;
    let total = c0 + ct_len.div_ceil(4) * 4 + extra_padding * 4;
    AuthRegions { nonce: (n0, n1), ciphertext: (c0, c1), total }
}

/// A decoded packet (reference view)
#[derive(Debug, Clone, PartialEq, Eq)]
pub struct RefPacket {
    pub hdr: Hdr,
    /// fields before the authenticator (or all fields when there is none)
    pub plain: Vec<RawEf>,
    /// offset of the authenticator EF in the packet, if present
    pub auth_offset: Option<usize>,
    /// nonce length declared inside the authenticator
    pub auth_nonce_len: Option<usize>,
    /// decrypted inner fields (only if a key was given and authentication succeeded)
    pub encrypted: Option<Vec<RawEf>>,
    /// whether an authenticator was present and verified
    pub authenticated: bool,
    /// fields after the authenticator
    pub after: Vec<RawEf>,
    /// trailing bytes (MAC) after the EF chain
    pub trailer: Vec<u8>,
}

/// Decode a packet with the reference codec. `key`: key to try on the authenticator.
pub fn decode_packet(data: &[u8], key: Option<&AeadKey>) -> Option<RefPacket> {
    if data.len() < 48 {
        return None;
    }
    let vn = (data[0] >> 3) & 7;
    let hdr = match vn {
        3 | 4 => Hdr::V34(Hdr4::decode(data)?),
        5 => Hdr::V5(Hdr5::decode(data)?),
        _ => return None,
    };
    if vn == 3 {
        return Some(RefPacket {
            hdr,
            plain: vec![],
            auth_offset: None,
            auth_nonce_len: None,
            encrypted: None,
            authenticated: false,
            after: vec![],
            trailer: data[48..].to_vec(),
        });
    }
    let (efs, end) = walk_efs(&data[48..], vn == 5)?;
    let mut plain = Vec::new();
    let mut after = Vec::new();
    let mut auth_offset = None;
    let mut auth_nonce_len = None;
    let mut encrypted = None;
    let mut authenticated = false;
    for (off, ef) in efs {
        if ef.ty == EF_AUTH && auth_offset.is_none() {
            auth_offset = Some(48 + off);
            if ef.value().len() >= 2 {
                auth_nonce_len = Some(u16::from_be_bytes([ef.value()[0], ef.value()[1]]) as usize);
            }
            if let Some(key) = key {
                let v = ef.value();
                if v.len() >= 4 {
                    let nl = u16::from_be_bytes([v[0], v[1]]) as usize;
                    let cl = u16::from_be_bytes([v[2], v[3]]) as usize;
                    let c0 = 4 + nl.div_ceil(4) * 4;
                    if v.len() >= 4 + nl && v.len() >= c0 + cl {
                        let nonce = &v[4..4 + nl];
                        let ct = &v[c0..c0 + cl];
                        if let Some(pt) = key.open(nonce, &data[..48 + off], ct) {
                            authenticated = true;
                            encrypted = Some(
                                walk_efs_inner(&pt, vn == 5).unwrap_or_default(),
                            );
                        }
                    }
                }
            }
        } else if auth_offset.is_some() {
            after.push(ef);
        } else {
            plain.push(ef);
        }
    }
    Some(RefPacket {
        hdr,
        plain,
        auth_offset,
        auth_nonce_len,
        encrypted,
        authenticated,
        after,
        trailer: data[48 + end..].to_vec(),
    })
}

/// inner (encrypted) EF chain: no MAC cutoff
fn walk_efs_inner(data: &[u8], v5: bool) -> Option<Vec<RawEf>> {
    let mut off = 0usize;
    let mut out = Vec::new();
    while off < data.len() {
        let rem = &data[off..];
        if rem.len() < 4 {
            return None;
        }
        let ty = u16::from_be_bytes([rem[0], rem[1]]);
        let len = u16::from_be_bytes([rem[2], rem[3]]) as usize;
        if len < 4 || (!v5 && len % 4 != 0) {
            return None;
        }
        let padded = len.div_ceil(4) * 4;
        if rem.len() < padded {
            return None;
        }
        out.push(RawEf { ty, declared_len: len as u16, body: rem[4..padded].to_vec() });
        off += padded;
    }
    Some(out)
}

pub fn encode_efs(efs: &[RawEf]) -> Vec<u8> {
    let mut out = Vec::new();
    for e in efs {
        e.encode(&mut out);
    }
    out
}

/// sliding window search
pub fn contains_bytes(hay: &[u8], needle: &[u8]) -> bool {
    !needle.is_empty() && hay.len() >= needle.len() && hay.windows(needle.len()).any(|w| w == needle)
}
