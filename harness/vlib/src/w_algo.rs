//! Shared helpers for C42/C43: decimal floats that survive JSON exactly, a recording mock clock.
use proptest::prelude::*;
use serde::{Deserialize, Serialize};
use statime_base::{Clock, ClockError, Duration, LeapStatus, TAI, Timestamp};
use std::sync::{Arc, Mutex};

/// m · 10^e, exactly reproducible from JSON (serde_json float parsing is not guaranteed round-trip exact)
#[derive(Debug, Clone, Copy, Serialize, Deserialize, PartialEq, Eq)]
pub struct Sci {
    pub m: i32,
    pub e: i8,
}
impl Sci {
    pub fn f(self) -> f64 {
        self.m as f64 * 10f64.powi(self.e as i32)
    }
}

/// positive magnitude spread over `10^lo ..= 10^hi` (mantissa 1..=9999)
pub fn sci_pos(lo: i8, hi: i8) -> BoxedStrategy<Sci> {
    (1i32..10_000, (lo - 3)..=(hi - 3)).prop_map(|(m, e)| Sci { m, e }).boxed()
}
/// signed, zero included
pub fn sci_signed(lo: i8, hi: i8) -> BoxedStrategy<Sci> {
    prop_oneof![
        1 => Just(Sci { m: 0, e: 0 }),
        8 => (sci_pos(lo, hi), any::<bool>()).prop_map(|(s, n)| Sci { m: if n { -s.m } else { s.m }, e: s.e }),
    ]
    .boxed()
}

#[derive(Debug, Clone, Copy, PartialEq)]
pub enum ClockCall {
    /// (frequency before, frequency requested)
    SetFrequency(f64, f64),
    Step(Duration),
}

#[derive(Debug)]
pub struct ClockInner {
    pub now: Timestamp<TAI>,
    pub freq: f64,
    pub max_freq: f64,
    pub calls: Vec<ClockCall>,
}

/// A well-behaved clock: `step_clock` moves its time, `set_frequency` is remembered, nothing fails.
#[derive(Debug, Clone)]
pub struct RecClock(pub Arc<Mutex<ClockInner>>);

impl RecClock {
    pub fn new(now: Timestamp<TAI>, freq: f64, max_freq: f64) -> Self {
        RecClock(Arc::new(Mutex::new(ClockInner { now, freq, max_freq, calls: Vec::new() })))
    }
    pub fn advance(&self, d: Duration) {
        let mut g = self.0.lock().unwrap();
        g.now = g.now + d;
    }
    pub fn take_calls(&self) -> Vec<ClockCall> {
        std::mem::take(&mut self.0.lock().unwrap().calls)
    }
    pub fn max(&self) -> f64 {
        self.0.lock().unwrap().max_freq
    }
    pub fn time(&self) -> Timestamp<TAI> {
        self.0.lock().unwrap().now
    }
}

impl Clock for RecClock {
    fn now(&self) -> Result<Timestamp<TAI>, ClockError> {
        Ok(self.0.lock().unwrap().now)
    }
    fn set_frequency(&self, freq: f64) -> Result<Timestamp<TAI>, ClockError> {
        let mut g = self.0.lock().unwrap();
        let before = g.freq;
        g.calls.push(ClockCall::SetFrequency(before, freq));
        g.freq = freq;
        Ok(g.now)
    }
    fn get_frequency(&self) -> Result<f64, ClockError> {
        Ok(self.0.lock().unwrap().freq)
    }
    fn max_frequency(&self) -> Result<f64, ClockError> {
        Ok(self.0.lock().unwrap().max_freq)
    }
    fn step_clock(&self, offset: Duration) -> Result<Timestamp<TAI>, ClockError> {
        let mut g = self.0.lock().unwrap();
        g.calls.push(ClockCall::Step(offset));
        g.now = g.now + offset;
        Ok(g.now)
    }
    fn error_estimate_update(&self, _est_error: Duration, _max_error: Duration) -> Result<(), ClockError> {
        Ok(())
    }
    fn leap_update(&self, _leap_status: LeapStatus) -> Result<(), ClockError> {
        Ok(())
    }
    fn synchronization_update(&self, _synchronized: bool) -> Result<(), ClockError> {
        Ok(())
    }
}
