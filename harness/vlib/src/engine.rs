//! Generic property engine: proptest runner + worker processes + evidence.
//!
//! A property is a type implementing [`Property`]: a proptest strategy for its
//! `Case`, an optional explicit enumeration, and a `check` that returns an
//! [`Outcome`]. The engine owns seeding, panic capture, known-finding lookup,
//! classification, distinct-non-trivial counting, shrinking, replay files and
//! the evidence JSON.

use std::cell::RefCell;
use std::collections::{BTreeMap, HashSet};
use std::hash::{Hash, Hasher};
use std::panic::{AssertUnwindSafe, catch_unwind};

use proptest::strategy::{BoxedStrategy, Strategy};
use proptest::test_runner::{Config, RngSeed, TestCaseError, TestError, TestRunner};
use serde::{Deserialize, Serialize, de::DeserializeOwned};

#[derive(Debug, Clone, Copy, PartialEq, Eq, Serialize, Deserialize)]
pub enum Tier {
    Quick,
    Thorough,
}

impl Tier {
    pub fn name(self) -> &'static str {
        match self {
            Tier::Quick => "quick",
            Tier::Thorough => "thorough",
        }
    }
    pub fn pick<T>(self, q: T, t: T) -> T {
        match self {
            Tier::Quick => q,
            Tier::Thorough => t,
        }
    }
}

/// Result of checking one case.
#[derive(Debug, Clone)]
pub struct Outcome {
    /// `None` = property held; `Some` = it failed.
    pub failure: Option<Failure>,
    /// classification labels (for the evidence histogram)
    pub labels: Vec<&'static str>,
    /// non-trivial by the property's stated rule
    pub nontrivial: bool,
}

#[derive(Debug, Clone, Serialize, Deserialize, PartialEq, Eq)]
pub struct Failure {
    /// structural signature of the failing case (looked up in known_findings.json)
    pub signature: String,
    /// human readable description
    pub what: String,
}

impl Outcome {
    pub fn pass(nontrivial: bool) -> Self {
        Outcome {
            failure: None,
            labels: Vec::new(),
            nontrivial,
        }
    }
    pub fn fail(signature: impl Into<String>, what: impl Into<String>) -> Self {
        Outcome {
            failure: Some(Failure {
                signature: signature.into(),
                what: what.into(),
            }),
            labels: Vec::new(),
            nontrivial: true,
        }
    }
    pub fn label(mut self, l: &'static str) -> Self {
        if !self.labels.contains(&l) {
            self.labels.push(l);
        }
        self
    }
    pub fn labels(mut self, ls: impl IntoIterator<Item = &'static str>) -> Self {
        for l in ls {
            if !self.labels.contains(&l) {
                self.labels.push(l);
            }
        }
        self
    }
}

/// Label accumulator usable from inside a check.
#[derive(Default, Debug)]
pub struct Labels(pub Vec<&'static str>);
impl Labels {
    pub fn add(&mut self, l: &'static str) {
        if !self.0.contains(&l) {
            self.0.push(l);
        }
    }
    pub fn add_if(&mut self, c: bool, l: &'static str) {
        if c {
            self.add(l);
        }
    }
}

#[derive(Debug, Clone, Copy, PartialEq, Eq)]
pub enum Level {
    Exploration,
    FaultEnumeration,
}
impl Level {
    pub fn name(self) -> &'static str {
        match self {
            Level::Exploration => "exploration",
            Level::FaultEnumeration => "fault_enumeration",
        }
    }
}

pub trait Property: 'static {
    type Case: std::fmt::Debug + Clone + Serialize + DeserializeOwned + 'static;
    const ID: &'static str;
    const LEVEL: Level = Level::Exploration;
    /// how cases are generated and what makes one non-trivial
    const RULE: &'static str;
    const ASSUMPTIONS: &'static [&'static str] = &[];
    /// number of generated cases (total over all workers)
    const QUICK_CASES: u32;
    const THOROUGH_CASES: u32;
    /// max workers (1 for checks that must not run in parallel, e.g. socket users)
    const MAX_WORKERS: usize = 16;
    const MAX_SHRINK_ITERS: u32 = 2000;
    /// treat a panic escaping `check` as a violation (true for nearly everything:
    /// the shipped profile aborts on panic)
    const PANIC_IS_VIOLATION: bool = true;

    fn strategy(tier: Tier) -> BoxedStrategy<Self::Case>;
    /// explicit cases executed on every run (split round-robin over workers);
    /// the bool says whether this enumeration is a complete finite sub-space
    fn enumerate(_tier: Tier) -> Vec<Self::Case> {
        Vec::new()
    }
    /// free-text description of the enumerated sub-space (evidence)
    fn enumeration_note() -> Option<&'static str> {
        None
    }
    fn check(case: &Self::Case) -> Outcome;
    /// short rendering for evidence samples (default: JSON, truncated)
    fn render(case: &Self::Case) -> serde_json::Value {
        let v = serde_json::to_value(case).unwrap_or(serde_json::Value::Null);
        truncate_json(v, 6000)
    }
    /// decode fuzzer bytes into a case (fuzzable properties only)
    fn from_bytes(_data: &[u8]) -> Option<Self::Case> {
        None
    }
}

pub fn truncate_json(v: serde_json::Value, max: usize) -> serde_json::Value {
    let s = v.to_string();
    if s.len() <= max {
        v
    } else {
        let mut cut = max;
        while !s.is_char_boundary(cut) {
            cut -= 1;
        }
        serde_json::Value::String(format!("{}…(truncated, {} bytes)", &s[..cut], s.len()))
    }
}

// ---------------------------------------------------------------------------
// panic capture

thread_local! {
    static LAST_PANIC: RefCell<Option<String>> = const { RefCell::new(None) };
    static QUIET: RefCell<bool> = const { RefCell::new(false) };
}

pub fn install_panic_hook() {
    let default = std::panic::take_hook();
    std::panic::set_hook(Box::new(move |info| {
        let msg = if let Some(s) = info.payload().downcast_ref::<&str>() {
            (*s).to_string()
        } else if let Some(s) = info.payload().downcast_ref::<String>() {
            s.clone()
        } else {
            "<non-string panic>".to_string()
        };
        let loc = info
            .location()
            .map(|l| format!("{}:{}", l.file(), l.line()))
            .unwrap_or_default();
        let quiet = QUIET.with(|q| *q.borrow());
        LAST_PANIC.with(|p| *p.borrow_mut() = Some(format!("{msg} @ {loc}")));
        if !quiet {
            default(info);
        }
    }));
}

/// make panics on the current thread quiet (for helper threads running a case)
pub fn install_thread_quiet() {
    QUIET.with(|q| *q.borrow_mut() = true);
}

/// Run `f`, converting a panic into `Err(message @ file:line)`.
pub fn catch<R>(f: impl FnOnce() -> R) -> Result<R, String> {
    QUIET.with(|q| *q.borrow_mut() = true);
    LAST_PANIC.with(|p| *p.borrow_mut() = None);
    let r = catch_unwind(AssertUnwindSafe(f));
    QUIET.with(|q| *q.borrow_mut() = false);
    match r {
        Ok(v) => Ok(v),
        Err(_) => Err(LAST_PANIC
            .with(|p| p.borrow_mut().take())
            .unwrap_or_else(|| "<panic>".into())),
    }
}

/// signature for a panic: strip line numbers so small edits do not change it,
/// keep file and the first words of the message
pub fn panic_signature(msg: &str) -> String {
    let (m, loc) = msg.rsplit_once(" @ ").unwrap_or((msg, ""));
    let file = loc.rsplit_once(':').map(|x| x.0).unwrap_or(loc);
    let file = file.rsplit('/').take(2).collect::<Vec<_>>();
    let file = file.into_iter().rev().collect::<Vec<_>>().join("/");
    let words: String = m
        .chars()
        .filter(|c| !c.is_ascii_digit())
        .take(48)
        .collect::<String>()
        .split_whitespace()
        .collect::<Vec<_>>()
        .join("-");
    format!("panic/{file}/{words}")
}

// ---------------------------------------------------------------------------
// known findings

#[derive(Debug, Clone, Deserialize)]
pub struct KnownFindings {
    #[serde(default)]
    pub known: Vec<KnownEntry>,
    #[serde(default)]
    pub fixed: Vec<String>,
}

#[derive(Debug, Clone, Deserialize)]
pub struct KnownEntry {
    pub property: String,
    pub signature: String,
    pub what: String,
}

pub fn verif_root() -> std::path::PathBuf {
    std::env::var_os("VERIF_ROOT")
        .map(Into::into)
        .unwrap_or_else(|| "/verif".into())
}

pub fn load_known() -> KnownFindings {
    let p = verif_root().join("known_findings.json");
    match std::fs::read_to_string(&p) {
        Ok(s) => serde_json::from_str(&s).expect("known_findings.json must parse"),
        Err(_) => KnownFindings {
            known: vec![],
            fixed: vec![],
        },
    }
}

// ---------------------------------------------------------------------------
// worker

#[derive(Debug, Default, Serialize, Deserialize)]
pub struct WorkerResult {
    pub evaluations: u64,
    pub enumerated: u64,
    pub nontrivial: u64,
    pub distinct_nontrivial_hashes: Vec<u64>,
    /// the per-worker set of case hashes reached its cap: the distinct count is a lower bound
    #[serde(default)]
    pub hashes_capped: bool,
    pub labels: BTreeMap<String, u64>,
    pub samples: Vec<serde_json::Value>,
    pub known_hits: BTreeMap<String, u64>,
    /// shrunk failing case (JSON) + failure
    pub violation: Option<(serde_json::Value, Failure)>,
    pub shrink_note: Option<String>,
}

struct Stats {
    frozen: bool,
    res: WorkerResult,
    hashes: HashSet<u64>,
    sample_labels: HashSet<String>,
}

/// at most this many distinct non-trivial cases are told apart per worker
const HASH_CAP: usize = 1 << 21;

fn hash_case<C: Serialize>(c: &C) -> u64 {
    let s = serde_json::to_string(c).unwrap_or_default();
    let mut h = std::collections::hash_map::DefaultHasher::new();
    s.hash(&mut h);
    h.finish()
}

fn mix(seed: u64, a: u64, id: &str) -> u64 {
    let mut h = std::collections::hash_map::DefaultHasher::new();
    (seed, a, id).hash(&mut h);
    h.finish()
}

/// Evaluate one case: panic capture + known-finding lookup.
/// Returns (outcome-with-known-removed, raw failure if any, was_known)
fn eval<P: Property>(case: &P::Case, known: &KnownFindings) -> (Outcome, Option<Failure>, bool) {
    if std::env::var_os("VERIF_PRINT_CASES").is_some() {
        eprintln!("CASE {}", serde_json::to_string(case).unwrap_or_default());
    }
    let t0 = std::time::Instant::now();
    let r = if std::env::var_os("VERIF_ISOLATE").is_some() { fork_check::<P>(case) } else { catch(|| P::check(case)) };
    if let Some(ms) = std::env::var("VERIF_SLOW_MS").ok().and_then(|v| v.parse::<u128>().ok()) {
        let el = t0.elapsed().as_millis();
        if el > ms {
            eprintln!("SLOW {} ms: {}", el, serde_json::to_string(case).unwrap_or_default());
        }
    }
    let out = match r {
        Ok(o) => o,
        Err(msg) => {
            if P::PANIC_IS_VIOLATION {
                Outcome::fail(panic_signature(&msg), format!("panic: {msg}")).label("panic")
            } else {
                Outcome::pass(false).label("panic-ignored")
            }
        }
    };
    match &out.failure {
        None => (out, None, false),
        Some(f) => {
            let is_known = known
                .known
                .iter()
                .any(|k| k.property == P::ID && k.signature == f.signature);
            let f = f.clone();
            (out, Some(f), is_known)
        }
    }
}

/// Isolation mode (`VERIF_ISOLATE`, used by the driver after a worker process died from a signal): the check runs
/// in a forked child, so an abort / segmentation fault / stack overflow inside the code under test is attributed
/// to the case that caused it instead of taking the worker down. Labels are not carried over in this mode.
fn fork_check<P: Property>(case: &P::Case) -> Result<Outcome, String> {
    use std::io::Read;
    use std::os::fd::FromRawFd;
    let mut fds = [0i32; 2];
    if unsafe { libc::pipe(fds.as_mut_ptr()) } != 0 {
        return catch(|| P::check(case));
    }
    let pid = unsafe { libc::fork() };
    if pid < 0 {
        unsafe {
            libc::close(fds[0]);
            libc::close(fds[1]);
        }
        return catch(|| P::check(case));
    }
    if pid == 0 {
        unsafe {
            libc::close(fds[0]);
            // a crashing child must be cheap: no core dump
            let lim = libc::rlimit { rlim_cur: 0, rlim_max: 0 };
            libc::setrlimit(libc::RLIMIT_CORE, &lim);
            libc::prctl(libc::PR_SET_DUMPABLE, 0);
        }
        let r = catch(|| P::check(case));
        let v = match r {
            Ok(o) => serde_json::json!({"nontrivial": o.nontrivial, "failure": o.failure.map(|f| (f.signature, f.what))}),
            Err(msg) => serde_json::json!({"panic": msg}),
        };
        let b = v.to_string().into_bytes();
        let mut off = 0;
        while off < b.len() {
            let n = unsafe { libc::write(fds[1], b[off..].as_ptr() as *const libc::c_void, b.len() - off) };
            if n <= 0 {
                break;
            }
            off += n as usize;
        }
        unsafe { libc::_exit(0) };
    }
    unsafe { libc::close(fds[1]) };
    let mut f = unsafe { std::fs::File::from_raw_fd(fds[0]) };
    let mut buf = String::new();
    let _ = f.read_to_string(&mut buf);
    drop(f);
    let mut status = 0i32;
    unsafe { libc::waitpid(pid, &mut status, 0) };
    if libc::WIFSIGNALED(status) {
        let sig = libc::WTERMSIG(status);
        let name = match sig {
            libc::SIGABRT => "SIGABRT",
            libc::SIGSEGV => "SIGSEGV",
            libc::SIGBUS => "SIGBUS",
            libc::SIGILL => "SIGILL",
            libc::SIGFPE => "SIGFPE",
            libc::SIGKILL => "SIGKILL",
            _ => "signal",
        };
        return Ok(Outcome::fail(
            format!("process-killed/{name}"),
            format!("the process running this case was terminated by {name} ({sig}): abort, memory-allocation failure or stack overflow in the code under test"),
        ));
    }
    match serde_json::from_str::<serde_json::Value>(&buf) {
        Ok(v) => {
            if let Some(m) = v.get("panic").and_then(|m| m.as_str()) {
                return Err(m.to_string());
            }
            let mut o = Outcome::pass(v.get("nontrivial").and_then(|b| b.as_bool()).unwrap_or(false));
            if let Some(f) = v.get("failure").and_then(|f| f.as_array()) {
                if let (Some(s), Some(w)) = (f.first().and_then(|x| x.as_str()), f.get(1).and_then(|x| x.as_str())) {
                    o = Outcome::fail(s.to_string(), w.to_string());
                }
            }
            Ok(o)
        }
        Err(_) => Ok(Outcome::fail("harness/isolated-child-gave-no-result", format!("exit status {status}"))),
    }
}

pub fn run_worker<P: Property>(
    tier: Tier,
    seed: u64,
    worker: usize,
    nworkers: usize,
    cases: u32,
) -> WorkerResult {
    let known = load_known();
    let stats = RefCell::new(Stats {
        frozen: false,
        res: WorkerResult::default(),
        hashes: HashSet::new(),
        sample_labels: HashSet::new(),
    });

    let record = |case: &P::Case, out: &Outcome, failure: &Option<Failure>, is_known: bool, enumerated: bool| {
        let mut st = stats.borrow_mut();
        if st.frozen {
            return;
        }
        st.res.evaluations += 1;
        if enumerated {
            st.res.enumerated += 1;
        }
        for l in &out.labels {
            *st.res.labels.entry((*l).to_string()).or_default() += 1;
        }
        if out.nontrivial {
            st.res.nontrivial += 1;
            // distinct-case accounting is capped (memory and result-file size in very long campaigns)
            if st.hashes.len() < HASH_CAP {
                let h = hash_case(case);
                st.hashes.insert(h);
            } else {
                st.res.hashes_capped = true;
            }
            // keep a sample for up to 4 distinct label-sets
            let key = out.labels.join(",");
            if st.res.samples.len() < 4 && st.sample_labels.insert(key) {
                let mut v = serde_json::Map::new();
                v.insert("case".into(), P::render(case));
                v.insert(
                    "labels".into(),
                    serde_json::Value::Array(
                        out.labels.iter().map(|l| serde_json::Value::String((*l).into())).collect(),
                    ),
                );
                st.res.samples.push(serde_json::Value::Object(v));
            }
        }
        if let Some(f) = failure {
            if is_known {
                *st.res.known_hits.entry(f.signature.clone()).or_default() += 1;
            } else {
                st.frozen = true;
            }
        }
    };

    // 1. enumeration slice + corpus (worker 0 replays the corpus)
    let mut explicit: Vec<P::Case> = Vec::new();
    if worker == 0 {
        explicit.extend(load_corpus::<P>());
    }
    for (i, c) in P::enumerate(tier).into_iter().enumerate() {
        if i % nworkers == worker {
            explicit.push(c);
        }
    }
    for c in &explicit {
        let (out, failure, is_known) = eval::<P>(c, &known);
        record(c, &out, &failure, is_known, true);
        if let Some(f) = failure {
            if !is_known {
                let mut st = stats.borrow_mut();
                st.res.violation = Some((serde_json::to_value(c).unwrap(), f));
                st.res.shrink_note = Some("explicit case (not shrunk)".into());
                break;
            }
        }
    }

    // 2. generated cases
    let already_failed = stats.borrow().res.violation.is_some();
    if !already_failed && cases > 0 {
        let mut cfg = Config::default();
        cfg.cases = cases;
        cfg.failure_persistence = None;
        cfg.rng_seed = RngSeed::Fixed(mix(seed, worker as u64, P::ID));
        cfg.max_shrink_iters = if std::env::var_os("VERIF_ISOLATE").is_some() { P::MAX_SHRINK_ITERS.min(150) } else { P::MAX_SHRINK_ITERS };
        cfg.max_global_rejects = 1 << 30;
        cfg.max_local_rejects = 1 << 20;
        cfg.verbose = 0;
        let mut runner = TestRunner::new(cfg);
        let strat = P::strategy(tier);
        let last_fail: RefCell<Option<Failure>> = RefCell::new(None);
        let result = runner.run(&strat, |case| {
            let (out, failure, is_known) = eval::<P>(&case, &known);
            record(&case, &out, &failure, is_known, false);
            match failure {
                Some(f) if !is_known => {
                    let what = f.what.clone();
                    *last_fail.borrow_mut() = Some(f);
                    Err(TestCaseError::fail(what))
                }
                _ => Ok(()),
            }
        });
        match result {
            Ok(()) => {}
            Err(TestError::Fail(_, case)) => {
                // re-evaluate the shrunk case to get its own failure text
                let (_, failure, _) = eval::<P>(&case, &known);
                let f = failure.or_else(|| last_fail.borrow().clone()).unwrap_or(Failure {
                    signature: "unknown".into(),
                    what: "failed during shrinking only".into(),
                });
                let mut st = stats.borrow_mut();
                st.res.violation = Some((serde_json::to_value(&case).unwrap(), f));
                st.res.shrink_note = Some("shrunk by proptest".into());
            }
            Err(TestError::Abort(why)) => {
                let mut st = stats.borrow_mut();
                st.res.shrink_note = Some(format!("proptest aborted: {why}"));
            }
        }
    }

    let mut st = stats.into_inner();
    st.res.distinct_nontrivial_hashes = st.hashes.into_iter().collect();
    st.res
}

fn corpus_dir(id: &str) -> std::path::PathBuf {
    verif_root().join("corpus").join(id)
}

fn load_corpus<P: Property>() -> Vec<P::Case> {
    let mut out = Vec::new();
    let Ok(rd) = std::fs::read_dir(corpus_dir(P::ID)) else {
        return out;
    };
    let mut paths: Vec<_> = rd.filter_map(|e| e.ok().map(|e| e.path())).collect();
    paths.sort();
    for p in paths {
        match p.extension().and_then(|e| e.to_str()) {
            Some("json") => {
                if let Ok(s) = std::fs::read_to_string(&p) {
                    match serde_json::from_str::<P::Case>(&s) {
                        Ok(c) => out.push(c),
                        Err(e) => eprintln!("corpus file {} does not parse: {e}", p.display()),
                    }
                }
            }
            Some("bin") => {
                if let Ok(b) = std::fs::read(&p) {
                    if let Some(c) = P::from_bytes(&b) {
                        out.push(c);
                    }
                }
            }
            _ => {}
        }
    }
    out
}

// ---------------------------------------------------------------------------
// registry (type-erased)

pub struct Entry {
    pub id: &'static str,
    pub level: Level,
    pub rule: &'static str,
    pub assumptions: &'static [&'static str],
    pub quick_cases: u32,
    pub thorough_cases: u32,
    pub max_workers: usize,
    pub worker: fn(Tier, u64, usize, usize, u32) -> WorkerResult,
    pub replay_json: fn(&str) -> Result<Outcome, String>,
    pub replay_bytes: fn(&[u8]) -> Option<Result<Outcome, String>>,
    pub enumeration_note: fn() -> Option<&'static str>,
    pub has_fuzz: bool,
}

pub fn entry<P: Property>(has_fuzz: bool) -> Entry {
    Entry {
        id: P::ID,
        level: P::LEVEL,
        rule: P::RULE,
        assumptions: P::ASSUMPTIONS,
        quick_cases: P::QUICK_CASES,
        thorough_cases: P::THOROUGH_CASES,
        max_workers: P::MAX_WORKERS,
        worker: run_worker::<P>,
        replay_json: |s| {
            let case: P::Case = serde_json::from_str(s).map_err(|e| format!("replay file does not parse: {e}"))?;
            Ok(strict_eval::<P>(&case))
        },
        replay_bytes: |b| {
            let case = P::from_bytes(b)?;
            Some(Ok(strict_eval::<P>(&case)))
        },
        enumeration_note: P::enumeration_note,
        has_fuzz,
    }
}

/// strict evaluation (replay / fuzz): known findings are NOT tolerated
pub fn strict_eval<P: Property>(case: &P::Case) -> Outcome {
    strict_eval_opt::<P>(case, true)
}

/// `probe`: try the case in a forked child first (replay), so that a case which kills the process is reported
/// instead of killing the replay; the fuzz targets skip the probe (libFuzzer saves a crashing input itself)
pub fn strict_eval_opt<P: Property>(case: &P::Case, probe: bool) -> Outcome {
    // a case that kills the process (abort, allocation failure, stack overflow) is first tried in a forked child
    if probe && P::PANIC_IS_VIOLATION {
        if let Ok(o) = fork_check::<P>(case) {
            if o.failure.as_ref().is_some_and(|f| f.signature.starts_with("process-killed/")) {
                return o;
            }
        }
    }
    match catch(|| P::check(case)) {
        Ok(o) => o,
        Err(msg) => {
            if P::PANIC_IS_VIOLATION {
                Outcome::fail(panic_signature(&msg), format!("panic: {msg}"))
            } else {
                Outcome::pass(false)
            }
        }
    }
}

/// fuzz entry: decode bytes, evaluate, tolerate known findings, panic on a new violation
pub fn fuzz_one<P: Property>(data: &[u8]) {
    thread_local! { static KNOWN: KnownFindings = load_known(); }
    let Some(case) = P::from_bytes(data) else { return };
    let out = strict_eval_opt::<P>(&case, false);
    if let Some(f) = out.failure {
        let known = KNOWN.with(|k| k.known.iter().any(|k| k.property == P::ID && k.signature == f.signature));
        if !known {
            eprintln!("FUZZ-VIOLATION property={} signature={} what={}", P::ID, f.signature, f.what);
            std::process::abort();
        }
    }
}

// ---------------------------------------------------------------------------
// small strategy helpers shared by properties

/// map a u16 "index" monotonically onto 0..len (shrinks towards 0)
pub fn idx(i: u16, len: usize) -> usize {
    if len == 0 { 0 } else { ((i as usize) * len) >> 16 }
}

pub fn pick<T: Clone + std::fmt::Debug + 'static>(items: Vec<T>) -> BoxedStrategy<T> {
    let n = items.len();
    (0..n).prop_map(move |i| items[i].clone()).boxed()
}
