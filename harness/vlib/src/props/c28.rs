//! C28 — NTS key exchange negotiates only mutually supported parameters, and both ends derive the
//! keys exported from the TLS session.
//!
//! Three kinds of cases, all over an in-memory TLS 1.3 session (tokio duplex):
//! * `Server`: a raw harness TLS client sends a generated key-exchange request to the real
//!   `KeyExchangeServer`; the harness exports the keys from ITS end of the session
//!   (RFC 8915 §5.1 label/context) and compares them with what the eight cookies decode to.
//! * `Client`: the real `KeyExchangeClient` talks to a raw harness TLS server that answers with a
//!   generated well-formed response; the harness exports the keys from its `ServerConnection`.
//! * `EndToEnd`: real client against real server.
use std::borrow::Cow;
use std::cell::RefCell;
use std::collections::BTreeMap;
use std::rc::Rc;
use std::sync::Arc;

use crate::engine::*;
use crate::w_ntske::*;
use ntp_proto::{
    KeyExchangeClient, KeyExchangeServer, KeySetProvider, NtpVersion, NtsClientConfig, NtsServerConfig,
    ProtocolVersion,
};
use proptest::prelude::*;
use serde::{Deserialize, Serialize};
use tokio::io::AsyncWriteExt;

pub struct C28;

#[derive(Debug, Clone, Serialize, Deserialize)]
pub enum Case {
    Server {
        /// accepted NTP versions of the server (3, 4, 5), in configuration order
        versions: Vec<u8>,
        protos: Vec<u16>,
        algs: Vec<u16>,
        denied: Vec<String>,
        /// bit 0: non-critical unknown record, bit 1: keep-alive record, bit 2: authentication record,
        /// bit 3: server record, bit 4: port record (all ignored by the request parser)
        extra: u8,
        rot: u16,
        server_name: Option<String>,
        port: Option<u16>,
    },
    Client {
        /// 0 = V4, 1 = V5, 2 = V4UpgradingToV5, 3 = UpgradedToV5
        version: u8,
        proto: u16,
        alg: u16,
        cookies: Vec<Vec<u8>>,
        server: Option<String>,
        port: Option<u16>,
        /// bit 0: non-critical unknown record, bit 1: keep-alive record
        extra: u8,
        rot: u16,
        denied: Vec<String>,
    },
    EndToEnd {
        version: u8,
        versions: Vec<u8>,
    },
}

fn version_of(v: u8) -> ProtocolVersion {
    match v % 4 {
        0 => ProtocolVersion::V4,
        1 => ProtocolVersion::V5,
        2 => ProtocolVersion::V4UpgradingToV5 { tries_left: 8 },
        _ => ProtocolVersion::UpgradedToV5,
    }
}

/// documented offer of the client per configured version (ntp.toml: v4 / v5 / auto)
fn client_offer(v: u8) -> Vec<u16> {
    match v % 4 {
        0 => vec![PROTO_V4],
        1 => vec![PROTO_V5],
        _ => vec![PROTO_V5, PROTO_V4],
    }
}

fn accepted_ids(versions: &[u8]) -> Vec<u16> {
    versions
        .iter()
        .filter_map(|v| match v {
            4 => Some(PROTO_V4),
            5 => Some(PROTO_V5),
            _ => None,
        })
        .collect()
}

fn server_config(versions: &[u8], server: Option<String>, port: Option<u16>) -> NtsServerConfig {
    NtsServerConfig {
        certificate_chain: tls::server_chain(),
        private_key: tls::server_key(),
        accepted_versions: versions.iter().map(|v| NtpVersion::try_from(*v).expect("version")).collect(),
        server,
        port,
        pool_authentication_tokens: vec![],
    }
}

thread_local! {
    static CLIENTS: RefCell<BTreeMap<u8, Rc<KeyExchangeClient>>> = const { RefCell::new(BTreeMap::new()) };
}

fn ke_client(version: u8) -> Rc<KeyExchangeClient> {
    CLIENTS.with(|c| {
        c.borrow_mut()
            .entry(version % 4)
            .or_insert_with(|| {
                let certificates: Arc<[_]> = tls::ca_certs().into();
                Rc::new(
                    KeyExchangeClient::new(&NtsClientConfig {
                        certificates,
                        protocol_version: version_of(version),
                    })
                    .expect("client config"),
                )
            })
            .clone()
    })
}

// ---------------------------------------------------------------------------
// strategy

fn proto_id() -> BoxedStrategy<u16> {
    prop_oneof![
        8 => prop::sample::select(vec![PROTO_V4, PROTO_V5]),
        2 => prop::sample::select(vec![1u16, 0x8000, 0x8002, 4, 5, 0xffff]),
        1 => any::<u16>(),
    ]
    .boxed()
}

fn alg_id() -> BoxedStrategy<u16> {
    prop_oneof![
        8 => prop::sample::select(vec![ALG_256, ALG_512]),
        2 => prop::sample::select(vec![0u16, 1, 14, 16, 18, 30, 0xffff]),
        1 => any::<u16>(),
    ]
    .boxed()
}

fn name() -> BoxedStrategy<String> {
    prop::collection::vec(
        prop::sample::select("abcdefghijklmnopqrstuvwxyz0123456789.-".chars().collect::<Vec<_>>()),
        1..16,
    )
    .prop_map(|v| v.into_iter().collect())
    .boxed()
}

fn versions() -> BoxedStrategy<Vec<u8>> {
    prop::sample::select(vec![
        vec![4u8],
        vec![5],
        vec![4, 5],
        vec![5, 4],
        vec![3, 4],
        vec![3, 5],
        vec![3, 4, 5],
        vec![5, 3, 4],
        vec![3],
        vec![],
    ])
    .boxed()
}

fn case() -> BoxedStrategy<Case> {
    let server = (
        versions(),
        prop::collection::vec(proto_id(), 0..5),
        prop::collection::vec(alg_id(), 0..5),
        prop::collection::vec(name(), 0..3),
        prop_oneof![2 => 0u8..32, 1 => any::<u8>()],
        prop_oneof![2 => Just(0u16), 1 => any::<u16>()],
        prop::option::weighted(0.3, name()),
        prop::option::weighted(0.3, any::<u16>()),
    )
        .prop_map(|(versions, protos, algs, denied, extra, rot, server_name, port)| Case::Server {
            versions,
            protos,
            algs,
            denied,
            extra,
            rot,
            server_name,
            port,
        });
    let client = (
        0u8..4,
        proto_id(),
        prop_oneof![10 => prop::sample::select(vec![ALG_256, ALG_512]), 1 => alg_id()],
        prop::collection::vec(prop::collection::vec(any::<u8>(), 0..120), 0..11),
        prop::option::weighted(0.3, name()),
        prop::option::weighted(0.3, any::<u16>()),
        prop_oneof![2 => 0u8..4, 1 => any::<u8>().prop_map(|b| b & 0xE3)],
        prop_oneof![2 => Just(0u16), 1 => any::<u16>()],
        prop::collection::vec(name(), 0..2),
    )
        .prop_map(|(version, proto, alg, cookies, server, port, extra, rot, denied)| Case::Client {
            version,
            proto,
            alg,
            cookies,
            server,
            port,
            extra,
            rot,
            denied,
        });
    let e2e = (0u8..4, versions()).prop_map(|(version, versions)| Case::EndToEnd { version, versions });
    prop_oneof![6 => server, 6 => client, 1 => e2e].boxed()
}

// ---------------------------------------------------------------------------
// server side

type CookieKeys = Option<(u16, Vec<u8>, Vec<u8>)>;

struct ServerObs {
    tls_failed: bool,
    got: Option<ReadMsg>,
    /// per cookie: decoded (algorithm, c2s, s2c)
    cookie_keys: Vec<CookieKeys>,
    /// harness-side export for the expected (protocol, algorithm)
    export: Option<(Vec<u8>, Vec<u8>)>,
    server_ok: bool,
}

fn expected_choice(versions: &[u8], protos: &[u16], algs: &[u16]) -> (Option<u16>, Option<u16>) {
    let acc = accepted_ids(versions);
    (
        protos.iter().copied().find(|p| acc.contains(p)),
        algs.iter().copied().find(|a| *a == ALG_256 || *a == ALG_512),
    )
}

fn run_server(case: &Case) -> ServerObs {
    let Case::Server {
        versions,
        protos,
        algs,
        denied,
        extra,
        rot,
        server_name,
        port,
    } = case
    else {
        unreachable!()
    };
    let mut recs = vec![rec(T_NEXT_PROTO | CRIT, &u16s(protos)), rec(T_AEAD | CRIT, &u16s(algs))];
    for d in denied {
        recs.push(rec(T_DENY, d.as_bytes()));
    }
    if extra & 1 != 0 {
        recs.push(rec(0x0400, &[1, 2, 3]));
    }
    if extra & 2 != 0 {
        recs.push(rec(T_KEEP_ALIVE, &[]));
    }
    if extra & 4 != 0 {
        recs.push(rec(T_AUTH, b"pool-a"));
    }
    if extra & 8 != 0 {
        recs.push(rec(T_SERVER | CRIT, b"example.org"));
    }
    if extra & 16 != 0 {
        recs.push(rec(T_PORT | CRIT, &[0, 123]));
    }
    let n = idx(*rot, recs.len());
    recs.rotate_left(n);
    recs.push(rec(T_EOM | CRIT, &[]));
    let request = recs.concat();
    let (p, a) = expected_choice(versions, protos, algs);

    crate::rt::run_paused(async {
        let (c_io, s_io) = tls::duplex();
        let kex = KeyExchangeServer::new(server_config(versions, server_name.clone(), *port)).expect("server config");
        let keyset = KeySetProvider::new(1).get();
        let server = async { kex.handle_connection(s_io, &keyset, || None::<()>).await.is_ok() };
        let client = async {
            let Ok(mut io) = tls::connector().connect(tls::localhost(), c_io).await else {
                return (true, None, None);
            };
            // bits 5..7 of `extra`: the request leaves in pieces of 1/2/3/5/7/9/13 bytes (separate TLS records), so
            // the server's record parser sees ids and lengths split across reads
            let piece = [usize::MAX, 1, 2, 3, 5, 7, 9, 13][(*extra >> 5) as usize];
            for part in request.chunks(piece.min(request.len().max(1))) {
                if io.write_all(part).await.is_err() || io.flush().await.is_err() {
                    return (false, None, None);
                }
            }
            let got = read_message(&mut io).await;
            let export = match (p, a) {
                (Some(p), Some(a)) => tls::export(io.get_ref().1, p, a),
                _ => None,
            };
            let _ = io.shutdown().await;
            (false, Some(got), export)
        };
        let (server_ok, (tls_failed, got, export)) = tokio::join!(server, client);
        let cookie_keys = match &got {
            Some(ReadMsg::Message(recs)) => summarize(recs)
                .cookies
                .iter()
                .map(|c| {
                    keyset
                        .decode_cookie_pub(c)
                        .ok()
                        .map(|d| (cookie_algorithm(&d), d.c2s.key_bytes().to_vec(), d.s2c.key_bytes().to_vec()))
                })
                .collect(),
            _ => vec![],
        };
        ServerObs {
            tls_failed,
            got,
            cookie_keys,
            export,
            server_ok,
        }
    })
}

fn check_server(case: &Case) -> Outcome {
    let Case::Server { versions, protos, algs, .. } = case else { unreachable!() };
    let mut l = Labels::default();
    l.add("server-side");
    let obs = run_server(case);
    if obs.tls_failed {
        return Outcome::fail("c28/server/tls-handshake-failed", "harness TLS client could not connect").labels(l.0);
    }
    let (p, a) = expected_choice(versions, protos, algs);
    let summary = match &obs.got {
        Some(ReadMsg::Message(recs)) => Some(summarize(recs)),
        _ => None,
    };
    let acc = accepted_ids(versions);
    let overlap_p = protos.iter().filter(|p| acc.contains(p)).count();
    let known_a = algs.iter().filter(|a| **a == ALG_256 || **a == ALG_512).count();
    l.add_if(overlap_p >= 2, "server:≥2-acceptable-protocols-offered");
    l.add_if(known_a >= 2, "server:≥2-supported-algorithms-offered");
    l.add_if(p.is_some() && protos.first() != p.as_ref(), "server:first-protocol-not-acceptable");
    l.add_if(a.is_some() && algs.first() != a.as_ref(), "server:first-algorithm-not-supported");
    let nontrivial = !protos.is_empty() && !algs.is_empty();
    match (p, a) {
        (Some(p), Some(a)) => {
            l.add("server:negotiated");
            l.add(if p == PROTO_V4 { "server:v4" } else { "server:v5" });
            l.add(if a == ALG_256 { "server:aes256" } else { "server:aes512" });
            let Some(s) = summary else {
                return Outcome::fail(
                    "c28/server/no-answer",
                    format!("mutually supported parameters exist ({p:#x},{a}) but no complete answer arrived: {:?}", obs.got),
                )
                .labels(l.0);
            };
            if !s.errors.is_empty() {
                return Outcome::fail("c28/server/error-answer", format!("expected ({p:#x},{a}), got error {:?}", s.errors)).labels(l.0);
            }
            if s.next_protocols != vec![vec![p]] {
                return Outcome::fail(
                    "c28/server/wrong-protocol",
                    format!("client offered {protos:x?}, server accepts {acc:x?}: expected {p:#x}, answer names {:x?}", s.next_protocols),
                )
                .labels(l.0);
            }
            if s.aead != vec![vec![a]] {
                return Outcome::fail(
                    "c28/server/wrong-algorithm",
                    format!("client offered {algs:?}: expected {a}, answer names {:?}", s.aead),
                )
                .labels(l.0);
            }
            if s.cookies.len() != 8 {
                return Outcome::fail("c28/server/cookie-count", format!("{} cookies instead of 8", s.cookies.len())).labels(l.0);
            }
            let Some((c2s, s2c)) = obs.export else {
                return Outcome::fail("c28/server/harness-export-failed", "could not export keys at the harness end").labels(l.0);
            };
            let want = Some((a, c2s, s2c));
            for (i, k) in obs.cookie_keys.iter().enumerate() {
                if *k != want {
                    let sig = match k {
                        None => "c28/server/cookie-undecodable",
                        Some((ka, ..)) if *ka != a => "c28/server/cookie-algorithm",
                        Some((_, kc, ks)) if want.as_ref().map(|w| (&w.2, &w.1)) == Some((kc, ks)) => "c28/server/cookie-keys-swapped",
                        _ => "c28/server/cookie-keys",
                    };
                    return Outcome::fail(sig, format!("cookie #{i} decodes to {k:?}, TLS export for ({p:#x},{a}) is {want:?}")).labels(l.0);
                }
            }
            if !obs.server_ok {
                return Outcome::fail("c28/server/result-err", "handle_connection returned Err after a successful negotiation").labels(l.0);
            }
            Outcome::pass(nontrivial).labels(l.0)
        }
        _ => {
            l.add(if p.is_none() { "server:no-protocol-overlap" } else { "server:no-algorithm-overlap" });
            if let Some(s) = summary {
                if !s.cookies.is_empty() {
                    return Outcome::fail(
                        "c28/server/cookies-without-overlap",
                        format!("no mutually supported parameters (offered {protos:x?}/{algs:?}, accepts {acc:x?}) but cookies were issued"),
                    )
                    .labels(l.0);
                }
            }
            Outcome::pass(nontrivial).labels(l.0)
        }
    }
}

// ---------------------------------------------------------------------------
// client side

struct ClientResult {
    protocol_version: ProtocolVersion,
    c2s: Vec<u8>,
    s2c: Vec<u8>,
    cookies: Vec<Vec<u8>>,
}

struct ClientObs {
    tls_failed: bool,
    request: Option<ReadMsg>,
    result: Result<ClientResult, String>,
    export: Option<(Vec<u8>, Vec<u8>)>,
}

fn run_client(case: &Case) -> ClientObs {
    let Case::Client {
        version,
        proto,
        alg,
        cookies,
        server,
        port,
        extra,
        rot,
        denied,
    } = case
    else {
        unreachable!()
    };
    let mut recs = vec![rec(T_NEXT_PROTO | CRIT, &u16s(&[*proto])), rec(T_AEAD | CRIT, &u16s(&[*alg]))];
    for c in cookies {
        recs.push(rec(T_COOKIE, c));
    }
    if let Some(s) = server {
        recs.push(rec(T_SERVER | CRIT, s.as_bytes()));
    }
    if let Some(p) = port {
        recs.push(rec(T_PORT | CRIT, &p.to_be_bytes()));
    }
    if extra & 1 != 0 {
        recs.push(rec(0x0400, &[9, 9]));
    }
    if extra & 2 != 0 {
        recs.push(rec(T_KEEP_ALIVE, &[]));
    }
    let n = idx(*rot, recs.len());
    recs.rotate_left(n);
    recs.push(rec(T_EOM | CRIT, &[]));
    let response = recs.concat();
    let kex = ke_client(*version);

    crate::rt::run_paused(async {
        let (c_io, s_io) = tls::duplex();
        let client = async {
            kex.exchange_keys(c_io, "localhost".into(), denied.iter().map(|d| Cow::Borrowed(d.as_str())))
                .await
                .map(|mut r| {
                    let mut cookies = Vec::new();
                    while let Some(c) = r.nts.get_cookie() {
                        cookies.push(c);
                        if cookies.len() > 64 {
                            break;
                        }
                    }
                    let protocol_version = r.protocol_version;
                    let (c2s, s2c) = r.nts.get_keys();
                    ClientResult {
                        protocol_version,
                        c2s: c2s.key_bytes().to_vec(),
                        s2c: s2c.key_bytes().to_vec(),
                        cookies,
                    }
                })
                .map_err(|e| err_class(&e).to_string())
        };
        let server = async {
            let Ok(mut io) = tls::acceptor().accept(s_io).await else {
                return (true, None, None);
            };
            let request = read_message(&mut io).await;
            let export = tls::export(io.get_ref().1, *proto, *alg);
            let piece = [usize::MAX, 1, 2, 3, 5, 7, 9, 13][(*extra >> 5) as usize];
            for part in response.chunks(piece.min(response.len().max(1))) {
                let _ = io.write_all(part).await;
                let _ = io.flush().await;
            }
            let _ = io.shutdown().await;
            (false, Some(request), export)
        };
        let (result, (tls_failed, request, export)) = tokio::join!(client, server);
        ClientObs {
            tls_failed,
            request,
            result,
            export,
        }
    })
}

fn check_client(case: &Case) -> Outcome {
    let Case::Client {
        version,
        proto,
        alg,
        cookies,
        denied,
        ..
    } = case
    else {
        unreachable!()
    };
    let mut l = Labels::default();
    l.add("client-side");
    l.add(match version % 4 {
        0 => "client:v4-only",
        1 => "client:v5-only",
        _ => "client:auto",
    });
    let obs = run_client(case);
    if obs.tls_failed {
        return Outcome::fail("c28/client/tls-handshake-failed", format!("TLS handshake with the harness server failed: {:?}", obs.result.as_ref().err())).labels(l.0);
    }
    // what the client really offered, from the wire
    let Some(ReadMsg::Message(recs)) = &obs.request else {
        return Outcome::fail("c28/client/no-request", format!("harness server did not receive a complete request: {:?}", obs.request)).labels(l.0);
    };
    let req = summarize(recs);
    if req.next_protocols.len() != 1 || req.aead.len() != 1 {
        return Outcome::fail("c28/client/malformed-request", format!("{req:?}")).labels(l.0);
    }
    let offered_p = &req.next_protocols[0];
    let offered_a = &req.aead[0];
    // (labels only: the statement quantifies over the list the client really offered)
    l.add_if(*offered_p == client_offer(*version), "client:offer-as-documented");
    let sent_denied: Vec<Vec<u8>> = denied.iter().map(|d| d.as_bytes().to_vec()).collect();
    l.add_if(!sent_denied.is_empty() && req.denied == sent_denied, "client:denied-servers-forwarded");
    let p_offered = offered_p.contains(proto);
    let a_offered = offered_a.contains(alg);
    l.add_if(!p_offered, "client:response-protocol-not-offered");
    l.add_if(!a_offered, "client:response-algorithm-not-offered");
    l.add_if(cookies.is_empty(), "client:response-without-cookies");
    l.add_if(cookies.len() > 8, "client:response->8-cookies");
    match &obs.result {
        Ok(r) => {
            l.add("client:ok");
            if !p_offered {
                return Outcome::fail(
                    "c28/client/adopted-unoffered-protocol",
                    format!("client offered {offered_p:x?} but adopted a response naming protocol {proto:#x} (result: {:?})", r.protocol_version),
                )
                .labels(l.0);
            }
            if !a_offered {
                return Outcome::fail(
                    "c28/client/adopted-unoffered-algorithm",
                    format!("client offered {offered_a:?} but adopted a response naming algorithm {alg}"),
                )
                .labels(l.0);
            }
            let pv_ok = match (*proto, r.protocol_version) {
                (PROTO_V4, ProtocolVersion::V4) => true,
                (PROTO_V5, ProtocolVersion::V5) => true,
                _ => false,
            };
            if !pv_ok {
                return Outcome::fail(
                    "c28/client/protocol-version-mismatch",
                    format!("response names {proto:#x}, result says {:?}", r.protocol_version),
                )
                .labels(l.0);
            }
            let Some((c2s, s2c)) = &obs.export else {
                return Outcome::fail("c28/client/harness-export-failed", "could not export keys at the harness end").labels(l.0);
            };
            if r.c2s != *c2s || r.s2c != *s2c {
                let sig = if r.c2s == *s2c && r.s2c == *c2s {
                    "c28/client/keys-swapped"
                } else {
                    "c28/client/keys-differ"
                };
                return Outcome::fail(sig, format!("client keys differ from the server-side TLS export for ({proto:#x},{alg})")).labels(l.0);
            }
            if r.cookies.is_empty() || r.cookies.iter().any(|c| !cookies.contains(c)) {
                return Outcome::fail("c28/client/cookies", format!("client holds cookies {:?} that were not sent (or none)", r.cookies)).labels(l.0);
            }
            Outcome::pass(true).labels(l.0)
        }
        Err(e) => {
            l.add("client:err");
            let should_succeed = p_offered && a_offered && !cookies.is_empty() && (*alg == ALG_256 || *alg == ALG_512);
            if should_succeed {
                return Outcome::fail(
                    "c28/client/rejected-valid-response",
                    format!("well-formed response with offered parameters ({proto:#x},{alg}) and {} cookies was rejected: {e}", cookies.len()),
                )
                .labels(l.0);
            }
            // non-trivial when the rejection is the property's "only if it offered them" clause
            Outcome::pass(!p_offered || !a_offered).labels(l.0)
        }
    }
}

// ---------------------------------------------------------------------------
// end to end

fn check_e2e(case: &Case) -> Outcome {
    let Case::EndToEnd { version, versions } = case else { unreachable!() };
    let mut l = Labels::default();
    l.add("end-to-end");
    let kex_c = ke_client(*version);
    let acc = accepted_ids(versions);
    let expect_p = client_offer(*version).into_iter().find(|p| acc.contains(p));
    let (client_res, server_ok, cookie_keys) = crate::rt::run_paused(async {
        let (c_io, s_io) = tls::duplex();
        let kex_s = KeyExchangeServer::new(server_config(versions, None, None)).expect("server config");
        let keyset = KeySetProvider::new(1).get();
        let client = async {
            kex_c
                .exchange_keys(c_io, "localhost".into(), [])
                .await
                .map(|mut r| {
                    let mut cookies = Vec::new();
                    while let Some(c) = r.nts.get_cookie() {
                        cookies.push(c);
                        if cookies.len() > 64 {
                            break;
                        }
                    }
                    let protocol_version = r.protocol_version;
                    let (c2s, s2c) = r.nts.get_keys();
                    ClientResult {
                        protocol_version,
                        c2s: c2s.key_bytes().to_vec(),
                        s2c: s2c.key_bytes().to_vec(),
                        cookies,
                    }
                })
                .map_err(|e| err_class(&e).to_string())
        };
        let server = async { kex_s.handle_connection(s_io, &keyset, || None::<()>).await.is_ok() };
        let (c, s) = tokio::join!(client, server);
        let keys: Vec<CookieKeys> = match &c {
            Ok(r) => r
                .cookies
                .iter()
                .map(|c| {
                    keyset
                        .decode_cookie_pub(c)
                        .ok()
                        .map(|d| (cookie_algorithm(&d), d.c2s.key_bytes().to_vec(), d.s2c.key_bytes().to_vec()))
                })
                .collect(),
            Err(_) => vec![],
        };
        (c, s, keys)
    });
    match (expect_p, client_res) {
        (Some(p), Ok(r)) => {
            l.add("e2e:negotiated");
            let pv_ok = matches!(
                (p, r.protocol_version),
                (PROTO_V4, ProtocolVersion::V4) | (PROTO_V5, ProtocolVersion::V5)
            );
            if !pv_ok {
                return Outcome::fail("c28/e2e/wrong-protocol", format!("expected {p:#x}, client reports {:?}", r.protocol_version)).labels(l.0);
            }
            if r.cookies.len() != 8 {
                return Outcome::fail("c28/e2e/cookie-count", format!("{} cookies", r.cookies.len())).labels(l.0);
            }
            // the client lists AES-SIV-CMAC-512 first and the server supports it
            let want = Some((ALG_512, r.c2s.clone(), r.s2c.clone()));
            if cookie_keys.iter().any(|k| *k != want) {
                return Outcome::fail("c28/e2e/cookie-keys", "a cookie does not decode to the client's keys / first offered algorithm").labels(l.0);
            }
            if !server_ok {
                return Outcome::fail("c28/e2e/server-err", "server reported an error after a successful exchange").labels(l.0);
            }
            Outcome::pass(true).labels(l.0)
        }
        (Some(p), Err(e)) => Outcome::fail("c28/e2e/failed", format!("overlap {p:#x} exists but the client failed: {e}")).labels(l.0),
        (None, Ok(r)) => Outcome::fail(
            "c28/e2e/negotiated-without-overlap",
            format!("client offers {:x?}, server accepts {acc:x?}, yet the client got {:?}", client_offer(*version), r.protocol_version),
        )
        .labels(l.0),
        (None, Err(_)) => Outcome::pass(true).labels(l.0).label("e2e:no-overlap"),
    }
}

impl Property for C28 {
    type Case = Case;
    const ID: &'static str = "C28";
    const RULE: &'static str = "Server cases: accepted-version lists (orders/subsets of 3,4,5 incl. empty) × client protocol lists (0..4 ids over {NTPv4, NTPv5 draft, unknown}) × algorithm lists (0..4 ids over {15,17,unknown}) plus ignorable records in rotated order, sent by a raw TLS client; Client cases: KeyExchangeClient configured V4 / V5 / auto against a raw TLS server answering a well-formed response naming any protocol/algorithm id with 0..10 cookies; End-to-end cases: real client × real server for every version/accepted-set pair. NON-TRIVIAL: server case with non-empty protocol and algorithm lists; client case where the client either succeeded or was handed an un-offered parameter; every end-to-end case.";
    const ASSUMPTIONS: &'static [&'static str] = &[
        "TLS-side oracle: the harness end of the session exports the keys itself (label EXPORTER-network-time-security, context = protocol id ‖ algorithm id ‖ 0/1, RFC 8915 §5.1) with rustls export_keying_material",
        "key length per algorithm: 15 → 32 bytes, 17 → 64 bytes (RFC 5297 / RFC 8915 §5.1)",
        "positive direction on the client (a well-formed response with offered parameters and ≥1 cookie is adopted) is checked as well, as in the crate's own round-trip tests",
        "the client's offer is read from the wire (what the harness TLS server received)",
        "without overlap the only requirement on the server is that no cookies are issued",
    ];
    const QUICK_CASES: u32 = 150_000;
    const THOROUGH_CASES: u32 = 3_700_000;

    fn strategy(_tier: Tier) -> BoxedStrategy<Case> {
        case()
    }

    fn enumerate(_tier: Tier) -> Vec<Case> {
        let mut v = Vec::new();
        let all_versions: Vec<Vec<u8>> = vec![vec![4], vec![5], vec![4, 5], vec![5, 4], vec![3], vec![]];
        for version in 0u8..4 {
            for versions in &all_versions {
                v.push(Case::EndToEnd {
                    version,
                    versions: versions.clone(),
                });
            }
            for proto in [PROTO_V4, PROTO_V5, 1u16] {
                for alg in [ALG_256, ALG_512, 16u16] {
                    v.push(Case::Client {
                        version,
                        proto,
                        alg,
                        cookies: vec![vec![1, 2, 3], vec![4; 100]],
                        server: None,
                        port: None,
                        extra: 0,
                        rot: 0,
                        denied: vec![],
                    });
                }
            }
        }
        for versions in &all_versions {
            for protos in [vec![PROTO_V4, PROTO_V5], vec![PROTO_V5, PROTO_V4], vec![1, PROTO_V5, PROTO_V4], vec![PROTO_V4], vec![PROTO_V5], vec![]] {
                for algs in [vec![ALG_256, ALG_512], vec![ALG_512, ALG_256], vec![16, ALG_512, ALG_256], vec![16], vec![]] {
                    v.push(Case::Server {
                        versions: versions.clone(),
                        protos: protos.clone(),
                        algs,
                        denied: vec![],
                        extra: 0,
                        rot: 0,
                        server_name: None,
                        port: None,
                    });
                }
            }
        }
        v
    }

    fn enumeration_note() -> Option<&'static str> {
        Some("complete matrix: client version {V4,V5,auto,upgraded} × server accepted set {[4],[5],[4,5],[5,4],[3],[]} end-to-end; client version × response protocol {v4,v5,unknown} × algorithm {15,17,unknown}; server accepted set × 6 protocol lists × 5 algorithm lists")
    }

    fn check(case: &Case) -> Outcome {
        match case {
            Case::Server { .. } => check_server(case),
            Case::Client { .. } => check_client(case),
            Case::EndToEnd { .. } => check_e2e(case),
        }
    }
}
