//! C40 — GPSd SOCK samples are validated before use.
//!
//! The real `SockSourceTask` is spawned (through `system.rs`'s entry point) on a real Unix
//! datagram socket with a fixed clock and a recording `SourceController`. Datagrams are sent one
//! at a time; after each one the (paused-clock) runtime is run until idle and the number of new
//! measurements is compared with an independent classification of the datagram bytes.
use crate::engine::*;
use ntp_proto::verif_hook as nh;
use ntp_proto::verif_hook::time as nt;
use ntp_proto::{
    ClockId, Measurement, NtpClock, NtpDuration, NtpLeapIndicator, NtpTimestamp, ObservableSourceTimedata,
    OneWaySource, PollInterval, SourceController,
};
use ntpd::verif_hook as dh;
use proptest::prelude::*;
use serde::{Deserialize, Serialize};
use std::collections::HashMap;
use std::sync::atomic::{AtomicU64, Ordering};
use std::sync::{Arc, Mutex, RwLock};

pub struct C40;

pub const SOCK_MAGIC: i32 = 0x534f434b; // "SOCK", gpsd timehint.c / chrony refclock_sock.c
pub const SAMPLE_SIZE: usize = 40;

#[derive(Debug, Clone, Serialize, Deserialize)]
pub enum Dgram {
    /// struct sock_sample { timeval tv; double offset; int pulse; int leap; int _pad; int magic; }
    /// encoded little endian, then truncated / extended with `fill` to `len` bytes
    Sample { tv_sec: i64, tv_usec: i64, offset_bits: u64, pulse: i32, leap: i32, pad: u32, magic: i32, len: u8, fill: u8 },
    Raw(Vec<u8>),
}

#[derive(Debug, Clone, Serialize, Deserialize)]
pub struct Case {
    /// value returned by the clock (raw NTP timestamp)
    pub clock: u64,
    pub dgrams: Vec<Dgram>,
}

pub fn encode(d: &Dgram) -> Vec<u8> {
    match d {
        Dgram::Raw(v) => v.clone(),
        Dgram::Sample { tv_sec, tv_usec, offset_bits, pulse, leap, pad, magic, len, fill } => {
            let mut b = Vec::with_capacity(80);
            b.extend(tv_sec.to_le_bytes());
            b.extend(tv_usec.to_le_bytes());
            b.extend(offset_bits.to_le_bytes());
            b.extend(pulse.to_le_bytes());
            b.extend(leap.to_le_bytes());
            b.extend(pad.to_le_bytes());
            b.extend(magic.to_le_bytes());
            b.resize(*len as usize, *fill);
            b
        }
    }
}

#[derive(Debug, Clone, Copy, PartialEq)]
enum Expect {
    /// must not become a measurement
    Reject(&'static str),
    /// must become exactly one measurement with this offset
    Accept { offset: f64, leap: i32 },
    /// valid by the statement, but the offset does not fit the 32-bit seconds range: 0 or 1 measurement
    Either,
}

/// independent reading of the statement: exact size, magic, zero pulse, finite offset
fn classify(b: &[u8]) -> Expect {
    if b.len() != SAMPLE_SIZE {
        return Expect::Reject(if b.len() < SAMPLE_SIZE { "short" } else { "long" });
    }
    let offset = f64::from_le_bytes(b[16..24].try_into().unwrap());
    let pulse = i32::from_le_bytes(b[24..28].try_into().unwrap());
    let leap = i32::from_le_bytes(b[28..32].try_into().unwrap());
    let magic = i32::from_le_bytes(b[36..40].try_into().unwrap());
    if magic != SOCK_MAGIC {
        return Expect::Reject("magic");
    }
    if pulse != 0 {
        return Expect::Reject("pulse");
    }
    if !offset.is_finite() {
        return Expect::Reject(if offset.is_nan() { "nan-offset" } else { "inf-offset" });
    }
    if offset.abs() < 2147483647.0 { Expect::Accept { offset, leap } } else { Expect::Either }
}

// ---------------------------------------------------------------------------
// collaborators handed to the real task

#[derive(Clone)]
struct FixedClock(u64);

#[derive(Debug)]
struct NoError;
impl std::fmt::Display for NoError {
    fn fmt(&self, f: &mut std::fmt::Formatter<'_>) -> std::fmt::Result {
        f.write_str("unsupported by the fixed clock")
    }
}
impl std::error::Error for NoError {}

impl NtpClock for FixedClock {
    type Error = NoError;
    fn now(&self) -> Result<NtpTimestamp, NoError> {
        Ok(nt::timestamp_from_raw(self.0))
    }
    fn set_frequency(&self, _: f64) -> Result<NtpTimestamp, NoError> {
        self.now()
    }
    fn get_frequency(&self) -> Result<f64, NoError> {
        Ok(0.0)
    }
    fn step_clock(&self, _: NtpDuration) -> Result<NtpTimestamp, NoError> {
        self.now()
    }
    fn disable_ntp_algorithm(&self) -> Result<(), NoError> {
        Ok(())
    }
    fn error_estimate_update(&self, _: NtpDuration, _: NtpDuration) -> Result<(), NoError> {
        Ok(())
    }
    fn status_update(&self, _: NtpLeapIndicator) -> Result<(), NoError> {
        Ok(())
    }
}

struct Recorder(Arc<Mutex<Vec<Measurement>>>);

impl SourceController for Recorder {
    fn handle_measurement(&mut self, measurement: Measurement) {
        self.0.lock().unwrap().push(measurement);
    }
    fn set_usable(&mut self, _usable: bool) {}
    fn desired_poll_interval(&self) -> PollInterval {
        PollInterval::from_byte(4)
    }
    fn observe(&self) -> ObservableSourceTimedata {
        ObservableSourceTimedata::default()
    }
}

static CASE_NO: AtomicU64 = AtomicU64::new(0);

fn valid_sample(offset: f64) -> Dgram {
    Dgram::Sample { tv_sec: 1_700_000_000, tv_usec: 5, offset_bits: offset.to_bits(), pulse: 0, leap: 0, pad: 0, magic: SOCK_MAGIC, len: 40, fill: 0 }
}

fn check_measurement(m: &Measurement, index: u64, clock: u64, offset: f64, leap: i32) -> Result<(), Failure> {
    let fail = |sig: &str, what: String| Err(Failure { signature: sig.into(), what });
    if nh::clock_id_raw(m.sender_id) != index || m.receiver_id != ClockId::SYSTEM {
        return fail("measurement/wrong-ids", format!("{:?} -> {:?}", m.sender_id, m.receiver_id));
    }
    if nt::timestamp_raw(m.receiver_ts) != clock {
        return fail("measurement/receiver-ts-not-clock-reading", format!("{:#x} vs clock {clock:#x}", nt::timestamp_raw(m.receiver_ts)));
    }
    // sender - receiver = -offset; offset * 2^32 is exact in f64 for |offset| < 2^31
    let want = -((offset * 4294967296.0).floor() as i128);
    let got = nt::duration_raw(m.sender_ts - m.receiver_ts) as i128;
    // from_seconds scales the fraction by 2^32-1 and truncates: at most 2 units away from the exact value
    if (want - got).abs() > 2 {
        return fail("measurement/offset-not-applied", format!("offset {offset:e} s: sender-receiver = {got} units, want {want}"));
    }
    let want_leap = match leap {
        0 => Some(NtpLeapIndicator::NoWarning),
        1 => Some(NtpLeapIndicator::Leap61),
        2 => Some(NtpLeapIndicator::Leap59),
        _ => None,
    };
    if let Some(w) = want_leap {
        if m.leap != w {
            return fail("measurement/leap-mismatch", format!("leap {leap} reported as {:?}", m.leap));
        }
    }
    Ok(())
}

async fn drive(case: &Case, path: &std::path::Path) -> Outcome {
    let index = 0x5EED_0000_0000_0001u64;
    let recorded = Arc::new(Mutex::new(Vec::new()));
    let (msg_for_system_sender, _msg_rx) = tokio::sync::mpsc::channel::<dh::MsgForSystem>(1);
    let snapshots = Arc::new(RwLock::new(HashMap::new()));
    let handle = dh::spawn_sock_source(
        nh::clock_id_from_raw(index),
        path.to_path_buf(),
        FixedClock(case.clock),
        dh::SourceChannels { msg_for_system_sender, source_snapshots: snapshots.clone() },
        OneWaySource::new(Recorder(recorded.clone())),
    );
    let sender = std::os::unix::net::UnixDatagram::unbound().expect("harness: unbound datagram socket");
    sender.set_nonblocking(true).expect("harness: nonblocking");

    // paused clock: the sleep returns only after the runtime went idle, i.e. after the task consumed
    // everything that was queued on its socket (AF_UNIX delivery is synchronous with send)
    // (three rounds: the timer wake-up of the first sleep may be served before the task that the same
    // idle period made runnable; during the second sleep that task runs to its next `recv`.)
    let flush = || async {
        for _ in 0..3 {
            tokio::time::sleep(std::time::Duration::from_millis(1)).await;
        }
    };
    flush().await;

    let mut labels = Labels::default();
    let mut nontrivial = false;
    let mut seen = 0usize;
    let sentinel = valid_sample(0.25);
    for (i, d) in case.dgrams.iter().chain(std::iter::once(&sentinel)).enumerate() {
        let is_sentinel = i == case.dgrams.len();
        let bytes = encode(d);
        match sender.send_to(&bytes, path) {
            Ok(n) if n == bytes.len() => {}
            other => {
                if handle.is_finished() {
                    return Outcome::fail("task-died", format!("the source task ended after datagram #{i}"));
                }
                let _ = other;
                handle.abort();
                return Outcome::pass(false).label("discard-send-failed");
            }
        }
        flush().await;
        if handle.is_finished() {
            return Outcome::fail("task-died", format!("the source task ended while handling datagram #{i} ({} bytes)", bytes.len()));
        }
        let mut rec = recorded.lock().unwrap().clone();
        if rec.len() == seen && matches!(classify(&bytes), Expect::Accept { .. }) {
            // never report "not measured" because of scheduling: give the task a lot more (virtual) time
            for _ in 0..200 {
                flush().await;
                rec = recorded.lock().unwrap().clone();
                if rec.len() != seen || handle.is_finished() {
                    break;
                }
            }
        }
        let new = &rec[seen..];
        seen = rec.len();
        let exp = classify(&bytes);
        match exp {
            Expect::Reject(why) => {
                if !new.is_empty() {
                    handle.abort();
                    return Outcome::fail(
                        format!("invalid-datagram-became-measurement/{why}"),
                        format!("datagram #{i} ({} bytes, {why}) produced {} measurement(s): {:?}", bytes.len(), new.len(), new),
                    );
                }
                labels.add(match why {
                    "short" => "reject-short",
                    "long" => "reject-long",
                    "magic" => "reject-magic",
                    "pulse" => "reject-pulse",
                    "nan-offset" => "reject-nan",
                    _ => "reject-inf",
                });
                if bytes.len() > SAMPLE_SIZE && matches!(classify(&bytes[..SAMPLE_SIZE]), Expect::Accept { .. }) {
                    labels.add("long-with-valid-prefix");
                }
                nontrivial = true;
            }
            Expect::Accept { offset, leap } => {
                if new.len() != 1 {
                    handle.abort();
                    let sig = if is_sentinel { "valid-sample-after-sequence-not-measured" } else { "valid-sample-not-measured" };
                    return Outcome::fail(sig, format!("datagram #{i} (valid, offset {offset:e}) produced {} measurements", new.len()));
                }
                if let Err(f) = check_measurement(&new[0], index, case.clock, offset, leap) {
                    handle.abort();
                    return Outcome { failure: Some(f), labels: vec![], nontrivial: true };
                }
                if !is_sentinel {
                    labels.add("accept");
                    labels.add_if(offset < 0.0, "accept-negative-offset");
                    labels.add_if(offset != 0.0 && offset.abs() < 1e-9, "accept-tiny-offset");
                    labels.add_if(!(0..=2).contains(&leap), "accept-odd-leap");
                    nontrivial = true;
                }
            }
            Expect::Either => {
                if new.len() > 1 {
                    handle.abort();
                    return Outcome::fail("one-datagram-many-measurements", format!("datagram #{i} produced {} measurements", new.len()));
                }
                labels.add("huge-finite-offset");
            }
        }
    }
    handle.abort();
    labels.add(match case.dgrams.len() {
        0 => "seq=0",
        1 => "seq=1",
        _ => "seq>1",
    });
    Outcome::pass(nontrivial).labels(labels.0)
}

// ---------------------------------------------------------------------------

fn offset_bits() -> BoxedStrategy<u64> {
    prop_oneof![
        4 => (-1.0f64..1.0).prop_map(f64::to_bits),
        2 => (-1e5f64..1e5).prop_map(f64::to_bits),
        2 => prop::sample::select(vec![
            0.0f64, -0.0, 318975.704798661, 1e-12, -1e-12, 5e-324, -5e-324, f64::MIN_POSITIVE, 2147483646.5, -2147483646.5,
            2147483647.0, 2147483648.0, -2147483648.0, -2147483649.0, 1e300, -1e300, f64::MAX, f64::MIN, 4294967296.0, 0.9999999999, -0.9999999999,
        ]).prop_map(f64::to_bits),
        3 => prop::sample::select(vec![
            f64::NAN.to_bits(), f64::INFINITY.to_bits(), f64::NEG_INFINITY.to_bits(),
            0x7ff8_0000_0000_0001, 0xfff8_0000_0000_0000, 0x7ff0_0000_0000_0001, 0xffff_ffff_ffff_ffff, 0x7ff4_0000_dead_beef,
        ]),
        1 => any::<u64>(),
    ]
    .boxed()
}

fn dgram() -> BoxedStrategy<Dgram> {
    let sample = (
        (prop_oneof![Just(1_700_000_000i64), any::<i64>()], prop_oneof![0i64..1_000_000, any::<i64>()]),
        offset_bits(),
        prop_oneof![6 => Just(0i32), 1 => Just(1i32), 1 => Just(-1i32), 1 => any::<i32>(),
            // non-zero values whose low byte (or low half) is zero: a reader that looks at one byte sees 0
            1 => prop::sample::select(vec![0x100i32, 0x1_0000, 0x100_0000, i32::MIN, -256, 0x7fff_ff00, 0x00ff_0000])],
        prop_oneof![3 => 0i32..=3, 1 => -1i32..=5, 1 => any::<i32>(), 1 => prop::sample::select(vec![0x100i32, 0x101, 0x102, 0x1_0001, i32::MIN, 0x7fff_ff02])],
        prop_oneof![3 => Just(0u32), 1 => any::<u32>()],
        prop_oneof![
            8 => Just(SOCK_MAGIC),
            1 => prop::sample::select(vec![SOCK_MAGIC + 1, SOCK_MAGIC - 1, 0x4b434f53, 0, -1, SOCK_MAGIC ^ (1 << 31), SOCK_MAGIC ^ 0x100]),
            1 => any::<i32>(),
        ],
        prop_oneof![6 => Just(40u8), 1 => Just(39u8), 2 => 41u8..=80, 1 => 0u8..40, 1 => Just(41u8)],
        prop_oneof![Just(0u8), any::<u8>()],
    )
        .prop_map(|(tv, offset_bits, pulse, leap, pad, magic, len, fill)| Dgram::Sample {
            tv_sec: tv.0,
            tv_usec: tv.1,
            offset_bits,
            pulse,
            leap,
            pad,
            magic,
            len,
            fill,
        });
    prop_oneof![
        9 => sample,
        1 => prop::collection::vec(any::<u8>(), 0..=80).prop_map(Dgram::Raw),
    ]
    .boxed()
}

impl Property for C40 {
    type Case = Case;
    const ID: &'static str = "C40";
    const RULE: &'static str = "sequences of 1..6 datagrams sent over a real AF_UNIX datagram socket to the real SockSourceTask (fixed clock, recording SourceController): 40-byte gpsd sock_sample encodings with magic from {SOCK, SOCK±1, byte-swapped, bit flips, random}, pulse from {0, ±1, random, non-zero multiples of 2^8 / 2^16 / 2^24}, offset from {small/large finite, ±0, subnormal, ±2^31 boundary, 1e300, NaN payloads, ±inf, random bits}, leap −1..5/random/values equal to 0..2 only in their low byte, then truncated or extended to 0..80 bytes, plus raw random byte strings of 0..80 bytes. After each datagram the runtime is run until idle and the number of new measurements must be 0 for every datagram that is not (size 40 ∧ magic ∧ pulse 0 ∧ finite offset), exactly 1 (receiver_ts = clock, sender−receiver = −offset ± 2 units, leap 0/1/2 mapped) for valid ones with |offset| < 2^31 s; a trailing valid sample must still be measured and the task must be alive. Non-trivial = at least one datagram with a decided expectation (distinct = distinct datagram sequence + clock)";
    const ASSUMPTIONS: &'static [&'static str] = &[
        "the clock given to the task never fails (a failing clock makes the daemon exit by design)",
        "valid samples whose finite offset does not fit ±2^31 s may or may not be used (the statement only forbids using invalid ones); the converse direction (valid => measured) is required only for |offset| < 2^31 s",
        "tokio paused clock: a 1 ms virtual sleep returns only after the runtime was idle, so the task has drained its socket; AF_UNIX datagram delivery is synchronous with send",
        "measurement content tolerance: 2 units of 2^-32 s (from_seconds scales the fraction by 2^32-1 and truncates)",
    ];
    const QUICK_CASES: u32 = 150_000;
    const THOROUGH_CASES: u32 = 12_000_000;

    fn strategy(_tier: Tier) -> BoxedStrategy<Case> {
        (crate::gens::u64_interesting(), prop::collection::vec(dgram(), 1..=6))
            .prop_map(|(clock, dgrams)| Case { clock, dgrams })
            .boxed()
    }

    fn enumerate(_tier: Tier) -> Vec<Case> {
        let clock = 0xEC00_0000_8000_0000u64;
        let mut v = Vec::new();
        let base = |f: &dyn Fn(&mut Dgram)| {
            let mut d = valid_sample(318975.704798661);
            f(&mut d);
            d
        };
        macro_rules! with {
            ($field:ident = $val:expr) => {
                base(&|d: &mut Dgram| {
                    if let Dgram::Sample { $field, .. } = d {
                        *$field = $val;
                    }
                })
            };
        }
        v.push(Case { clock, dgrams: vec![valid_sample(318975.704798661)] });
        for bits in [f64::NAN.to_bits(), f64::INFINITY.to_bits(), f64::NEG_INFINITY.to_bits(), 0xfff8_0000_0000_0001] {
            v.push(Case { clock, dgrams: vec![with!(offset_bits = bits)] });
        }
        for l in [0u8, 1, 39, 41, 48, 80] {
            v.push(Case { clock, dgrams: vec![with!(len = l)] });
        }
        v.push(Case { clock, dgrams: vec![with!(magic = SOCK_MAGIC + 1)] });
        v.push(Case { clock, dgrams: vec![with!(pulse = 1)] });
        v.push(Case { clock: u64::MAX, dgrams: vec![valid_sample(-1.5), valid_sample(1.5)] });
        v
    }

    fn enumeration_note() -> Option<&'static str> {
        Some("one valid sample; NaN/±inf offsets; lengths 0,1,39,41,48,80 of an otherwise valid sample; magic+1; pulse 1; era-boundary clock")
    }

    fn check(case: &Case) -> Outcome {
        let n = CASE_NO.fetch_add(1, Ordering::Relaxed);
        let path = std::env::temp_dir().join(format!("vc40-{}-{n}.sock", std::process::id()));
        let _ = std::fs::remove_file(&path);
        let out = crate::rt::run_paused(drive(case, &path));
        let _ = std::fs::remove_file(&path);
        out
    }
}
