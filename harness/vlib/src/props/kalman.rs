//! C01, C02, C03, C04, C06 (+ the clock-filter clause of C10) — oracles over the Kalman world.
use crate::engine::*;
use crate::w_kalman::*;
use ntp_proto::verif_hook as nh;
use ntp_proto::verif_hook::kalman as kh;
use ntp_proto::{ClockId, NtpDuration};
use proptest::prelude::*;
use serde::{Deserialize, Serialize};

macro_rules! bail {
    ($sig:expr, $($fmt:tt)*) => {
        return Outcome::fail($sig, format!($($fmt)*))
    };
}

fn raw(seconds: f64) -> i64 {
    nh::time::duration_raw(NtpDuration::from_seconds(seconds))
}

fn ops_strategy(n_src: u8, max_ops: usize, near: bool, with_time: bool, with_meas: bool) -> BoxedStrategy<Vec<KOp>> {
    let snap = (0..n_src, lattice_snap(near)).prop_map(|(src, s)| KOp::Snap { src, s });
    let usable = (0..n_src, prop_oneof![3 => Just(true), 1 => Just(false)]).prop_map(|(src, usable)| KOp::Usable { src, usable });
    let mut choices: Vec<(u32, BoxedStrategy<KOp>)> = vec![(10, snap.boxed()), (4, usable.boxed()), (1, (0..n_src).prop_map(|src| KOp::Remove { src }).boxed())];
    if with_time {
        choices.push((2, Just(KOp::TimeUpdate).boxed()));
        choices.push((2, prop_oneof![0u32..2000, 0u32..100_000].prop_map(|ms| KOp::Advance { ms }).boxed()));
    }
    if with_meas {
        choices.push((6, meas_strategy(n_src)));
    }
    prop::collection::vec(proptest::strategy::Union::new_weighted(choices), 1..=max_ops).boxed()
}

fn meas_strategy(n_src: u8) -> BoxedStrategy<KOp> {
    (
        0..n_src,
        prop_oneof![
            4 => -0.01f64..0.01,
            3 => prop::sample::select(vec![0.0f64, 0.001, -0.001, 0.25]),
            2 => -1.0f64..1.0,
            1 => -2.0e9f64..2.0e9,
            1 => prop::sample::select(vec![0.0f64, 2147483647.0, -2147483648.0, 1e-9, -1e-9, 1000.0, -1000.0]),
        ],
        prop_oneof![4 => 0.0f64..0.05, 1 => 0.0f64..10.0, 1 => Just(0.0f64), 1 => -1.0f64..0.0, 1 => 0.0f64..2.0e9],
        prop_oneof![3 => 0.0f64..0.1, 1 => 0.0f64..60000.0],
        prop_oneof![3 => 0.0f64..0.1, 1 => 0.0f64..60000.0],
        prop_oneof![6 => Just(0u8), 1 => 0u8..5],
        prop_oneof![4 => 1u32..70_000, 2 => 1000u32..2_000_000, 1 => Just(1u32), 1 => 1u32..131_072_000],
    )
        .prop_map(|(src, offset, delay, root_delay, root_disp, leap, dt_ms)| KOp::Meas { src, offset, delay, root_delay, root_disp, leap, dt_ms })
        .boxed()
}

/// With a periodic (PPS-like) source present, keep offsets below a day: every step makes the
/// controller walk a periodic estimate back period by period, so decades-sized offsets only cost
/// seconds of CPU per case without adding behaviour.
fn tame_periodic(mut c: KCase) -> KCase {
    if c.sources.iter().any(|s| matches!(s, SrcKind::OneWay { period: Some(_), .. })) {
        for op in &mut c.ops {
            match op {
                KOp::Meas { offset, .. } => *offset = offset.clamp(-86_400.0, 86_400.0),
                KOp::Snap { s, .. } => {
                    if let OffsetSel::Abs(v) = &mut s.offset {
                        *v = v.clamp(-86_400.0, 86_400.0);
                    }
                    if let OffsetSel::Near { .. } = s.offset {
                        let lim = |t: &mut Option<f64>| if let Some(v) = t { *v = v.min(86_400.0) };
                        lim(&mut c.sync.startup_fwd);
                        lim(&mut c.sync.startup_bwd);
                        lim(&mut c.sync.single_fwd);
                        lim(&mut c.sync.single_bwd);
                    }
                }
                _ => {}
            }
        }
    }
    c
}

fn sources_strategy() -> BoxedStrategy<Vec<SrcKind>> {
    prop::collection::vec(
        prop_oneof![
            5 => Just(SrcKind::TwoWay),
            1 => (prop_oneof![Just(None), Just(Some(1.0f64))], 1e-9f64..1e-3, 1e-9f64..1e-2).prop_map(|(period, noise, accuracy)| SrcKind::OneWay { period, noise, accuracy }),
        ],
        1..=4,
    )
    .boxed()
}

fn kcase_strategy(finite_thresholds: bool, inert: bool, near: bool, with_time: bool, with_meas: bool, max_ops: usize) -> BoxedStrategy<KCase> {
    (sync_strategy(finite_thresholds), algo_strategy(inert), prop_oneof![3 => Just(0.0f64), 1 => -1e-3f64..1e-3, 1 => Just(5e-4f64)], sources_strategy(), (0i8..=17, 0i8..=17, 0i8..=17), crate::gens::u64_interesting())
        .prop_flat_map(move |(sync, algo, init_freq, sources, (a, b, c), start_time)| {
            let n = sources.len() as u8;
            let mut v = [a, b, c];
            v.sort();
            (Just((sync, algo, init_freq, sources, v, start_time)), ops_strategy(n, max_ops, near, with_time, with_meas))
        })
        .prop_map(|((sync, algo, init_freq, sources, v, start_time), ops)| tame_periodic(KCase { sync, algo, init_freq, sources, poll_min: v[0], poll_max: v[2], poll_initial: v[1], start_time, ops, closed_loop: false }))
        .boxed()
}

// ---------------------------------------------------------------------------
// C01

pub struct C01;
impl Property for C01 {
    type Case = KCase;
    const ID: &'static str = "C01";
    const RULE: &'static str = "threshold configurations (each side of startup/single-step from {none, 0, 0.01, 1, 1800, 1e9, random}, accumulated from {none, 0.5, 10, 4000, random}), algorithm settings (step threshold, steering thresholds/leftovers incl. 0) and 1-4 sources × up to 40 events: synthetic snapshots whose combined offset lands just inside / just outside a threshold (threshold·(1±{1e-9,1e-6,0.01,0.5}), ±1799/±1801, ±2e9), real measurements through real source controllers, usability flips, removals, time advance, end-of-slew; EVERY case runs in a forked child so the real process::exit(70) is observed; oracle = invariant over the recorded step_clock calls with the harness's own notion of 'synchronised' (an earlier update reported used sources): startup steps within the startup thresholds, later steps within the single-step thresholds and Σ|step| ≤ accumulated; the child may only end by completing or by exit status 70; non-trivial = a recorded step or an exit(70)";
    const ASSUMPTIONS: &'static [&'static str] = &[
        "a step equal to a threshold is accepted (the statement forbids steps outside the thresholds); the mock clock never fails",
        "synthetic snapshots are finite with positive-definite covariance and non-negative delay",
    ];
    const QUICK_CASES: u32 = 16_000;
    const THOROUGH_CASES: u32 = 1_000_000;
    const MAX_SHRINK_ITERS: u32 = 1500;
    fn strategy(_t: Tier) -> BoxedStrategy<KCase> {
        kcase_strategy(true, false, true, true, true, 40)
    }
    fn check(case: &KCase) -> Outcome {
        let (ops, dangling, end) = run_forked(case);
        let mut labels = Labels::default();
        let mut synchronised = false;
        let mut accumulated: i128 = 0;
        let mut steps = 0usize;
        let lim = |v: Option<f64>| v.map(raw);
        let (sf, sb, gf, gb) = (lim(case.sync.startup_fwd), lim(case.sync.startup_bwd), lim(case.sync.single_fwd), lim(case.sync.single_bwd));
        let acc = lim(case.sync.accumulated);
        let mut judge_step = |d: i64, synchronised: bool, accumulated: &mut i128, labels: &mut Labels| -> Option<(String, String)> {
            let (f, b, phase) = if synchronised { (gf, gb, "single-step") } else { (sf, sb, "startup") };
            if let Some(f) = f {
                if d > f {
                    return Some((format!("{phase}-forward-threshold-exceeded"), format!("step {d} units > forward threshold {f}")));
                }
                labels.add_if(d > 0 && (f - d) as f64 <= 0.01 * f as f64, "step-within-1pct-of-threshold");
            }
            if let Some(b) = b {
                if d < -b {
                    return Some((format!("{phase}-backward-threshold-exceeded"), format!("step {d} units < -backward threshold {b}")));
                }
                labels.add_if(d < 0 && (b + d) as f64 <= 0.01 * b as f64, "step-within-1pct-of-threshold");
            }
            if synchronised {
                *accumulated += (d as i128).abs();
                if let Some(a) = acc {
                    if *accumulated > a as i128 {
                        return Some(("accumulated-step-threshold-exceeded".into(), format!("sum of absolute post-startup steps {} units > {a}", *accumulated)));
                    }
                }
            }
            labels.add(if d < 0 { "backward-step" } else { "forward-step" });
            labels.add(if synchronised { "post-startup-step" } else { "startup-step" });
            None
        };
        for (events, used) in ops.iter() {
            for e in events {
                if let ClockEvent::Step { raw: d } = e {
                    steps += 1;
                    if let Some((sig, what)) = judge_step(*d, synchronised, &mut accumulated, &mut labels) {
                        return Outcome::fail(sig, what);
                    }
                }
            }
            if *used {
                synchronised = true;
            }
        }
        for e in &dangling {
            if let ClockEvent::Step { raw: d } = e {
                steps += 1;
                if let Some((sig, what)) = judge_step(*d, synchronised, &mut accumulated, &mut labels) {
                    return Outcome::fail(sig, what);
                }
            }
        }
        match &end {
            ChildEnd::Completed => {}
            ChildEnd::Exit(70) => labels.add("exit-70"),
            ChildEnd::Exit(c) => bail!("daemon-ended-abnormally", "child exit status {c}"),
            ChildEnd::Signal(s) => bail!("daemon-ended-abnormally", "child killed by signal {s}"),
            ChildEnd::Panic(m) => return Outcome::fail(panic_signature(m), format!("panic: {m}")),
        }
        labels.add_if(steps >= 2 && synchronised, "several-steps");
        let mut out = Outcome::pass(steps > 0 || end == ChildEnd::Exit(70));
        out.labels = labels.0;
        out
    }
}

// ---------------------------------------------------------------------------
// C02

pub struct C02;
impl Property for C02 {
    type Case = KCase;
    const ID: &'static str = "C02";
    const RULE: &'static str = "as C01 (panic thresholds disabled so the process never exits) plus initial kernel frequency in [-1e-3, 1e-3] (also outside the limit), maximum_frequency_steer and slew limits over 1e-9..1e-2, slew_minimum_duration > 0, end-of-slew events; oracle = every recorded set_frequency(f) is finite with |f| ≤ max·(1+1e-12) and after every event the slew frequency (read through the hook) is finite with |desired| ≤ slew max·(1+1e-12); non-trivial = at least one set_frequency";
    const ASSUMPTIONS: &'static [&'static str] = &["tolerance only for the floating point clamp identity", "positive limits (as the statement requires)"];
    const QUICK_CASES: u32 = 60_000;
    const THOROUGH_CASES: u32 = 3_000_000;
    fn strategy(_t: Tier) -> BoxedStrategy<KCase> {
        kcase_strategy(false, false, true, true, true, 40)
    }
    fn check(case: &KCase) -> Outcome {
        let ops = crate::rt::run_paused(run_case(case, None));
        let mut labels = Labels::default();
        let mut n = 0;
        let max = case.algo.max_freq_steer;
        let smax = case.algo.slew_max_freq;
        for (i, o) in ops.iter().enumerate() {
            for e in &o.events {
                if let ClockEvent::SetFreq { bits } = e {
                    let f = f64::from_bits(*bits);
                    n += 1;
                    if !f.is_finite() {
                        bail!("non-finite-frequency-applied", "op {i}: set_frequency({f})");
                    }
                    if f.abs() > max * (1.0 + 1e-12) {
                        bail!("frequency-beyond-maximum-steer", "op {i}: set_frequency({f:e}) with maximum {max:e}");
                    }
                    labels.add_if(f.abs() >= max * (1.0 - 1e-12), "clamped");
                }
            }
            if !o.desired_freq.is_finite() || o.desired_freq.abs() > smax * (1.0 + 1e-12) {
                bail!("slew-frequency-beyond-maximum", "op {i}: slew frequency {:e} with maximum {smax:e}", o.desired_freq);
            }
            labels.add_if(o.desired_freq != 0.0, "slew-started");
        }
        labels.add_if(case.init_freq.abs() > max, "initial-frequency-outside-limit");
        let mut out = Outcome::pass(n > 0);
        out.labels = labels.0;
        out
    }
}

// ---------------------------------------------------------------------------
// C03 / C04 shared: direct calls + inert end-to-end histories

#[derive(Debug, Clone, Serialize, Deserialize)]
pub enum SelCase {
    Direct { min_agree: u8, algo: AlgoSpec, snaps: Vec<SnapSpec>, reverse: bool },
    History(KCase),
    /// history with steering, time and real measurements (intervals not reconstructed)
    Dynamic(KCase),
    /// a real association (source world): the leap / synchronisation status a source hands to the algorithm is
    /// the one its answers report on the wire (NTPv3/4 LI, NTPv5 LI + synchronised flag)
    Wire(crate::w_source::SourceCase),
}

/// the wire clause shared by C03 and C04 (the judge is the source world's; only its leap clause counts here)
fn check_wire_leap(sc: &crate::w_source::SourceCase) -> Outcome {
    let o = super::source::check_source(sc, super::source::Which::C08);
    if o.failure.as_ref().is_some_and(|f| f.signature == "measurement-leap-differs-from-wire") {
        return Outcome { failure: o.failure, labels: vec!["wire"], nontrivial: true };
    }
    let measured = o.labels.iter().any(|l| *l == "delivery-accepted");
    Outcome::pass(measured).label("wire")
}

fn to_snap(i: usize, s: &SnapSpec, sync: &SyncSpec) -> kh::Snap {
    let sigma = s.sigma.abs().max(1e-9);
    let fs = s.freq_sigma.abs().max(1e-9);
    let t = nh::time::timestamp_from_raw(1 << 40);
    kh::Snap {
        id: ClockId::new(),
        offset: { let o = resolve_offset(s.offset, sync); if s.periodic { o - o.round() } else { o } },
        offset_var: sigma * sigma,
        cov: 0.0,
        freq: s.freq,
        freq_var: fs * fs,
        wander: s.wander.abs(),
        delay: s.delay.abs(),
        period: s.periodic.then_some(1.0),
        source_uncertainty: NtpDuration::from_seconds(s.src_unc.abs()),
        source_delay: NtpDuration::from_seconds(s.src_delay.abs() + i as f64 * 1e-6),
        leap: leap_from(s.leap),
        time: t,
        last_update: t,
    }
}

struct Iv {
    lo: f64,
    hi: f64,
}

/// eligible voters and the best closed-interval coverage
fn consensus(cands: &[(f64 /*offset*/, f64 /*var*/, f64 /*delay*/, bool /*periodic*/, u8 /*leap*/)], algo: &AlgoSpec) -> (usize, usize) {
    let ivs: Vec<Iv> = cands
        .iter()
        .filter(|c| !c.3 && c.4 != 4)
        .filter_map(|c| {
            let r = c.1.sqrt() * algo.stat_weight + c.2 * algo.delay_weight;
            (r <= algo.max_source_uncertainty).then_some(Iv { lo: c.0 - r, hi: c.0 + r })
        })
        .collect();
    let mut best = 0;
    for p in ivs.iter().flat_map(|i| [i.lo, i.hi]) {
        let k = ivs.iter().filter(|i| i.lo <= p && p <= i.hi).count();
        best = best.max(k);
    }
    (ivs.len(), best)
}

fn radius(s: &(f64, f64, f64, bool, u8), algo: &AlgoSpec) -> f64 {
    s.1.sqrt() * algo.stat_weight + s.2 * algo.delay_weight
}

fn sel_strategy(histories: BoxedStrategy<KCase>, dynamic: bool) -> BoxedStrategy<SelCase> {
    prop_oneof![
        3 => (1u8..6, algo_strategy(true), prop::collection::vec(lattice_snap(false), 0..10), any::<bool>())
            .prop_map(|(min_agree, algo, snaps, reverse)| SelCase::Direct { min_agree, algo, snaps, reverse }),
        2 => histories.prop_map(SelCase::History),
        if dynamic { 2 } else { 0 } => kcase_strategy(false, false, true, true, true, 40).prop_map(SelCase::Dynamic),
        1 => crate::w_source::case_strategy(14).prop_map(SelCase::Wire),
    ]
    .boxed()
}

fn static_history() -> BoxedStrategy<KCase> {
    // inert steering, no time advance, static snapshots: what the controller holds is exactly what was injected
    kcase_strategy(false, true, false, false, false, 30)
        .prop_map(|mut c| {
            for op in &mut c.ops {
                if let KOp::Snap { s, .. } = op {
                    s.freq = 0.0;
                    s.corr = 0.0;
                    s.wander = 0.0;
                    if s.freq_sigma == 0.0 {
                        s.freq_sigma = 1e-6;
                    }
                }
            }
            c
        })
        .boxed()
}

/// walk an inert history; calls `f(op index, candidates (src, tuple, usable), result)` for every op that reported
fn walk_history(case: &KCase, mut f: impl FnMut(usize, &[(usize, (f64, f64, f64, bool, u8))], &OpResult, Option<u8>) -> Result<(), Failure>) -> Result<usize, Failure> {
    let ops = crate::rt::run_paused(run_case(case, None));
    let mut reported = 0;
    let mut prev_leap: Option<u8> = Some(3); // TimeSnapshot::default() is Unknown
    for (i, (op, o)) in case.ops.iter().zip(ops.iter()).enumerate() {
        if o.used.is_some() || matches!(op, KOp::Snap { .. }) {
            // candidates at decision time = held before, with this op's snapshot replacing the source's
            let mut cands: Vec<(usize, (f64, f64, f64, bool, u8))> = Vec::new();
            for (src, s, usable) in &o.held_before {
                let mut snap = s.clone();
                if let KOp::Snap { src: sidx, s: spec } = op {
                    if *sidx as usize % case.sources.len() == *src {
                        let k = to_snap(0, spec, &case.sync);
                        snap = Some(SnapView { src: *src, offset: k.offset, offset_var: k.offset_var, cov: 0.0, freq: 0.0, freq_var: k.freq_var, wander: 0.0, delay: k.delay, periodic: k.period.is_some(), leap: leap_code(k.leap) });
                    }
                }
                if let (Some(s), true) = (snap, *usable) {
                    cands.push((*src, (s.offset, s.offset_var, s.delay, s.periodic, s.leap)));
                }
            }
            if o.used.is_some() {
                reported += 1;
            }
            f(i, &cands, o, prev_leap)?;
        }
        if let Some(l) = o.snapshot_leap {
            prev_leap = Some(l);
        }
    }
    Ok(reported)
}

pub struct C03;
impl Property for C03 {
    type Case = SelCase;
    const ID: &'static str = "C03";
    const RULE: &'static str = "(i) direct calls of the selection on 0-9 synthetic snapshots whose offsets/radii come from a small lattice (touching, nested, identical, disjoint intervals), leap flags incl. unsynchronised/unknown, periodic sources, minimum-agreeing-sources 1-5, weights, maximum source uncertainty, both candidate orders; (ii) the same snapshots delivered to the real controller with per-source usable flags and removals (steering thresholds raised so the held snapshots stay exactly what was injected); oracle = brute force over closed intervals: a non-empty selection / a used-sources report implies a point covered by ≥ minimum and by a strict majority of the eligible (usable, synchronised, non-periodic, radius ≤ max) sources, every selected/used source is usable, synchronised and within the uncertainty limit; verdict invariant under reversing the candidates when no two endpoints coincide; non-trivial = ≥2 eligible sources";
    const ASSUMPTIONS: &'static [&'static str] = &["only the direction stated by the property is asserted (steering ⇒ consensus)", "periodic sources may contribute to the estimate but never vote (as documented in the code)"];
    const QUICK_CASES: u32 = 100_000;
    const THOROUGH_CASES: u32 = 5_000_000;
    fn strategy(_t: Tier) -> BoxedStrategy<SelCase> {
        sel_strategy(static_history(), true)
    }
    fn check(case: &SelCase) -> Outcome {
        let mut labels = Labels::default();
        match case {
            SelCase::Wire(sc) => check_wire_leap(sc),
            SelCase::Direct { min_agree, algo, snaps, reverse } => {
                let sync = SyncSpec { min_agree: *min_agree, startup_fwd: None, startup_bwd: None, single_fwd: None, single_bwd: None, accumulated: None };
                let mut ks: Vec<kh::Snap> = snaps.iter().enumerate().map(|(i, s)| to_snap(i, s, &sync)).collect();
                if *reverse {
                    ks.reverse();
                }
                let sc = sync_config(&sync);
                let ac = algo_config(algo);
                let sel = kh::select_ids(&sc, &ac, &ks);
                let tuples: Vec<(f64, f64, f64, bool, u8)> = ks.iter().map(|k| (k.offset, k.offset_var, k.delay, k.period.is_some(), leap_code(k.leap))).collect();
                let (eligible, best) = consensus(&tuples, algo);
                labels.add("direct");
                labels.add_if(!sel.is_empty(), "selected");
                labels.add_if(best * 2 == eligible && eligible > 0, "exactly-half");
                if !sel.is_empty() {
                    if best < *min_agree as usize || best * 2 <= eligible {
                        bail!("selection-without-majority-consensus", "selected {} of {} candidates but the best common point is covered by {best} of {eligible} eligible sources (minimum {min_agree})", sel.len(), ks.len());
                    }
                    for id in &sel {
                        let k = ks.iter().find(|k| k.id == *id).unwrap();
                        let t = (k.offset, k.offset_var, k.delay, k.period.is_some(), leap_code(k.leap));
                        if t.4 == 4 {
                            bail!("unsynchronised-source-selected", "leap {}", t.4);
                        }
                        if radius(&t, algo) > algo.max_source_uncertainty {
                            bail!("too-uncertain-source-selected", "radius {} > {}", radius(&t, algo), algo.max_source_uncertainty);
                        }
                    }
                }
                // permutation invariance when no endpoints coincide
                let mut ends: Vec<f64> = tuples.iter().filter(|t| !t.3 && t.4 != 4).flat_map(|t| { let r = radius(t, algo); [t.0 - r, t.0 + r] }).collect();
                ends.sort_by(|a, b| a.total_cmp(b));
                let distinct = ends.windows(2).all(|w| w[0] != w[1]);
                if distinct {
                    let mut rev = ks.clone();
                    rev.reverse();
                    let mut s2 = kh::select_ids(&sc, &ac, &rev);
                    let mut s1 = sel.clone();
                    s1.sort();
                    s2.sort();
                    if s1 != s2 {
                        bail!("selection-depends-on-candidate-order", "{} vs {} selected", s1.len(), s2.len());
                    }
                } else {
                    labels.add("coinciding-endpoints");
                }
                let mut out = Outcome::pass(eligible >= 2);
                out.labels = labels.0;
                out
            }
            SelCase::Dynamic(k) => {
                labels.add("dynamic");
                let ops = crate::rt::run_paused(run_case(k, None));
                let mut usable = vec![false; k.sources.len()];
                let mut removed = vec![false; k.sources.len()];
                let mut has_data = vec![false; k.sources.len()];
                let mut last_leap = vec![3u8; k.sources.len()];
                let mut nontrivial = false;
                for (i, (op, o)) in k.ops.iter().zip(ops.iter()).enumerate() {
                    match op {
                        KOp::Usable { src, usable: u } => usable[*src as usize % k.sources.len()] = *u,
                        KOp::Remove { src } => removed[*src as usize % k.sources.len()] = true,
                        KOp::Snap { src, s } => {
                            let j = *src as usize % k.sources.len();
                            has_data[j] = true;
                            last_leap[j] = s.leap % 5;
                        }
                        KOp::Meas { src, leap, .. } => {
                            let j = *src as usize % k.sources.len();
                            if o.produced.is_some() {
                                has_data[j] = true;
                            }
                            last_leap[j] = *leap % 5;
                        }
                        _ => {}
                    }
                    let steered = o.events.iter().any(|e| matches!(e, ClockEvent::Step { .. } | ClockEvent::SetFreq { .. }));
                    if steered && o.used.is_none() && !matches!(op, KOp::TimeUpdate) {
                        bail!("clock-changed-without-reported-consensus", "op {i} ({op:?}): {:?}", o.events);
                    }
                    if let Some(used) = &o.used {
                        if usable.iter().filter(|u| **u).count() >= 2 {
                            nontrivial = true;
                        }
                        if (used.len()) < 1 {
                            bail!("empty-used-source-report", "op {i}");
                        }
                        for u in used {
                            if *u >= k.sources.len() || removed[*u] {
                                bail!("unusable-or-unregistered-source-used", "op {i}: source {u} is not registered");
                            }
                            if !usable[*u] {
                                bail!("unusable-or-unregistered-source-used", "op {i}: source {u} was last reported unusable");
                            }
                            if !has_data[*u] {
                                bail!("unusable-or-unregistered-source-used", "op {i}: source {u} never delivered data");
                            }
                            if last_leap[*u] == 4 {
                                bail!("unsynchronised-source-used", "op {i}: source {u}");
                            }
                        }
                        let eligible_upper = (0..k.sources.len()).filter(|j| usable[*j] && !removed[*j] && has_data[*j]).count();
                        if eligible_upper < k.sync.min_agree as usize {
                            bail!("clock-update-with-fewer-usable-sources-than-minimum", "op {i}: {eligible_upper} usable sources with data, minimum {}", k.sync.min_agree);
                        }
                    }
                }
                let mut out = Outcome::pass(nontrivial);
                out.labels = labels.0;
                out
            }
            SelCase::History(k) => {
                labels.add("history");
                let mut nontrivial = false;
                let r = walk_history(k, |i, cands, o, _| {
                    let tuples: Vec<(f64, f64, f64, bool, u8)> = cands.iter().map(|c| c.1).collect();
                    let (eligible, best) = consensus(&tuples, &k.algo);
                    if eligible >= 2 {
                        nontrivial = true;
                    }
                    if let Some(used) = &o.used {
                        if best < k.sync.min_agree as usize || best * 2 <= eligible {
                            return Err(Failure { signature: "clock-update-without-majority-consensus".into(), what: format!("op {i}: used sources {used:?} but the best common point is covered by {best} of {eligible} eligible sources (minimum {})", k.sync.min_agree) });
                        }
                        for u in used {
                            let Some(c) = cands.iter().find(|c| c.0 == *u) else {
                                return Err(Failure { signature: "unusable-or-unregistered-source-used".into(), what: format!("op {i}: source {u} used but it is not a usable registered source with data") });
                            };
                            if c.1.4 == 4 {
                                return Err(Failure { signature: "unsynchronised-source-used".into(), what: format!("op {i}: source {u}") });
                            }
                            if radius(&c.1, &k.algo) > k.algo.max_source_uncertainty {
                                return Err(Failure { signature: "too-uncertain-source-used".into(), what: format!("op {i}: source {u}") });
                            }
                        }
                    } else if o.events.iter().any(|e| matches!(e, ClockEvent::Step { .. } | ClockEvent::SetFreq { .. })) {
                        return Err(Failure { signature: "clock-changed-without-reported-consensus".into(), what: format!("op {i}: {:?}", o.events) });
                    }
                    Ok(())
                });
                match r {
                    Err(f) => Outcome { failure: Some(f), labels: labels.0, nontrivial: true },
                    Ok(reported) => {
                        labels.add_if(reported > 0, "reported");
                        let mut out = Outcome::pass(nontrivial);
                        out.labels = labels.0;
                        out
                    }
                }
            }
        }
    }
}

fn vote(leaps: &[u8]) -> Option<u8> {
    let known: Vec<u8> = leaps.iter().copied().filter(|l| *l != 3).collect();
    for cand in [0u8, 1, 2] {
        if known.iter().filter(|l| **l == cand).count() * 2 > known.len() {
            return Some(cand);
        }
    }
    None
}

pub struct C04;
impl Property for C04 {
    type Case = SelCase;
    const ID: &'static str = "C04";
    const RULE: &'static str = "leap multisets over {no warning, +1, -1, unknown} on selected and unselected sources: (i) direct calls of the combination step on 1-9 selected snapshots; (ii) histories of updates through the real controller with usable flags, removals and sources outside the consensus; oracle = strict majority among the used sources ignoring unknown: if one exists the kernel status update and the published snapshot carry it, otherwise no status update is issued and the snapshot keeps the previous indicator (expected value computed from the used sources only, so an unselected source's flag can never matter); non-trivial = ≥2 used sources with ≥2 distinct indicators";
    const ASSUMPTIONS: &'static [&'static str] = &["unsynchronised sources are never passed to the combination step (the selection removes them; C03 checks that)"];
    const QUICK_CASES: u32 = 500_000;
    const THOROUGH_CASES: u32 = 30_000_000;
    fn strategy(_t: Tier) -> BoxedStrategy<SelCase> {
        sel_strategy(static_history(), false)
    }
    fn check(case: &SelCase) -> Outcome {
        let mut labels = Labels::default();
        match case {
            SelCase::Wire(sc) => check_wire_leap(sc),
            SelCase::Direct { algo, snaps, .. } => {
                let sync = SyncSpec { min_agree: 1, startup_fwd: None, startup_bwd: None, single_fwd: None, single_bwd: None, accumulated: None };
                let ks: Vec<kh::Snap> = snaps.iter().enumerate().map(|(i, s)| { let mut k = to_snap(i, s, &sync); if k.leap == ntp_proto::NtpLeapIndicator::Unsynchronized { k.leap = ntp_proto::NtpLeapIndicator::Unknown; } k }).collect();
                let leaps: Vec<u8> = ks.iter().map(|k| leap_code(k.leap)).collect();
                let got = kh::combine(&ks, &algo_config(algo));
                labels.add("direct");
                match (&got, ks.is_empty()) {
                    (None, true) => {}
                    (None, false) => bail!("no-combination-for-non-empty-selection", "{} sources", ks.len()),
                    (Some(_), true) => bail!("combination-from-nothing", "empty selection"),
                    (Some(c), false) => {
                        let want = vote(&leaps);
                        if c.leap.map(leap_code) != want {
                            bail!("leap-vote-differs-from-strict-majority", "leaps {leaps:?}: got {:?}, strict majority {:?}", c.leap.map(leap_code), want);
                        }
                        let mut ids: Vec<ClockId> = ks.iter().map(|k| k.id).collect();
                        let mut used = c.sources.clone();
                        ids.sort();
                        used.sort();
                        if ids != used {
                            bail!("combination-reports-other-sources", "{} in, {} out", ids.len(), used.len());
                        }
                    }
                }
                let distinct: std::collections::HashSet<u8> = leaps.iter().copied().collect();
                labels.add_if(vote(&leaps).is_none() && !leaps.is_empty(), "no-majority");
                labels.add_if(leaps.iter().all(|l| *l == 3) && !leaps.is_empty(), "all-unknown");
                let mut out = Outcome::pass(leaps.len() >= 2 && distinct.len() >= 2);
                out.labels = labels.0;
                out
            }
            SelCase::Dynamic(_) => Outcome::pass(false).label("discard-dynamic"),
            SelCase::History(k) => {
                labels.add("history");
                let mut nontrivial = false;
                let r = walk_history(k, |i, cands, o, prev| {
                    let status: Vec<u8> = o.events.iter().filter_map(|e| if let ClockEvent::Status { leap } = e { Some(*leap) } else { None }).collect();
                    if let Some(used) = &o.used {
                        let leaps: Vec<u8> = used.iter().filter_map(|u| cands.iter().find(|c| c.0 == *u).map(|c| c.1.4)).collect();
                        if leaps.len() != used.len() {
                            return Ok(()); // C03 reports this
                        }
                        let distinct: std::collections::HashSet<u8> = leaps.iter().copied().collect();
                        if leaps.len() >= 2 && distinct.len() >= 2 {
                            nontrivial = true;
                        }
                        let want = vote(&leaps);
                        match want {
                            Some(w) => {
                                if status != vec![w] {
                                    return Err(Failure { signature: "leap-status-differs-from-majority-of-used-sources".into(), what: format!("op {i}: used leaps {leaps:?} (majority {w}) but status updates {status:?}") });
                                }
                                if o.snapshot_leap != Some(w) {
                                    return Err(Failure { signature: "published-leap-differs-from-majority".into(), what: format!("op {i}: snapshot {:?}, majority {w}", o.snapshot_leap) });
                                }
                            }
                            None => {
                                if !status.is_empty() {
                                    return Err(Failure { signature: "leap-status-updated-without-majority".into(), what: format!("op {i}: used leaps {leaps:?}, status updates {status:?}") });
                                }
                                if o.snapshot_leap != prev {
                                    return Err(Failure { signature: "published-leap-changed-without-majority".into(), what: format!("op {i}: {:?} -> {:?}", prev, o.snapshot_leap) });
                                }
                            }
                        }
                    } else if !status.is_empty() {
                        return Err(Failure { signature: "leap-status-updated-without-selection".into(), what: format!("op {i}: {status:?}") });
                    }
                    Ok(())
                });
                match r {
                    Err(f) => Outcome { failure: Some(f), labels: labels.0, nontrivial: true },
                    Ok(_) => {
                        let mut out = Outcome::pass(nontrivial);
                        out.labels = labels.0;
                        out
                    }
                }
            }
        }
    }
}

// ---------------------------------------------------------------------------
// C06 (+ C10 clock-filter clause)

fn measurement_history() -> BoxedStrategy<KCase> {
    // per-source measurement pattern: 0 = as generated, 1 = large base + nanosecond jitter, 2 = exactly constant
    let patterns = prop::collection::vec(
        (prop_oneof![3 => Just(0u8), 2 => Just(1u8), 1 => Just(2u8)], prop::sample::select(vec![0.0f64, 1700.0, -86_000.0, 0.25, 1.0e6, -3.0e8]), prop::sample::select(vec![0.0f64, 0.0003, 0.02, 0.5, 3.0])),
        4,
    );
    (sync_strategy(false), algo_strategy(false), prop_oneof![3 => Just(0.0f64), 1 => -1e-3f64..1e-3], sources_strategy(), (0i8..=17, 0i8..=17, 0i8..=17), crate::gens::u64_interesting(), (any::<bool>(), patterns))
        .prop_flat_map(|(sync, algo, init_freq, sources, (a, b, c), start_time, meddling_on)| {
            let n = sources.len() as u8;
            let mut v = [a, b, c];
            v.sort();
            let ops = prop::collection::vec(
                prop_oneof![
                    20 => meas_strategy(n),
                    2 => (0..n, any::<bool>()).prop_map(|(src, usable)| KOp::Usable { src, usable }),
                    1 => Just(KOp::TimeUpdate),
                    1 => (0u32..100_000).prop_map(|ms| KOp::Advance { ms }),
                    1 => (-5000i32..5000).prop_map(|ms| KOp::Skew { ms }),
                ],
                8..200,
            );
            (Just((sync, algo, init_freq, sources, v, start_time, meddling_on)), ops)
        })
        .prop_map(|((mut sync, mut algo, init_freq, sources, v, start_time, (meddling_on, patterns)), mut ops)| {
            sync.min_agree = 1;
            algo.meddling_off = !meddling_on;
            for op in &mut ops {
                if let KOp::Meas { src, offset, delay, .. } = op {
                    let (mode, base_off, base_delay) = patterns[*src as usize % patterns.len()];
                    match mode {
                        1 => {
                            // far-off clock with nanosecond-level jitter, near-constant round trip
                            *offset = base_off + offset.clamp(-0.01, 0.01) * 1e-6;
                            *delay = base_delay + delay.clamp(0.0, 0.05) * 1e-6;
                        }
                        2 => {
                            *offset = base_off;
                            *delay = base_delay;
                        }
                        _ => {}
                    }
                }
            }
            // make every source usable at the start
            let n = sources.len() as u8;
            let mut pre: Vec<KOp> = (0..n).map(|src| KOp::Usable { src, usable: true }).collect();
            pre.append(&mut ops);
            tame_periodic(KCase { sync, algo, init_freq, sources, poll_min: v[0], poll_max: v[2], poll_initial: v[1], start_time, ops: pre, closed_loop: patterns.iter().any(|p| p.0 != 0) })
        })
        .boxed()
}

fn check_finite(case: &KCase, polls_only: bool) -> Outcome {
    let ops = crate::rt::run_paused(run_case(case, None));
    let mut labels = Labels::default();
    let mut stable = false;
    let mut updates = 0;
    let max_raw = i64::MAX;
    for (i, o) in ops.iter().enumerate() {
        if !polls_only {
            for e in &o.events {
                match e {
                    ClockEvent::SetFreq { bits } if !f64::from_bits(*bits).is_finite() => bail!("non-finite-frequency-passed-to-clock", "op {i}"),
                    _ => {}
                }
            }
            if o.nonfinite_seconds > 0 {
                // release builds turn such a value silently into 0 / the extreme durations
                bail!(
                    "non-finite-seconds-converted-to-duration",
                    "op {i}: {} NaN/infinite value(s) went through NtpDuration::from_seconds (clock events of the op: {:?})",
                    o.nonfinite_seconds,
                    o.events
                );
            }
            if let Some(f) = o.snapshot_floats {
                if f.iter().any(|v| !v.is_finite()) {
                    bail!("non-finite-number-in-published-snapshot", "op {i}: root variance terms {f:?}");
                }
            }
            if !o.freq_offset.is_finite() || !o.desired_freq.is_finite() {
                bail!("non-finite-controller-frequency", "op {i}: {} {}", o.freq_offset, o.desired_freq);
            }
            if let Some(p) = &o.produced {
                let vals = [p.offset, p.offset_var, p.cov, p.freq, p.freq_var, p.wander, p.delay];
                if vals.iter().any(|v| !v.is_finite()) {
                    bail!("non-finite-source-estimate", "op {i}: source {} produced {:?}", p.src, vals);
                }
                if p.offset_var < 0.0 || p.freq_var < 0.0 {
                    bail!("negative-variance-in-source-estimate", "op {i}: source {} variances {} {}", p.src, p.offset_var, p.freq_var);
                }
            }
            for (s, ob) in o.observes.iter().enumerate() {
                if let Some(ob) = ob {
                    if ob.uncertainty < 0 {
                        bail!("negative-reported-uncertainty", "op {i}: source {s} uncertainty {}", ob.uncertainty);
                    }
                    let sentinel = ob.uncertainty == max_raw && ob.delay == max_raw;
                    if !sentinel && (ob.offset == i64::MAX || ob.offset == i64::MIN) && !matches!(case.ops[i], KOp::Meas { offset, .. } if offset.abs() > 2.0e9) {
                        labels.add("saturated-offset");
                    }
                }
            }
            if o.used.is_some() {
                updates += 1;
            }
        }
        for (s, p) in o.desired_polls.iter().enumerate() {
            if let Some(p) = p {
                if *p < case.poll_min || *p > case.poll_max {
                    return Outcome::fail("clock-filter-desired-poll-outside-limits", format!("op {i}: source {s} desires poll {p}, limits [{}, {}]", case.poll_min, case.poll_max));
                }
                if *p != case.poll_min {
                    stable = true;
                }
            }
        }
        if o.produced.as_ref().is_some_and(|p| p.freq_var != 100.0) {
            stable = true;
        }
    }
    labels.add_if(stable, "stable-filter-reached");
    labels.add_if(updates > 0, "clock-updated");
    let mut out = Outcome::pass(stable && (polls_only || updates > 0));
    out.labels = labels.0;
    out
}

pub struct C06;
impl Property for C06 {
    type Case = KCase;
    const ID: &'static str = "C06";
    const RULE: &'static str = "1-4 sources (two-way and one-way, periodic or not) × 8-200 events, mostly real measurements through the real source filters: offsets over the full representable range mixed with realistic noise, delays incl. 0, negative and huge, root delay/dispersion, leap flags, spacing 1 ms … 2^17 s, usability flips, end-of-slew, time advance, clock skew against the monotonic clock (meddling detection on/off), controller steering fed back to all sources; oracle = after every event: every value passed to the clock and every float of the published snapshot is finite, every estimate a source produces (raw f64 state read through the hook: offset, variances, covariance, frequency, wander, delay) is finite with non-negative variances, observe() never reports a negative uncertainty, no panic; non-trivial = a source reached the stable filter and the clock was updated at least once";
    const ASSUMPTIONS: &'static [&'static str] = &["measurements are finite; local times strictly increase by ≥ 1 ms per measurement (Skew ops model external clock changes)", "panic thresholds disabled so the process never exits"];
    const QUICK_CASES: u32 = 150_000;
    const THOROUGH_CASES: u32 = 3_000_000;
    const MAX_SHRINK_ITERS: u32 = 3000;
    fn strategy(_t: Tier) -> BoxedStrategy<KCase> {
        measurement_history()
    }
    fn check(case: &KCase) -> Outcome {
        check_finite(case, false)
    }
}

// ---------------------------------------------------------------------------
// C10 = source-world clause (poll bytes and timers) + clock-filter clause

#[derive(Debug, Clone, Serialize, Deserialize)]
pub enum C10Case {
    Source(crate::w_source::SourceCase),
    Filter(KCase),
}

pub struct C10;
impl Property for C10 {
    type Case = C10Case;
    const ID: &'static str = "C10";
    const RULE: &'static str = "(a) association histories with RATE kisses and NTPv5 poll requests 0..255, limits 0 ≤ min ≤ desired ≤ max ≤ 17: every request's poll exponent within [min, max(max, requested)] and its timer within [1.01, 1.05]·2^poll; (b) real Kalman source filters under measurement histories (as C06) with 0 ≤ min ≤ initial ≤ max ≤ 17: the filter's desired poll interval always within [min, max]; non-trivial = (a) ≥3 polls with an interval change, (b) a source that reached the stable filter";
    const ASSUMPTIONS: &'static [&'static str] = <super::source::C10 as Property>::ASSUMPTIONS;
    const QUICK_CASES: u32 = 150_000;
    const THOROUGH_CASES: u32 = 4_200_000;
    const MAX_SHRINK_ITERS: u32 = 3000;
    fn strategy(t: Tier) -> BoxedStrategy<C10Case> {
        prop_oneof![
            9 => <super::source::C10 as Property>::strategy(t).prop_map(C10Case::Source),
            1 => measurement_history().prop_map(C10Case::Filter),
        ]
        .boxed()
    }
    fn check(case: &C10Case) -> Outcome {
        match case {
            C10Case::Source(s) => <super::source::C10 as Property>::check(s).label("association"),
            C10Case::Filter(k) => check_finite(k, true).label("clock-filter"),
        }
    }
}
