//! C32 — time arithmetic is exact, era-safe and never panics.
use crate::engine::*;
use crate::gens::*;
use ntp_proto::verif_hook::time as nt;
use ntp_proto::NtpDuration;
use proptest::prelude::*;
use serde::{Deserialize, Serialize};
use statime_base::verif_hook as pt;
use statime_base::{Duration as PDur, TAI, Timestamp as PTs};

pub struct C32;

#[derive(Debug, Clone, Serialize, Deserialize)]
pub enum Case {
    /// a - b and b + (a - b)
    TsDiff { a: u64, b: u64 },
    /// t + d, t - d, +=, -=
    TsDur { t: u64, d: i64 },
    /// d1 (+,-,abs_diff) d2, -d1, |d1|
    DurBin { a: i64, b: i64 },
    /// d * k and k * d for scalar type `ty`
    DurMul { a: i64, k: i64, ty: u8 },
    /// d / k for scalar type `ty` (k cast to the type must be non-zero)
    DurDiv { a: i64, k: i64, ty: u8 },
    /// d -> seconds -> d
    DurSeconds { d: i64 },
    /// seconds -> d (sign, saturation)
    FromSeconds { bits: u64 },
    /// wire short format
    Short { d: i64 },
    ShortBits { b: u32 },
    Time32 { d: i64 },
    Time32Bits { b: u32 },
    /// PTP types (128-bit values as hi/lo halves)
    PtpTsDiff { a: (u64, u64), b: (u64, u64) },
    PtpTsDur { t: (u64, u64), d: (u64, u64) },
    PtpDurBin { a: (u64, u64), b: (u64, u64) },
    PtpDurMul { a: (u64, u64), k: i64, ty: u8 },
    PtpDurDiv { a: (u64, u64), k: i64, ty: u8 },
    PtpFromSeconds { bits: u64 },
}

fn split(v: u128) -> (u64, u64) {
    ((v >> 64) as u64, v as u64)
}
fn join(p: (u64, u64)) -> u128 {
    ((p.0 as u128) << 64) | p.1 as u128
}

fn sat_i64(v: i128) -> i64 {
    if v > i64::MAX as i128 {
        i64::MAX
    } else if v < i64::MIN as i128 {
        i64::MIN
    } else {
        v as i64
    }
}

/// cast `k` to NTP scalar type `ty` and return its value as i64
fn ntp_scalar(k: i64, ty: u8) -> i64 {
    match ty % 8 {
        0 => k as i8 as i64,
        1 => k as i16 as i64,
        2 => k as i32 as i64,
        3 => k,
        4 => k as isize as i64,
        5 => k as u8 as i64,
        6 => k as u16 as i64,
        _ => k as u32 as i64,
    }
}

fn ntp_mul(d: NtpDuration, k: i64, ty: u8) -> (NtpDuration, NtpDuration, NtpDuration) {
    macro_rules! m {
        ($t:ty) => {{
            let s = k as $t;
            let mut c = d;
            c *= s;
            (d * s, s * d, c)
        }};
    }
    match ty % 8 {
        0 => m!(i8),
        1 => m!(i16),
        2 => m!(i32),
        3 => m!(i64),
        4 => m!(isize),
        5 => m!(u8),
        6 => m!(u16),
        _ => m!(u32),
    }
}

fn ntp_div(d: NtpDuration, k: i64, ty: u8) -> (NtpDuration, NtpDuration) {
    macro_rules! m {
        ($t:ty) => {{
            let s = k as $t;
            let mut c = d;
            c /= s;
            (d / s, c)
        }};
    }
    match ty % 8 {
        0 => m!(i8),
        1 => m!(i16),
        2 => m!(i32),
        3 => m!(i64),
        4 => m!(isize),
        5 => m!(u8),
        6 => m!(u16),
        _ => m!(u32),
    }
}

/// PTP scalar types: u8 i8 u16 i16 u32 i32 u64 i64; value as i128
fn ptp_scalar(k: i64, ty: u8) -> i128 {
    match ty % 8 {
        0 => k as u8 as i128,
        1 => k as i8 as i128,
        2 => k as u16 as i128,
        3 => k as i16 as i128,
        4 => k as u32 as i128,
        5 => k as i32 as i128,
        6 => k as u64 as i128,
        _ => k as i128,
    }
}

fn ptp_mul(d: PDur, k: i64, ty: u8) -> (PDur, PDur, PDur) {
    macro_rules! m {
        ($t:ty) => {{
            let s = k as $t;
            let mut c = d;
            c *= s;
            (d * s, s * d, c)
        }};
    }
    match ty % 8 {
        0 => m!(u8),
        1 => m!(i8),
        2 => m!(u16),
        3 => m!(i16),
        4 => m!(u32),
        5 => m!(i32),
        6 => m!(u64),
        _ => m!(i64),
    }
}

fn ptp_div(d: PDur, k: i64, ty: u8) -> PDur {
    match ty % 8 {
        0 => d / (k as u8),
        1 => d / (k as i8),
        2 => d / (k as u16),
        3 => d / (k as i16),
        4 => d / (k as u32),
        5 => d / (k as i32),
        6 => d / (k as u64),
        _ => d / k,
    }
}

/// saturating i128 reference built from checked ops
fn sat128_add(a: i128, b: i128) -> i128 {
    a.checked_add(b)
        .unwrap_or(if b > 0 { i128::MAX } else { i128::MIN })
}
fn sat128_sub(a: i128, b: i128) -> i128 {
    a.checked_sub(b)
        .unwrap_or(if b < 0 { i128::MAX } else { i128::MIN })
}
fn sat128_mul(a: i128, b: i128) -> i128 {
    a.checked_mul(b).unwrap_or(if (a < 0) == (b < 0) {
        i128::MAX
    } else {
        i128::MIN
    })
}
fn sat128_div(a: i128, b: i128) -> i128 {
    a.checked_div(b).unwrap_or(i128::MAX) // only MIN / -1 overflows (b != 0)
}

macro_rules! ensure {
    ($cond:expr, $sig:expr, $($fmt:tt)*) => {
        if !$cond {
            return Outcome::fail($sig, format!($($fmt)*));
        }
    };
}

impl Property for C32 {
    type Case = Case;
    const ID: &'static str = "C32";
    const RULE: &'static str = "operation + operands drawn from {0,±1,MIN,MAX,±2^31,±2^32,2^k±δ,era midpoints,random} for every operator of NtpTimestamp/NtpDuration and statime_base Timestamp/Duration, every scalar type of the mul/div impls (divisor≠0), finite f64 bit patterns, all u32 wire encodings; oracle = i128/checked-arithmetic reference; non-trivial = at least one operand is not 0/±1 (distinct = distinct (op, operands))";
    const ASSUMPTIONS: &'static [&'static str] = &[
        "built with debug assertions off and wrapping integer overflow (release semantics), panics unwind so they are observed",
        "division by zero is outside the domain (it panics for every integer type)",
        "wire-format clauses only quantify over non-negative durations that fit the format (negative durations hit a documented assert!)",
    ];
    const QUICK_CASES: u32 = 4_000_000;
    const THOROUGH_CASES: u32 = 120_000_000;

    fn strategy(_tier: Tier) -> BoxedStrategy<Case> {
        let p128 = || u128_interesting().prop_map(split);
        let pi128 = || i128_interesting().prop_map(|v| split(v as u128));
        prop_oneof![
            2 => (u64_interesting(), u64_interesting()).prop_map(|(a, b)| Case::TsDiff { a, b }),
            1 => (u64_interesting(), i64_interesting()).prop_map(|(t, d)| Case::TsDur { t, d }),
            3 => (i64_interesting(), i64_interesting()).prop_map(|(a, b)| Case::DurBin { a, b }),
            3 => (i64_interesting(), i64_interesting(), 0u8..8).prop_map(|(a, k, ty)| Case::DurMul { a, k, ty }),
            3 => (i64_interesting(), i64_interesting(), 0u8..8).prop_map(|(a, k, ty)| Case::DurDiv { a, k, ty }),
            3 => i64_interesting().prop_map(|d| Case::DurSeconds { d }),
            3 => f64_finite().prop_map(|v| Case::FromSeconds { bits: v.to_bits() }),
            1 => (0i64..(1 << 48)).prop_map(|d| Case::Short { d }),
            1 => i64_interesting().prop_map(|d| Case::Short { d: d & 0xFFFF_FFFF_FFFF }),
            1 => any::<u32>().prop_map(|b| Case::ShortBits { b }),
            1 => (0i64..(1 << 36)).prop_map(|d| Case::Time32 { d }),
            1 => i64_interesting().prop_map(|d| Case::Time32 { d: d & 0xF_FFFF_FFFF }),
            1 => any::<u32>().prop_map(|b| Case::Time32Bits { b }),
            2 => (p128(), p128()).prop_map(|(a, b)| Case::PtpTsDiff { a, b }),
            1 => (p128(), pi128()).prop_map(|(t, d)| Case::PtpTsDur { t, d }),
            2 => (pi128(), pi128()).prop_map(|(a, b)| Case::PtpDurBin { a, b }),
            2 => (pi128(), i64_interesting(), 0u8..8).prop_map(|(a, k, ty)| Case::PtpDurMul { a, k, ty }),
            2 => (pi128(), i64_interesting(), 0u8..8).prop_map(|(a, k, ty)| Case::PtpDurDiv { a, k, ty }),
            1 => f64_finite().prop_map(|v| Case::PtpFromSeconds { bits: v.to_bits() }),
        ]
        .boxed()
    }

    fn check(case: &Case) -> Outcome {
        let small = |v: i128| (-1..=1).contains(&v);
        match *case {
            Case::TsDiff { a, b } => {
                let ta = nt::timestamp_from_raw(a);
                let tb = nt::timestamp_from_raw(b);
                let d = ta - tb;
                // reference: (a-b) mod 2^64 mapped to [-2^63, 2^63)
                let m = (a as i128 - b as i128).rem_euclid(1i128 << 64);
                let r = if m >= 1i128 << 63 { m - (1i128 << 64) } else { m };
                ensure!(nt::duration_raw(d) as i128 == r, "ts-sub-not-shortest-signed-difference",
                    "{a:#x} - {b:#x}: got {} want {r}", nt::duration_raw(d));
                let back = tb + d;
                ensure!(nt::timestamp_raw(back) == a, "ts-add-back", "b + (a-b) != a for a={a:#x} b={b:#x}");
                ensure!(ta.is_before(tb) == (r < 0), "ts-is-before", "is_before inconsistent for a={a:#x} b={b:#x}");
                let era = (a > b) != (r > 0) && a != b;
                Outcome::pass(!(small(a as i128) && small(b as i128)))
                    .label("ntp-ts-diff")
                    .labels(era.then_some("era-wrap"))
            }
            Case::TsDur { t, d } => {
                let ts = nt::timestamp_from_raw(t);
                let dd = nt::duration_from_raw(d);
                let want_add = ((t as i128 + d as i128).rem_euclid(1i128 << 64)) as u64;
                let want_sub = ((t as i128 - d as i128).rem_euclid(1i128 << 64)) as u64;
                let mut x = ts;
                x += dd;
                let mut y = ts;
                y -= dd;
                ensure!(nt::timestamp_raw(ts + dd) == want_add && nt::timestamp_raw(x) == want_add,
                    "ts-add-duration-wrap", "t={t:#x} + d={d}");
                ensure!(nt::timestamp_raw(ts - dd) == want_sub && nt::timestamp_raw(y) == want_sub,
                    "ts-sub-duration-wrap", "t={t:#x} - d={d}");
                ensure!(nt::duration_raw((ts + dd) - ts) == d, "ts-add-then-diff", "(t+d)-t != d for t={t:#x} d={d}");
                Outcome::pass(!(small(d as i128))).label("ntp-ts-dur")
            }
            Case::DurBin { a, b } => {
                let da = nt::duration_from_raw(a);
                let db = nt::duration_from_raw(b);
                let add = sat_i64(a as i128 + b as i128);
                let sub = sat_i64(a as i128 - b as i128);
                let mut x = da;
                x += db;
                let mut y = da;
                y -= db;
                ensure!(nt::duration_raw(da + db) == add && nt::duration_raw(x) == add, "dur-add-saturating",
                    "{a} + {b}: got {} want {add}", nt::duration_raw(da + db));
                ensure!(nt::duration_raw(da - db) == sub && nt::duration_raw(y) == sub, "dur-sub-saturating",
                    "{a} - {b}: got {} want {sub}", nt::duration_raw(da - db));
                let neg = sat_i64(-(a as i128));
                ensure!(nt::duration_raw(-da) == neg, "dur-neg-saturating", "-({a}): got {} want {neg}", nt::duration_raw(-da));
                let abs = sat_i64((a as i128).abs());
                ensure!(nt::duration_raw(da.abs()) == abs, "dur-abs-saturating", "|{a}|: got {} want {abs}", nt::duration_raw(da.abs()));
                let ad = sat_i64((sub as i128).abs());
                ensure!(nt::duration_raw(da.abs_diff(db)) == ad, "dur-abs-diff-saturating",
                    "abs_diff({a},{b}): got {} want {ad}", nt::duration_raw(da.abs_diff(db)));
                let sat = (a as i128 + b as i128) != add as i128 || (a as i128 - b as i128) != sub as i128 || a == i64::MIN;
                Outcome::pass(!(small(a as i128) && small(b as i128)))
                    .label("ntp-dur-bin")
                    .labels(sat.then_some("saturates"))
            }
            Case::DurMul { a, k, ty } => {
                let s = ntp_scalar(k, ty);
                let want = sat_i64(a as i128 * s as i128);
                let (r1, r2, r3) = ntp_mul(nt::duration_from_raw(a), k, ty);
                ensure!(nt::duration_raw(r1) == want && nt::duration_raw(r2) == want && nt::duration_raw(r3) == want,
                    "dur-mul-saturating", "{a} * {s} (type {ty}): got {} want {want}", nt::duration_raw(r1));
                Outcome::pass(!(small(a as i128) || small(s as i128)))
                    .label("ntp-dur-mul")
                    .labels(((a as i128 * s as i128) != want as i128).then_some("saturates"))
            }
            Case::DurDiv { a, k, ty } => {
                let s = ntp_scalar(k, ty);
                if s == 0 {
                    return Outcome::pass(false).label("discard-div-zero");
                }
                let want = sat_i64(a as i128 / s as i128);
                let (r1, r2) = ntp_div(nt::duration_from_raw(a), k, ty);
                ensure!(nt::duration_raw(r1) == want && nt::duration_raw(r2) == want,
                    "dur-div-truncating", "{a} / {s} (type {ty}): got {} want {want}", nt::duration_raw(r1));
                Outcome::pass(!(small(a as i128)))
                    .label("ntp-dur-div")
                    .labels((a == i64::MIN && s == -1).then_some("min-div-minus-one"))
            }
            Case::DurSeconds { d } => {
                let dd = nt::duration_from_raw(d);
                let s = dd.to_seconds();
                ensure!(s.is_finite(), "dur-to-seconds-not-finite", "to_seconds({d}) = {s}");
                ensure!(!(d > 0 && s < 0.0) && !(d < 0 && s > 0.0), "dur-to-seconds-sign", "to_seconds({d}) = {s}");
                // value check: d / 2^32 within 1 ppb + 1 unit
                let exact = d as f64 / 4294967296.0;
                ensure!((s - exact).abs() <= 1e-9 * exact.abs() + 1.0 / 4294967296.0, "dur-to-seconds-value",
                    "to_seconds({d}) = {s}, exact {exact}");
                let back = nt::duration_raw(NtpDuration::from_seconds(s));
                let err = (back as i128 - d as i128).abs();
                let tol = (d as i128).abs() / 1_000_000_000 + 1;
                ensure!(err <= tol, "dur-seconds-roundtrip", "d={d} -> {s} -> {back}: error {err} > {tol}");
                Outcome::pass(!small(d as i128)).label("ntp-dur-seconds")
            }
            Case::FromSeconds { bits } => {
                let v = f64::from_bits(bits);
                if !v.is_finite() {
                    return Outcome::pass(false).label("discard-non-finite");
                }
                let d = nt::duration_raw(NtpDuration::from_seconds(v));
                ensure!(!(v > 0.0 && d < 0) && !(v < 0.0 && d > 0), "from-seconds-sign", "from_seconds({v:e}) = {d}");
                if v >= 2147483648.0 {
                    ensure!(d == i64::MAX, "from-seconds-saturate-high", "from_seconds({v:e}) = {d}");
                } else if v < -2147483648.0 {
                    ensure!(d == i64::MIN, "from-seconds-saturate-low", "from_seconds({v:e}) = {d}");
                } else {
                    let exact = v * 4294967296.0;
                    let err = (d as f64 - exact).abs();
                    ensure!(err <= 1e-9 * exact.abs() + 2.0, "from-seconds-value",
                        "from_seconds({v:e}) = {d}, exact {exact:e}");
                }
                Outcome::pass(v != 0.0)
                    .label("ntp-from-seconds")
                    .labels((v.abs() >= 2147483648.0).then_some("saturates"))
            }
            Case::Short { d } => {
                if !(0..1i64 << 48).contains(&d) {
                    return Outcome::pass(false).label("discard");
                }
                let b = nt::duration_to_bits_short(nt::duration_from_raw(d));
                let back = nt::duration_raw(nt::duration_from_bits_short(b));
                ensure!(back <= d && d - back < 1 << 16, "short-format-roundtrip", "d={d} -> {b:?} -> {back}");
                Outcome::pass(d > 1).label("ntp-short")
            }
            Case::ShortBits { b } => {
                let d = nt::duration_from_bits_short(b.to_be_bytes());
                ensure!(nt::duration_raw(d) == (b as i64) << 16, "short-format-decode", "bits {b:#x} -> {}", nt::duration_raw(d));
                let e = nt::duration_to_bits_short(d);
                ensure!(e == b.to_be_bytes(), "short-format-bits-roundtrip", "bits {b:#x} -> {} -> {e:?}", nt::duration_raw(d));
                Outcome::pass(b > 1).label("ntp-short")
            }
            Case::Time32 { d } => {
                if !(0..1i64 << 36).contains(&d) {
                    return Outcome::pass(false).label("discard");
                }
                let b = nt::duration_to_bits_time32(nt::duration_from_raw(d));
                let back = nt::duration_raw(nt::duration_from_bits_time32(b));
                ensure!(back <= d && d - back < 1 << 4, "time32-format-roundtrip", "d={d} -> {b:?} -> {back}");
                Outcome::pass(d > 1).label("ntp-time32")
            }
            Case::Time32Bits { b } => {
                let d = nt::duration_from_bits_time32(b.to_be_bytes());
                ensure!(nt::duration_raw(d) == (b as i64) << 4, "time32-format-decode", "bits {b:#x}");
                let e = nt::duration_to_bits_time32(d);
                ensure!(e == b.to_be_bytes(), "time32-format-bits-roundtrip", "bits {b:#x} -> {e:?}");
                Outcome::pass(b > 1).label("ntp-time32")
            }
            Case::PtpTsDiff { a, b } => {
                let (a, b) = (join(a), join(b));
                let ta: PTs<TAI> = pt::timestamp_from_raw(a);
                let tb: PTs<TAI> = pt::timestamp_from_raw(b);
                let d = pt::duration_raw(ta - tb);
                let want = a.wrapping_sub(b) as i128;
                // shortest signed difference: |want| <= 2^127 and want ≡ a-b (mod 2^128)
                ensure!(d == want, "ptp-ts-sub", "{a:#x}-{b:#x}: got {d} want {want}");
                ensure!(pt::timestamp_raw(tb + (ta - tb)) == a, "ptp-ts-add-back", "a={a:#x} b={b:#x}");
                Outcome::pass(!(a <= 1 && b <= 1))
                    .label("ptp-ts-diff")
                    .labels(((a > b) != (want > 0) && a != b).then_some("era-wrap"))
            }
            Case::PtpTsDur { t, d } => {
                let (t, d) = (join(t), join(d) as i128);
                let ts: PTs<TAI> = pt::timestamp_from_raw(t);
                let dd = pt::duration_from_raw(d);
                let wa = t.wrapping_add(d as u128);
                let ws = t.wrapping_sub(d as u128);
                let mut x = ts;
                x += dd;
                let mut y = ts;
                y -= dd;
                ensure!(pt::timestamp_raw(ts + dd) == wa && pt::timestamp_raw(x) == wa, "ptp-ts-add-duration", "t={t:#x} d={d}");
                ensure!(pt::timestamp_raw(ts - dd) == ws && pt::timestamp_raw(y) == ws, "ptp-ts-sub-duration", "t={t:#x} d={d}");
                Outcome::pass(!small(d)).label("ptp-ts-dur")
            }
            Case::PtpDurBin { a, b } => {
                let (a, b) = (join(a) as i128, join(b) as i128);
                let da = pt::duration_from_raw(a);
                let db = pt::duration_from_raw(b);
                let mut x = da;
                x += db;
                let mut y = da;
                y -= db;
                let wa = sat128_add(a, b);
                let ws = sat128_sub(a, b);
                ensure!(pt::duration_raw(da + db) == wa && pt::duration_raw(x) == wa, "ptp-dur-add-saturating", "{a} + {b}");
                ensure!(pt::duration_raw(da - db) == ws && pt::duration_raw(y) == ws, "ptp-dur-sub-saturating", "{a} - {b}");
                Outcome::pass(!(small(a) && small(b)))
                    .label("ptp-dur-bin")
                    .labels((a.checked_add(b).is_none() || a.checked_sub(b).is_none()).then_some("saturates"))
            }
            Case::PtpDurMul { a, k, ty } => {
                let a = join(a) as i128;
                let s = ptp_scalar(k, ty);
                let want = sat128_mul(a, s);
                let (r1, r2, r3) = ptp_mul(pt::duration_from_raw(a), k, ty);
                ensure!(pt::duration_raw(r1) == want && pt::duration_raw(r2) == want && pt::duration_raw(r3) == want,
                    "ptp-dur-mul-saturating", "{a} * {s} (type {ty}): got {} want {want}", pt::duration_raw(r1));
                Outcome::pass(!(small(a) || small(s)))
                    .label("ptp-dur-mul")
                    .labels(a.checked_mul(s).is_none().then_some("saturates"))
            }
            Case::PtpDurDiv { a, k, ty } => {
                let a = join(a) as i128;
                let s = ptp_scalar(k, ty);
                if s == 0 {
                    return Outcome::pass(false).label("discard-div-zero");
                }
                let want = sat128_div(a, s);
                let r = ptp_div(pt::duration_from_raw(a), k, ty);
                ensure!(pt::duration_raw(r) == want, "ptp-dur-div", "{a} / {s} (type {ty}): got {} want {want}", pt::duration_raw(r));
                Outcome::pass(!small(a)).label("ptp-dur-div")
            }
            Case::PtpFromSeconds { bits } => {
                let v = f64::from_bits(bits);
                if !v.is_finite() {
                    return Outcome::pass(false).label("discard-non-finite");
                }
                let d = pt::duration_raw(PDur::from_f64_seconds(v));
                ensure!(!(v > 0.0 && d < 0) && !(v < 0.0 && d > 0), "ptp-from-seconds-sign", "from_f64_seconds({v:e}) = {d}");
                if v >= 9223372036854775808.0 {
                    ensure!(d == i128::MAX, "ptp-from-seconds-saturate-high", "from_f64_seconds({v:e}) = {d}");
                } else if v < -9223372036854775808.0 {
                    ensure!(d == i128::MIN, "ptp-from-seconds-saturate-low", "from_f64_seconds({v:e}) = {d}");
                }
                let s = pt::duration_from_raw(d).as_seconds();
                ensure!(s.is_finite(), "ptp-as-seconds-not-finite", "as_seconds of {d}");
                Outcome::pass(v != 0.0).label("ptp-from-seconds")
            }
        }
    }
}
