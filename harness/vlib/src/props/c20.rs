//! C20 — rate limiting answers to the client's own request rate.
//!
//! (i)  `TimestampedCache<IpAddr>` with injected `Instant`s against a history oracle derived
//!      from the statement: a request is limited exactly when the most recent earlier request
//!      that used the same cache slot came from the same address and is less than the cutoff
//!      old. (The slot of an address is read from the cache under test — it is a per-instance
//!      random hash — everything else is independent.) Size 0 never limits.
//! (ii) `Server::handle`: access lists are consulted before the limiter and requests stopped by
//!      a list consume no budget (cutoff 0 or 1 h, because the server reads the real clock).
use std::net::IpAddr;
use std::time::{Duration, Instant};

use crate::engine::*;
use crate::w_srv::{self, Seen};
use ntp_proto::verif_hook::server_hook::ratelimit;
use ntp_proto::{FilterAction, ServerReason, ServerResponse};
use proptest::prelude::*;
use serde::{Deserialize, Serialize};

pub struct C20;

#[derive(Debug, Clone, Serialize, Deserialize)]
pub enum Gap {
    /// arrival = previous arrival + ns
    Plus(u64),
    /// arrival = max(previous arrival, own previous request + cutoff + delta ns)
    OwnCutoff(i8),
}

#[derive(Debug, Clone, Serialize, Deserialize)]
pub enum Case {
    Cache { size: u16, cutoff_ns: u64, ops: Vec<(u8, Gap)> },
    /// ops: (address index, malformed request?)
    Server { size: u16, cutoff_1h: bool, deny_ignores: bool, allow_ignores: bool, ops: Vec<(u8, bool)> },
}

const POOL: &[&str] = &[
    "11.0.0.1", "11.0.0.2", "11.0.0.3", "11.1.2.3", "192.168.7.7", "192.168.7.8", "2001:db8::1", "2001:db8::2",
    "11.255.255.255", "192.168.0.0", "2001:db8:ffff::9", "11.0.0.4",
];
/// server pool: first the served ones, then denied (10/8), then not on the allow list
const SRV_POOL: &[(&str, u8)] = &[
    ("11.0.0.1", 0), ("11.0.0.2", 0), ("192.168.7.7", 0), ("2001:db8::1", 0), ("11.9.9.9", 0), ("::ffff:11.0.0.77", 0),
    ("10.0.0.1", 1), ("10.200.3.4", 1), ("::ffff:10.0.0.1", 1),
    ("12.0.0.1", 2), ("2001:db9::1", 2), ("127.0.0.1", 2),
];

fn gap() -> BoxedStrategy<Gap> {
    prop_oneof![
        3 => prop::sample::select(vec![0u64, 1, 2, 999, 1_000_000, 1_000_000_000, 3_600_000_000_000]).prop_map(Gap::Plus),
        3 => any::<u32>().prop_map(|v| Gap::Plus(v as u64)),
        1 => (0u64..8_000_000_000_000).prop_map(Gap::Plus),
        5 => (-1i8..=1).prop_map(Gap::OwnCutoff),
    ]
    .boxed()
}

macro_rules! ensure {
    ($cond:expr, $sig:expr, $($fmt:tt)*) => {
        if !$cond {
            return Outcome::fail($sig, format!($($fmt)*));
        }
    };
}

fn check_cache(size: usize, cutoff_ns: u64, ops: &[(u8, Gap)]) -> Outcome {
    let mut labels = Labels::default();
    let cutoff = Duration::from_nanos(cutoff_ns);
    let mut cache = ratelimit::Cache::new(size);
    ensure!(cache.len() == size, "cache-size", "cache of size {size} has {} slots", cache.len());
    // Instants cannot be constructed; the verdict only depends on differences
    let base = Instant::now();
    let mut now_ns: u64 = 0;
    // history of (address index, arrival ns, slot)
    let mut hist: Vec<(usize, u64, Option<usize>)> = Vec::new();
    let mut repeats = 0;
    for (k, (a, gap)) in ops.iter().enumerate() {
        let ai = *a as usize % POOL.len();
        let ip: IpAddr = POOL[ai].parse().unwrap();
        let own_prev = hist.iter().rev().find(|h| h.0 == ai).map(|h| h.1);
        now_ns = match gap {
            Gap::Plus(ns) => now_ns + ns,
            Gap::OwnCutoff(d) => match own_prev {
                Some(p) => now_ns.max((p + cutoff_ns).saturating_add_signed(*d as i64)),
                None => now_ns,
            },
        };
        let slot = cache.index(&ip);
        ensure!(slot.is_some() == (size > 0) && slot.is_none_or(|s| s < size), "slot-out-of-range", "slot {slot:?} for size {size}");
        // --- oracle (statement): most recent earlier request in the same slot
        let want_allowed = if size == 0 {
            labels.add("size-0");
            true
        } else {
            match hist.iter().rev().find(|h| h.2 == slot) {
                None => true,
                Some(&(pa, pt, _)) if pa == ai => {
                    repeats += 1;
                    let dt = now_ns - pt;
                    labels.add_if(dt == cutoff_ns, "boundary-equal");
                    labels.add_if(dt + 1 == cutoff_ns, "boundary-just-below");
                    labels.add_if(dt == cutoff_ns + 1, "boundary-just-above");
                    dt >= cutoff_ns
                }
                Some(_) => {
                    // another address used the slot in between (or before)
                    if let Some(p) = own_prev {
                        labels.add_if(now_ns - p < cutoff_ns, "evicted-within-cutoff");
                    }
                    true
                }
            }
        };
        if own_prev.is_some() && size > 0 {
            labels.add("repeat-request");
        }
        let got = cache.is_allowed(ip, base + Duration::from_nanos(now_ns), cutoff);
        labels.add(if want_allowed { "allowed" } else { "limited" });
        if got != want_allowed {
            let sig = if size == 0 {
                "size-0-limits"
            } else if want_allowed {
                "limited-without-own-recent-request"
            } else {
                "not-limited-within-cutoff"
            };
            return Outcome::fail(sig, format!("op #{k} addr {ip} at {now_ns} ns (size {size}, cutoff {cutoff_ns} ns, slot {slot:?}): got allowed={got}, want {want_allowed}; history {hist:?}"));
        }
        hist.push((ai, now_ns, slot));
    }
    let asked_twice = hist.iter().enumerate().any(|(i, h)| hist[..i].iter().any(|g| g.0 == h.0));
    let nontrivial = asked_twice && (repeats > 0 || size == 0);
    let mut out = Outcome::pass(nontrivial);
    out.labels = labels.0;
    out
}

fn check_server(size: usize, cutoff_1h: bool, deny_ignores: bool, allow_ignores: bool, ops: &[(u8, bool)]) -> Outcome {
    let mut labels = Labels::default();
    let mut cfg = w_srv::base_config();
    let act = |ignore: bool| if ignore { FilterAction::Ignore } else { FilterAction::Deny };
    cfg.denylist = w_srv::list(vec!["10.0.0.0/8".parse().unwrap()], act(deny_ignores));
    cfg.allowlist = w_srv::list(
        vec!["10.0.0.0/7".parse().unwrap(), "192.168.0.0/16".parse().unwrap(), "2001:db8::/32".parse().unwrap()],
        act(allow_ignores),
    );
    cfg.rate_limiting_cache_size = size;
    cfg.rate_limiting_cutoff = if cutoff_1h { Duration::from_secs(3600) } else { Duration::ZERO };
    // the same settings as the daemon gets them: a [[server]] table through the daemon's deserialiser and its
    // conversion for the protocol layer
    let text = format!(
        "listen = \"127.0.0.1:123\"\nrate-limiting-cache-size = {size}\nrate-limiting-cutoff-ms = {}\naccept-ntp-versions = [4]\n[denylist]\nfilter = [\"10.0.0.0/8\"]\naction = \"{}\"\n[allowlist]\nfilter = [\"10.0.0.0/7\", \"192.168.0.0/16\", \"2001:db8::/32\"]\naction = \"{}\"\n",
        if cutoff_1h { 3_600_000 } else { 0 },
        if deny_ignores { "ignore" } else { "deny" },
        if allow_ignores { "ignore" } else { "deny" },
    );
    match toml::from_str::<ntpd::verif_hook::DaemonServerConfig>(&text) {
        Ok(d) => {
            cfg = d.into();
            labels.add("config-through-daemon");
        }
        Err(e) => return Outcome::fail("harness/server-table-rejected", format!("{e}: {text}")),
    }
    let mut server = w_srv::server(cfg);
    // model: slot -> last address that passed the lists
    let mut slots: Vec<Option<IpAddr>> = vec![None; size];
    let mut limited_seen = 0;
    let mut stopped_between = false;
    for (k, (a, malformed)) in ops.iter().enumerate() {
        let (s, class) = SRV_POOL[*a as usize % SRV_POOL.len()];
        let ip: IpAddr = s.parse().unwrap();
        let slot = ratelimit::server_cache_index(&server, &ip);
        let (seen, st) = if *malformed {
            // 10 bytes: cannot be parsed
            let mut stats = w_srv::RecStats::default();
            let mut buf = [0u8; 48];
            let seen = match server.handle(ip, ntp_proto::verif_hook::time::timestamp_from_raw(1 << 40), &[0x23; 10], &mut buf, &mut stats) {
                ntp_proto::ServerAction::Ignore => Seen::Ignored,
                ntp_proto::ServerAction::Respond { .. } => Seen::Answered { deny: false },
            };
            ensure!(stats.entries.len() == 1, "statistics-count", "{} statistics entries for one request", stats.entries.len());
            (seen, stats.entries[0])
        } else {
            match w_srv::ask(&mut server, ip, k as u64 + 1) {
                Ok(x) => x,
                Err(e) => return Outcome::fail("server-answer-malformed", e),
            }
        };
        let ctx = || format!("op #{k} {ip} (class {class}, malformed {malformed}, size {size}, cutoff_1h {cutoff_1h}): saw {seen:?} / {st:?}; ops {ops:?}");
        match class {
            1 | 2 => {
                // stopped by a list: configured action, reason policy, never "rate limit"; the model cache is untouched
                let ignores = if class == 1 { deny_ignores } else { allow_ignores };
                labels.add(if class == 1 { "denylisted" } else { "not-allowlisted" });
                stopped_between = true;
                ensure!(st.2 != ServerReason::RateLimit, "list-stopped-request-rate-limited", "{}", ctx());
                if ignores {
                    ensure!(seen == Seen::Ignored && st.3 == ServerResponse::Ignore && st.2 == ServerReason::Policy, "list-action-not-applied", "{}", ctx());
                } else if *malformed {
                    ensure!(seen == Seen::Ignored, "malformed-request-answered", "{}", ctx());
                } else {
                    ensure!(seen == (Seen::Answered { deny: true }) && st.3 == ServerResponse::Deny && st.2 == ServerReason::Policy, "list-action-not-applied", "{}", ctx());
                }
            }
            _ => {
                let want_limited = match slot {
                    None => false,
                    Some(i) => {
                        ensure!(i < slots.len(), "cache-larger-than-configured", "the server's cache has a slot {i} although the configured size is {size}: {}", ctx());
                        let prev = slots[i].replace(ip);
                        cutoff_1h && prev == Some(ip)
                    }
                };
                if want_limited {
                    limited_seen += 1;
                    labels.add("limited");
                    labels.add_if(stopped_between, "limited-after-list-stopped-request");
                    ensure!(seen == Seen::Ignored && st.2 == ServerReason::RateLimit && st.3 == ServerResponse::Ignore,
                        "not-limited-within-cutoff", "{}", ctx());
                } else {
                    labels.add("served");
                    ensure!(st.2 != ServerReason::RateLimit,
                        if size == 0 { "size-0-limits" } else { "limited-without-own-recent-request" }, "{}", ctx());
                    if *malformed {
                        ensure!(seen == Seen::Ignored && st.2 == ServerReason::ParseError, "malformed-request-answered", "{}", ctx());
                    } else {
                        ensure!(seen == (Seen::Answered { deny: false }) && st.3 == ServerResponse::ProvideTime, "passed-request-not-served", "{}", ctx());
                    }
                }
            }
        }
    }
    labels.add_if(size == 0, "size-0");
    labels.add_if(!cutoff_1h, "cutoff-0");
    let mut out = Outcome::pass(ops.len() >= 2 && (limited_seen > 0 || size == 0 || !cutoff_1h));
    out.labels = labels.0;
    out
}

impl Property for C20 {
    type Case = Case;
    const ID: &'static str = "C20";
    const RULE: &'static str = "(i) 75%: cache size from {0,1,2,3,7,64}, cutoff from {0,1ns,1ms,1s,1h,random}, 0..40 requests (address from a pool of 12 v4/v6 addresses, arrival = previous + {0,1,2,…,1h,random} ns or exactly own previous request + cutoff + {-1,0,+1} ns, never going back in time), injected Instants; (ii) 25%: Server::handle with deny list 10/8, allow list {10/7, 192.168/16, 2001:db8::/32}, both list actions, cache size {0,1,2,64}, cutoff 0 or 1 h, 0..30 requests (well-formed or 10-byte malformed) from 12 addresses (served / denied / not allowed, incl. IPv4-mapped). Non-trivial = at least one address asks twice (and, for size>0, a decision depends on its own earlier request) (distinct = distinct case)";
    const ASSUMPTIONS: &'static [&'static str] = &[
        "arrival times never decrease (Instant::now() is monotonic)",
        "the cache slot of an address is taken from the cache under test (random per-instance hash); which addresses share a slot is therefore an input, not a verdict",
        "a request that passes the lists counts as the client's previous request even if it was itself rate limited or malformed (the limiter sits directly behind the lists)",
        "part (ii) uses the real clock inside Server::handle: cutoff 0 (never limits) or 1 h (two requests of one case are always closer than that)",
        "the plain address and its IPv4-mapped form are treated as different clients by the limiter (not part of the statement; never used together in part (i))",
    ];
    const QUICK_CASES: u32 = 2_000_000;
    const THOROUGH_CASES: u32 = 80_000_000;

    fn strategy(_tier: Tier) -> BoxedStrategy<Case> {
        prop_oneof![
            3 => (
                prop::sample::select(vec![0u16, 1, 2, 3, 7, 64]),
                prop_oneof![
                    3 => prop::sample::select(vec![0u64, 1, 2, 1_000_000, 1_000_000_000, 3_600_000_000_000]),
                    1 => any::<u32>().prop_map(|v| v as u64),
                    1 => 0u64..10_000_000_000_000,
                ],
                prop::collection::vec((0u8..12, gap()), 0..40),
            )
                .prop_map(|(size, cutoff_ns, ops)| Case::Cache { size, cutoff_ns, ops }),
            1 => (
                prop::sample::select(vec![0u16, 1, 2, 64]),
                prop::bool::weighted(0.8),
                any::<bool>(),
                any::<bool>(),
                prop::collection::vec((0u8..12, prop::bool::weighted(0.1)), 0..30),
            )
                .prop_map(|(size, cutoff_1h, deny_ignores, allow_ignores, ops)| Case::Server { size, cutoff_1h, deny_ignores, allow_ignores, ops }),
        ]
        .boxed()
    }

    fn enumerate(_tier: Tier) -> Vec<Case> {
        let mut v = Vec::new();
        // same address exactly at, just below, just above the cutoff; size 1 interleaving
        for size in [0u16, 1, 7] {
            for cutoff_ns in [0u64, 1, 1_000_000_000] {
                v.push(Case::Cache {
                    size,
                    cutoff_ns,
                    ops: vec![(0, Gap::Plus(5)), (0, Gap::OwnCutoff(-1)), (0, Gap::OwnCutoff(0)), (0, Gap::OwnCutoff(1)), (0, Gap::Plus(0)), (1, Gap::Plus(0)), (0, Gap::Plus(0)), (0, Gap::Plus(0))],
                });
            }
        }
        // a denied / not-allowed request between two requests of a served client must not free the slot
        for deny_ignores in [false, true] {
            v.push(Case::Server { size: 1, cutoff_1h: true, deny_ignores, allow_ignores: !deny_ignores, ops: vec![(0, false), (6, false), (0, false), (9, false), (0, false), (1, false), (0, false)] });
            v.push(Case::Server { size: 0, cutoff_1h: true, deny_ignores, allow_ignores: deny_ignores, ops: vec![(0, false), (0, false), (6, false), (0, true), (0, false)] });
        }
        v
    }

    fn enumeration_note() -> Option<&'static str> {
        Some("hand-picked: one address at cutoff-1/cutoff/cutoff+1 ns for sizes {0,1,7} x cutoffs {0,1ns,1s}; size-1 server with a denied / not-allowed request between two requests of a served client; size-0 server")
    }

    fn check(case: &Case) -> Outcome {
        match case {
            Case::Cache { size, cutoff_ns, ops } => check_cache(*size as usize, *cutoff_ns, ops).label("part-i-cache"),
            Case::Server { size, cutoff_1h, deny_ignores, allow_ignores, ops } => {
                check_server(*size as usize, *cutoff_1h, *deny_ignores, *allow_ignores, ops).label("part-ii-server")
            }
        }
    }
}
