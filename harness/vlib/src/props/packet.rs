//! C23 (decoder total), C24 (decode/encode round trip), C25 (tampered NTS packets).
use std::io::Cursor;
use std::sync::Arc;

use crate::engine::*;
use crate::refwire::*;
use crate::w_server::*;
use ntp_proto::verif_hook as nh;
use ntp_proto::{Cipher, ExtensionField, KeySet, KeySetProvider, NoCipher, NtpPacket, PacketParsingError};
use proptest::prelude::*;
use serde::{Deserialize, Serialize};

#[derive(Debug, Clone, Serialize, Deserialize)]
pub struct PktCase {
    /// 0 = no keys, 1 = client session keys (s2c), 2 = server cookie keys
    pub ctx: u8,
    pub key_seed: u64,
    pub rotations: u8,
    pub input: ReqSpec,
}

fn keysets(rotations: u8) -> (Vec<Arc<KeySet>>, Arc<KeySet>) {
    let mut provider = KeySetProvider::dangerous_new_deterministic(2);
    let mut v = vec![provider.get()];
    for _ in 0..rotations.min(3) {
        provider.rotate();
        v.push(provider.get());
    }
    (v, KeySetProvider::new(0).get())
}

fn build(case: &PktCase) -> (Built, Vec<Arc<KeySet>>) {
    let (ks, foreign) = keysets(case.rotations);
    let jar = CookieJar { keysets: &ks, foreign: &foreign };
    let mut b = build_request(&case.input, &jar, case.key_seed);
    b.bytes.truncate(4096);
    (b, ks)
}

fn pkt_strategy(raw_max: usize) -> BoxedStrategy<PktCase> {
    let input = prop_oneof![
        5 => packet_strategy().prop_map(ReqSpec::Built),
        3 => conformant_strategy().prop_map(ReqSpec::Built),
        4 => soup_request(),
        1 => tight_strategy().prop_map(ReqSpec::Built),
        1 => tight_nts_strategy().prop_map(ReqSpec::Built),
        2 => prop::collection::vec(any::<u8>(), 0..120).prop_map(ReqSpec::Raw),
        2 => prop::collection::vec(any::<u8>(), 48..raw_max).prop_map(ReqSpec::Raw),
        // raw: plausible header + random tail
        2 => (prop_oneof![Just(0x23u8), Just(0x2bu8), Just(0x1bu8), Just(0x24), Just(0x2c), any::<u8>()],
              prop::collection::vec(any::<u8>(), 47..400)).prop_map(|(b0, mut v)| { v.insert(0, b0); ReqSpec::Raw(v) }),
        6 => (
            prop_oneof![packet_strategy(), conformant_strategy()],
            prop::collection::vec((any::<u16>(), any::<u8>()), 0..4),
            prop_oneof![3 => Just(None), 1 => any::<u16>().prop_map(Some)],
            prop_oneof![3 => Just(Vec::new()).boxed(), 1 => prop::collection::vec(any::<u8>(), 0..80).boxed()],
        ).prop_map(|(base, flips, truncate, append)| ReqSpec::Mutated { base, flips, truncate, append }),
    ];
    (0u8..3, any::<u64>(), 0u8..3, input)
        .prop_map(|(ctx, key_seed, rotations, input)| PktCase { ctx, key_seed, rotations, input })
        .boxed()
}

fn raw_case(data: &[u8]) -> Option<PktCase> {
    let (&sel, rest) = data.split_first()?;
    Some(PktCase { ctx: sel % 3, key_seed: (sel / 3) as u64, rotations: 0, input: ReqSpec::Raw(rest.to_vec()) })
}

enum Decoded {
    Ok { auth: usize, enc: usize, cookie: bool },
    DecryptErr,
    Err,
}

fn decode_ctx(data: &[u8], ctx: u8, keys: Option<&SessionKeys>, ks: &[Arc<KeySet>]) -> Decoded {
    let summarize = |r: Result<(NtpPacket<'_>, Option<ntp_proto::DecodedServerCookie>), PacketParsingError<'_>>| match r {
        Ok((p, c)) => {
            let (a, e, _) = nh::packet::ef_lists(&p);
            // exercise the accessors a caller would use
            let _ = (p.version(), p.mode(), p.stratum(), p.poll(), p.is_kiss(), p.is_upgrade(), p.new_cookies().count());
            Decoded::Ok { auth: a.len(), enc: e.len(), cookie: c.is_some() }
        }
        Err(PacketParsingError::DecryptError(_)) => Decoded::DecryptErr,
        Err(_) => Decoded::Err,
    };
    match ctx {
        0 => summarize(NtpPacket::deserialize(data, &NoCipher)),
        1 => {
            let key = keys.map(|k| k.s2c.0.clone()).unwrap_or_else(|| seeded_bytes(7, 32));
            let c: Box<dyn Cipher> = nh::make_cipher(&key).unwrap();
            summarize(NtpPacket::deserialize(data, c.as_ref()))
        }
        _ => summarize(NtpPacket::deserialize(data, ks.last().unwrap().as_ref())),
    }
}

// ---------------------------------------------------------------------------
pub struct C23;
impl Property for C23 {
    type Case = PktCase;
    const ID: &'static str = "C23";
    const RULE: &'static str = "byte strings 0..4096 (raw, plausible header + random tail, reference-built v3/v4/v5 packets with extension-field chains, NTS authenticators and MACs, mutations/truncations/extensions of those, and well-formed headers followed by raw extension-field chains whose declared lengths are equal to / slightly off / unrelated to the bytes present, incl. authenticator fields with small nonce/ciphertext length fields) × three key contexts (none, client session key, server cookie keys incl. rotated key sets); oracle = NtpPacket::deserialize and the packet accessors return (no panic); non-trivial = input of at least 48 bytes with a decodable version field";
    const ASSUMPTIONS: &'static [&'static str] = &["release semantics (debug assertions off); a panic is observed through unwinding"];
    const QUICK_CASES: u32 = 1_000_000;
    const THOROUGH_CASES: u32 = 80_000_000;
    fn strategy(_t: Tier) -> BoxedStrategy<PktCase> {
        pkt_strategy(4097)
    }
    fn check(case: &PktCase) -> Outcome {
        let (b, ks) = build(case);
        let r = decode_ctx(&b.bytes, case.ctx, b.keys.as_ref(), &ks);
        let nontrivial = b.bytes.len() >= 48 && matches!((b.bytes[0] >> 3) & 7, 3..=5);
        let mut out = Outcome::pass(nontrivial).label(match case.ctx {
            0 => "ctx-none",
            1 => "ctx-client",
            _ => "ctx-server",
        });
        out = match r {
            Decoded::Ok { auth, enc, cookie } => out
                .label("decoded-ok")
                .labels((auth > 0).then_some("authenticated-fields"))
                .labels((enc > 0).then_some("encrypted-fields"))
                .labels(cookie.then_some("cookie-recovered")),
            Decoded::DecryptErr => out.label("decrypt-error"),
            Decoded::Err => out.label("parse-error"),
        };
        out
    }
    fn from_bytes(data: &[u8]) -> Option<PktCase> {
        raw_case(data)
    }
}

// ---------------------------------------------------------------------------
pub struct C24;

fn encode(p: &NtpPacket<'_>) -> Result<Vec<u8>, String> {
    let mut buf = vec![0u8; 1 << 16];
    let mut cur = Cursor::new(buf.as_mut_slice());
    p.serialize(&mut cur, &NoCipher, None).map_err(|e| e.to_string())?;
    let n = cur.position() as usize;
    buf.truncate(n);
    Ok(buf)
}

impl Property for C24 {
    type Case = PktCase;
    const ID: &'static str = "C24";
    const RULE: &'static str = "inputs as for C23 without keys; for every input the decoder accepts: re-encode (64 KiB buffer) must succeed, decoding the re-encoded bytes must succeed and yield a packet whose encoding equals those bytes and which decodes to itself (stable after one normalising round); non-trivial = accepted packet with at least one extension field or a MAC (distinct inputs)";
    const ASSUMPTIONS: &'static [&'static str] = &["p1 == p2 is not demanded: v4 padding legitimately becomes field data on the first round", "release semantics"];
    const QUICK_CASES: u32 = 600_000;
    const THOROUGH_CASES: u32 = 18_000_000;
    fn strategy(_t: Tier) -> BoxedStrategy<PktCase> {
        pkt_strategy(1500).prop_map(|mut c| { c.ctx = 0; c }).boxed()
    }
    fn check(case: &PktCase) -> Outcome {
        let (b, _ks) = build(case);
        let data = b.bytes;
        let Ok((p1, _)) = NtpPacket::deserialize(&data, &NoCipher) else {
            return Outcome::pass(false).label("not-accepted");
        };
        let (_, _, untrusted) = nh::packet::ef_lists(&p1);
        let nontrivial = !untrusted.is_empty() || nh::packet::has_mac(&p1);
        let ver = p1.version().as_u8();
        let vlabel = match ver { 3 => "v3", 4 => "v4", _ => "v5" };
        let b1 = match crate::engine::catch(|| encode(&p1)) {
            Ok(Ok(b1)) => b1,
            Ok(Err(e)) => {
                let kind = ef_kind_signature(&untrusted);
                return Outcome::fail(format!("accepted-packet-does-not-encode/v{ver}/{kind}"), format!("encode error {e} for an accepted v{ver} packet ({} bytes)", data.len()));
            }
            Err(p) => {
                let kind = ef_kind_signature(&untrusted);
                return Outcome::fail(format!("accepted-packet-encode-panics/v{ver}/{kind}"), format!("encode panicked: {p}"));
            }
        };
        let p2 = match NtpPacket::deserialize(&b1, &NoCipher) {
            Ok((p2, _)) => p2,
            Err(e) => return Outcome::fail(format!("reencoded-packet-rejected/v{ver}"), format!("decoder rejects its own encoding: {e}")),
        };
        let b2 = match encode(&p2) {
            Ok(b) => b,
            Err(e) => return Outcome::fail(format!("second-encode-fails/v{ver}"), e),
        };
        if b2 != b1 {
            return Outcome::fail(format!("encoding-not-stable/v{ver}"), format!("b1 {} bytes, b2 {} bytes", b1.len(), b2.len()));
        }
        match NtpPacket::deserialize(&b2, &NoCipher) {
            Ok((p3, _)) if p3 == p2 => {}
            _ => return Outcome::fail(format!("decode-not-stable/v{ver}"), "dec(enc(p2)) != p2".to_string()),
        }
        Outcome::pass(nontrivial)
            .label("accepted")
            .label(vlabel)
            .labels((b1 != data).then_some("normalised"))
            .labels(nh::packet::has_mac(&p1).then_some("mac"))
            .labels((!untrusted.is_empty()).then_some("extension-fields"))
    }
    fn from_bytes(data: &[u8]) -> Option<PktCase> {
        Some(PktCase { ctx: 0, key_seed: 0, rotations: 0, input: ReqSpec::Raw(data.to_vec()) })
    }
}

fn ef_kind_signature(efs: &[ExtensionField<'static>]) -> String {
    // name of the first field kind that is special (structural signature only)
    for e in efs {
        match e {
            ExtensionField::ReferenceIdRequest(r) if r.payload_len() % 4 != 0 => return "refid-request-length-not-multiple-of-4".into(),
            ExtensionField::ReferenceIdRequest(_) => return "refid-request".into(),
            ExtensionField::ReferenceIdResponse(_) => return "refid-response".into(),
            _ => {}
        }
    }
    "other".into()
}

// ---------------------------------------------------------------------------
pub struct C25;

#[derive(Debug, Clone, Serialize, Deserialize)]
pub struct TamperCase {
    pub spec: PacketSpec,
    /// true: response decoded by a client with the s2c key; false: request decoded by the server key set
    pub response: bool,
    pub key_seed: u64,
    pub subst_seed: u64,
    pub rotations: u8,
}

fn ef_fingerprint(v: &[ExtensionField<'static>]) -> String {
    format!("{v:?}")
}

impl Property for C25 {
    type Case = TamperCase;
    const ID: &'static str = "C25";
    const RULE: &'static str = "valid NTS requests (decoded with the server key set, cookie under the current or a retained key) and responses (decoded with the client's s2c key) built by the reference codec with random field layouts, nonce lengths and authenticator padding; for each packet EVERY single-bit flip and 3 byte substitutions at EVERY position (exhaustive over positions); oracle = region map of the builder: header/pre-authenticator fields/nonce/ciphertext ⇒ nothing authenticated, nothing encrypted, no cookie keys; other regions ⇒ that, or authenticated+encrypted lists identical to the original; non-trivial = packet with ≥1 authenticated and ≥1 encrypted field (distinct packets)";
    const ASSUMPTIONS: &'static [&'static str] = &["AES-SIV forgery probability is negligible", "the reference builder's region map is trusted"];
    const QUICK_CASES: u32 = 6_400;
    const THOROUGH_CASES: u32 = 200_000;
    const MAX_SHRINK_ITERS: u32 = 300;
    fn strategy(_t: Tier) -> BoxedStrategy<TamperCase> {
        (conformant_strategy(), any::<bool>(), any::<u64>(), any::<u64>(), 0u8..3, prop::collection::vec(any::<u8>(), 0..40), 0u8..3, prop::collection::vec(ef_strategy(false), 0..3))
            .prop_filter("needs NTS", |(s, ..)| s.nts.is_some())
            .prop_map(|(mut spec, response, key_seed, subst_seed, rotations, nonce, extra_pad, post)| {
                if let Some(n) = &mut spec.nts {
                    if nonce.len() % 3 == 0 && !nonce.is_empty() {
                        n.nonce = nonce;
                    }
                    n.extra_pad = extra_pad;
                    if response {
                        n.key = KeySel::S2C;
                    }
                }
                if response {
                    spec.mode = 4;
                    spec.stratum = spec.stratum.max(1);
                }
                spec.post = post;
                if let Some(EfSpec::Cookie(CookieSpec::Issued { age })) = spec.pre.get_mut(1) {
                    *age = (*age).min(rotations).min(2);
                }
                TamperCase { spec, response, key_seed, subst_seed, rotations }
            })
            .boxed()
    }
    fn check(case: &TamperCase) -> Outcome {
        let (ks, foreign) = keysets(case.rotations);
        let jar = CookieJar { keysets: &ks, foreign: &foreign };
        let b = build_packet(&case.spec, &jar, case.key_seed);
        let data = b.bytes.clone();
        let Some(keys) = b.keys.clone() else { return Outcome::pass(false).label("discard-no-nts") };
        let client_cipher: Box<dyn Cipher> = nh::make_cipher(&keys.s2c.0).unwrap();
        let server_keys = ks.last().unwrap().clone();
        let decode = |d: &[u8]| -> Option<(String, String, bool)> {
            let r = if case.response {
                NtpPacket::deserialize(d, client_cipher.as_ref())
            } else {
                NtpPacket::deserialize(d, server_keys.as_ref())
            };
            match r {
                Ok((p, c)) => {
                    let (a, e, _) = nh::packet::ef_lists(&p);
                    Some((ef_fingerprint(&a), ef_fingerprint(&e), c.is_some() || !a.is_empty() || !e.is_empty()))
                }
                Err(PacketParsingError::DecryptError(p)) => {
                    let (a, e, _) = nh::packet::ef_lists(&p);
                    Some((ef_fingerprint(&a), ef_fingerprint(&e), !a.is_empty() || !e.is_empty()))
                }
                Err(_) => None,
            }
        };
        let Some((orig_a, orig_e, orig_any)) = decode(&data) else {
            return Outcome::pass(false).label("discard-original-rejected");
        };
        if !orig_any || orig_a == "[]" {
            return Outcome::pass(false).label("discard-original-not-authenticated");
        }
        // region map from the reference decoder
        let rp = decode_packet(&data, Some(if case.response { &keys.s2c } else { &keys.c2s })).unwrap();
        let auth_off = rp.auth_offset.unwrap();
        let nonce_len = rp.auth_nonce_len.unwrap();
        let ct_len = u16::from_be_bytes([data[auth_off + 6], data[auth_off + 7]]) as usize;
        let reg = auth_regions(nonce_len, ct_len, 0);
        let protected = |i: usize| -> bool {
            i < auth_off
                || (i >= auth_off + reg.nonce.0 && i < auth_off + reg.nonce.1)
                || (i >= auth_off + reg.ciphertext.0 && i < auth_off + reg.ciphertext.1)
        };
        let mut x = case.subst_seed | 1;
        let mut next = move || {
            x ^= x << 13;
            x ^= x >> 7;
            x ^= x << 17;
            x
        };
        let mut tampered = 0u64;
        let mut labels = Labels::default();
        for i in 0..data.len() {
            let mut variants: Vec<u8> = (0..8).map(|b| data[i] ^ (1 << b)).collect();
            for _ in 0..3 {
                let v = next() as u8;
                if v != data[i] {
                    variants.push(v);
                }
            }
            for v in variants {
                let mut d = data.clone();
                d[i] = v;
                tampered += 1;
                let res = decode(&d);
                let region = if i < 48 {
                    "header"
                } else if i < auth_off {
                    "pre-authenticator-field"
                } else if i < auth_off + 8 {
                    "authenticator-lengths"
                } else if protected(i) {
                    "nonce-or-ciphertext"
                } else if i < auth_off + 4 + (u16::from_be_bytes([data[auth_off + 2], data[auth_off + 3]]) as usize) {
                    "authenticator-padding"
                } else {
                    "after-authenticator"
                };
                labels.add(region);
                match res {
                    None => {}
                    Some((a, e, any)) => {
                        if protected(i) {
                            if any {
                                return Outcome::fail(
                                    format!("tampered-{region}-still-authenticates"),
                                    format!("byte {i} ({region}) changed {:#04x}->{:#04x}: authenticated {a} encrypted {e}", data[i], v),
                                );
                            }
                        } else if any && (a != orig_a || e != orig_e) {
                            return Outcome::fail(
                                format!("tampered-{region}-changes-authenticated-content"),
                                format!("byte {i} ({region}) changed {:#04x}->{:#04x}: authenticated {a} (orig {orig_a}) encrypted {e} (orig {orig_e})", data[i], v),
                            );
                        }
                    }
                }
            }
        }
        let _ = tampered;
        let mut out = Outcome::pass(orig_e != "[]");
        out.labels = labels.0;
        out.label(if case.response { "response" } else { "request" })
    }
}
