//! C42 — the multi-clock estimator keeps unrelated estimates intact.
//!
//! Two worlds:
//!  * `Est`: op sequences directly on `EstimatorState` (the way `LinkFilter` uses it: operate on a
//!    clone, keep the old state when the operation fails). Every add/remove of a clock or link is
//!    bracketed by a snapshot of all reported estimates (clock offset/frequency, link delay; value
//!    and uncertainty as bit patterns); everything but the touched entry must be bit-identical.
//!    Unknown / duplicate identifiers must be refused; going back in time must be refused.
//!  * `Ctrl`: the same through the public `KalmanController` API (add/remove clock, external clock,
//!    create/drop link, measurements with a mock clock that can also run backwards); a failing call
//!    must leave the whole filter (Debug rendering) and the steered-clock list unchanged.
use crate::engine::*;
use crate::w_algo::*;
use proptest::prelude::*;
use serde::{Deserialize, Serialize};
use statime_algo::verif_hook as hk;
use statime_algo::{AlgoError, KalmanController, KalmanLink, Measurement, StdKalmanStorage};
use statime_base::{ClockId, DirectedLinkId, Direction, Duration, LinkId, TAI, Timestamp};
use std::sync::Arc;

pub struct C42;

type St = StdKalmanStorage<RecClock>;
type Est = hk::EstimatorState<St>;
type Ctrl = KalmanController<St, RecClock>;
type Link = KalmanLink<Arc<Ctrl>, St, RecClock>;

#[derive(Debug, Clone, Serialize, Deserialize)]
pub enum EOp {
    AddClock { off: Sci, off_unc: Sci, freq: Sci, freq_unc: Sci, wander: Sci },
    AddExternal,
    AddLink { a: u16, b: u16, delay: Sci, delay_unc: Sci, decay: Sci },
    RemoveClock { c: u16 },
    RemoveLink { l: u16 },
    /// measurement through an estimator link (delay row involved)
    MeasureLink { l: u16, forward: bool, value: Sci, unc: Sci },
    /// measurement between two clocks without a delay row
    MeasurePair { a: u16, b: u16, value: Sci, unc: Sci },
    /// progress time by `millis` (negative: must be refused)
    Progress { millis: i32 },
    AbsorbOffset { c: u16, d: Sci },
    AbsorbFreq { c: u16, d: Sci },
    /// add an id that already exists (as internal or as external clock)
    DupClock { c: u16, as_external: bool },
    /// 0: never-known/removed id via remove_clock, 1: same via remove_external_clock,
    /// 2: external id via remove_clock, 3: internal id via remove_external_clock
    BadRemoveClock { kind: u8, c: u16 },
    DupLink { l: u16 },
    BadRemoveLink { l: u16 },
    /// add a link one of whose clocks is unknown
    LinkUnknownClock { a: u16, g: u16 },
    /// measurement involving an unknown clock / an unknown delay link
    BadMeasure { a: u16, g: u16, unknown_link: bool },
}

#[derive(Debug, Clone, Serialize, Deserialize)]
pub enum KOp {
    AddClock { max_freq: Sci, wander: Sci },
    AddExternal,
    Link { a: u16, b: u16, tracked: bool, decay: Sci },
    DropLink { l: u16 },
    /// remove clock `c` (system clock, clocks in use and external clocks included)
    RemoveClock { c: u16 },
    /// 0: removed id via remove_clock, 1: removed id via remove_external_clock,
    /// 2: external id via remove_clock, 3: internal id via remove_external_clock, 4: link with a removed clock id
    BadId { kind: u8, c: u16, g: u16 },
    Measure { l: u16, forward: bool, value: Sci, unc: Sci },
    Advance { millis: u32 },
    /// run the system clock backwards (without telling the controller), measure, expect refusal
    Backwards { l: u16, millis: u32 },
}

#[derive(Debug, Clone, Serialize, Deserialize)]
pub enum Case {
    Est { ops: Vec<EOp> },
    Ctrl { sys_max_freq: Sci, ops: Vec<KOp> },
}

type Bits = Vec<u64>;

fn uv_bits(v: hk::UncertainValue) -> Bits {
    vec![v.value.to_bits(), v.uncertainty.to_bits()]
}

#[derive(Debug, Clone, PartialEq)]
struct Snapshot {
    clocks: Vec<(ClockId, Bits)>,
    links: Vec<(LinkId, Bits)>,
}

fn snapshot(e: &Est) -> Result<Snapshot, String> {
    let mut s = Snapshot { clocks: vec![], links: vec![] };
    for id in hk::est::clock_ids(e) {
        let o = e.clock_offset(id).map_err(|x| format!("clock_offset of a listed clock: {x:?}"))?;
        let f = e.clock_frequency(id).map_err(|x| format!("clock_frequency of a listed clock: {x:?}"))?;
        let mut b = uv_bits(o);
        b.extend(uv_bits(f));
        s.clocks.push((id, b));
    }
    for id in hk::est::link_ids(e) {
        let d = hk::est::link_delay(e, id).map_err(|x| format!("link_delay of a listed link: {x:?}"))?;
        s.links.push((id, uv_bits(d)));
    }
    s.clocks.sort();
    s.links.sort();
    Ok(s)
}

/// compare two snapshots ignoring the entries of `skip_clock` / `skip_link`; returns description of the first difference
fn others_changed(a: &Snapshot, b: &Snapshot, skip_clock: Option<ClockId>, skip_link: Option<LinkId>) -> Option<String> {
    let fc = |s: &Snapshot| s.clocks.iter().filter(|(id, _)| Some(*id) != skip_clock).cloned().collect::<Vec<_>>();
    let fl = |s: &Snapshot| s.links.iter().filter(|(id, _)| Some(*id) != skip_link).cloned().collect::<Vec<_>>();
    let (ca, cb) = (fc(a), fc(b));
    if ca.len() != cb.len() {
        return Some(format!("number of other clocks changed {} -> {}", ca.len(), cb.len()));
    }
    for (x, y) in ca.iter().zip(&cb) {
        if x != y {
            let f = |b: &Bits| b.iter().map(|v| format!("{:e}", f64::from_bits(*v))).collect::<Vec<_>>().join(", ");
            return Some(format!("clock {:?}: [offset, ±, frequency, ±] = [{}] -> [{}]", x.0, f(&x.1), f(&y.1)));
        }
    }
    let (la, lb) = (fl(a), fl(b));
    if la.len() != lb.len() {
        return Some(format!("number of other links changed {} -> {}", la.len(), lb.len()));
    }
    for (x, y) in la.iter().zip(&lb) {
        if x != y {
            let f = |b: &Bits| b.iter().map(|v| format!("{:e}", f64::from_bits(*v))).collect::<Vec<_>>().join(", ");
            return Some(format!("link {:?}: [delay, ±] = [{}] -> [{}]", x.0, f(&x.1), f(&y.1)));
        }
    }
    None
}

fn ts0() -> Timestamp<TAI> {
    Timestamp::from_seconds_nanos_since_unix_epoch(1_700_000_000, 0)
}

fn approx(a: f64, b: f64) -> bool {
    a == b || (a - b).abs() <= 1e-14 * a.abs().max(b.abs())
}

macro_rules! bail {
    ($sig:expr, $($fmt:tt)*) => {
        return Err(Outcome::fail($sig, format!($($fmt)*)))
    };
}

// ---------------------------------------------------------------------------
// estimator world

struct EW {
    e: Est,
    /// (id, internal)
    clocks: Vec<(ClockId, bool)>,
    links: Vec<LinkId>,
    ghost_clocks: Vec<ClockId>,
    ghost_links: Vec<LinkId>,
}

fn fresh_id(spare: &mut std::collections::VecDeque<ClockId>) -> ClockId {
    let id = if spare.len() % 2 == 0 { spare.pop_back() } else { spare.pop_front() };
    id.unwrap_or_else(ClockId::new)
}

fn run_est(ops: &[EOp]) -> Result<Outcome, Outcome> {
    let mut labels = Labels::default();
    labels.add("est");
    let mut w = EW {
        e: Est::empty(ts0()),
        clocks: vec![],
        links: vec![],
        ghost_clocks: vec![ClockId::new(), ClockId::new()],
        ghost_links: vec![],
    };
    {
        let (a, b) = (ClockId::new(), ClockId::new());
        w.ghost_links.push(LinkId::new(a, b).unwrap());
    }
    // clock ids are opaque: they need not be registered in the order they were created. A pool created up front
    // is handed out from alternating ends, so registration order and id order differ
    let mut spare: std::collections::VecDeque<ClockId> = (0..12).map(|_| ClockId::new()).collect();
    let mut compared = 0u32;
    let mut measured = false;
    for op in ops {
        let before = snapshot(&w.e).map_err(|m| Outcome::fail("snapshot-failed", m))?;
        let t_before = hk::est::time(&w.e);
        match op {
            EOp::AddClock { off, off_unc, freq, freq_unc, wander } => {
                if w.clocks.len() >= 7 {
                    continue;
                }
                let id = fresh_id(&mut spare);
                let (o, f) = (hk::UncertainValue { value: off.f(), uncertainty: off_unc.f() }, hk::UncertainValue { value: freq.f(), uncertainty: freq_unc.f() });
                match w.e.clone().add_clock(id, o, f, wander.f()) {
                    Ok(n) => {
                        let after = snapshot(&n).map_err(|m| Outcome::fail("snapshot-failed", m))?;
                        if let Some(d) = others_changed(&before, &after, Some(id), None) {
                            bail!("add-clock-changed-other-estimate", "{d}");
                        }
                        let (ro, rf) = (n.clock_offset(id), n.clock_frequency(id));
                        let ok = matches!((&ro, &rf), (Ok(a), Ok(b)) if a.value == o.value && approx(a.uncertainty, o.uncertainty) && b.value == f.value && approx(b.uncertainty, f.uncertainty));
                        if !ok {
                            bail!("added-clock-reports-wrong-initial-estimate", "added offset {o:?} frequency {f:?}, reported {ro:?} {rf:?}");
                        }
                        compared += (before.clocks.len() + before.links.len()) as u32;
                        w.e = n;
                        w.clocks.push((id, true));
                        labels.add("add-clock");
                        labels.add_if(!before.links.is_empty(), "add-clock-after-links");
                    }
                    Err(e) => bail!("add-clock-refused", "fresh id refused: {e:?}"),
                }
            }
            EOp::AddExternal => {
                if w.clocks.len() >= 7 {
                    continue;
                }
                let id = fresh_id(&mut spare);
                match w.e.clone().add_external_clock(id) {
                    Ok(n) => {
                        let after = snapshot(&n).map_err(|m| Outcome::fail("snapshot-failed", m))?;
                        if let Some(d) = others_changed(&before, &after, None, None) {
                            bail!("add-external-clock-changed-estimate", "{d}");
                        }
                        w.e = n;
                        w.clocks.push((id, false));
                        labels.add("add-external");
                    }
                    Err(e) => bail!("add-external-refused", "fresh id refused: {e:?}"),
                }
            }
            EOp::AddLink { a, b, delay, delay_unc, decay } => {
                if w.clocks.len() < 2 || w.links.len() >= 6 {
                    continue;
                }
                let (ia, ib) = (idx(*a, w.clocks.len()), idx(*b, w.clocks.len()));
                let Some(id) = LinkId::new(w.clocks[ia].0, w.clocks[ib].0) else { continue };
                let d = hk::UncertainValue { value: delay.f(), uncertainty: delay_unc.f() };
                match w.e.clone().add_link(id, d, decay.f()) {
                    Ok(n) => {
                        let after = snapshot(&n).map_err(|m| Outcome::fail("snapshot-failed", m))?;
                        if let Some(x) = others_changed(&before, &after, None, Some(id)) {
                            bail!("add-link-changed-other-estimate", "{x}");
                        }
                        let r = hk::est::link_delay(&n, id);
                        if !matches!(&r, Ok(v) if v.value == d.value && approx(v.uncertainty, d.uncertainty)) {
                            bail!("added-link-reports-wrong-initial-estimate", "added {d:?}, reported {r:?}");
                        }
                        compared += (before.clocks.len() + before.links.len()) as u32;
                        w.e = n;
                        w.links.push(id);
                        labels.add("add-link");
                    }
                    Err(e) => bail!("add-link-refused", "link between known clocks refused: {e:?}"),
                }
            }
            EOp::RemoveClock { c } => {
                if w.clocks.is_empty() {
                    continue;
                }
                let ci = idx(*c, w.clocks.len());
                let (id, internal) = w.clocks[ci];
                if w.links.iter().any(|l| l.contains_clock(id)) {
                    // the only caller (LinkFilter::remove_clock) refuses this before reaching the estimator
                    labels.add("skip-remove-clock-in-use");
                    continue;
                }
                let r = if internal { w.e.clone().remove_clock(id) } else { w.e.clone().remove_external_clock(id) };
                match r {
                    Ok(n) => {
                        let after = snapshot(&n).map_err(|m| Outcome::fail("snapshot-failed", m))?;
                        if let Some(d) = others_changed(&before, &after, Some(id), None) {
                            bail!(if internal { "remove-clock-changed-other-estimate" } else { "remove-external-clock-changed-estimate" }, "{d}");
                        }
                        if after.clocks.iter().any(|(x, _)| *x == id) || n.clock_offset(id).is_ok() {
                            bail!("removed-clock-still-reported", "clock {id:?} still has an estimate");
                        }
                        if internal {
                            compared += (after.clocks.len() + after.links.len()) as u32;
                            let last = before.clocks.len() > 0 && hk::est::clock_ids(&w.e).last() == Some(&id) && hk::est::link_ids(&w.e).is_empty();
                            labels.add(if last { "remove-clock-last-row" } else { "remove-clock-inner-row" });
                        }
                        w.e = n;
                        w.clocks.remove(ci);
                        w.ghost_clocks.push(id);
                    }
                    Err(e) => bail!("remove-clock-refused", "known clock {id:?} (internal: {internal}) refused: {e:?}"),
                }
            }
            EOp::RemoveLink { l } => {
                if w.links.is_empty() {
                    continue;
                }
                let li = idx(*l, w.links.len());
                let id = w.links[li];
                match w.e.clone().remove_link(id) {
                    Ok(n) => {
                        let after = snapshot(&n).map_err(|m| Outcome::fail("snapshot-failed", m))?;
                        if let Some(d) = others_changed(&before, &after, None, Some(id)) {
                            bail!("remove-link-changed-other-estimate", "{d}");
                        }
                        if hk::est::link_delay(&n, id).is_ok() {
                            bail!("removed-link-still-reported", "link {id:?} still has a delay estimate");
                        }
                        compared += (after.clocks.len() + after.links.len()) as u32;
                        labels.add("remove-link");
                        w.e = n;
                        w.links.remove(li);
                        w.ghost_links.push(id);
                    }
                    Err(e) => bail!("remove-link-refused", "known link refused: {e:?}"),
                }
            }
            EOp::MeasureLink { l, forward, value, unc } => {
                if w.links.is_empty() {
                    continue;
                }
                let id = w.links[idx(*l, w.links.len())];
                let d = if *forward { id.forward() } else { id.reverse() };
                if let Ok(n) = w.e.clone().measurement(d, hk::UncertainValue { value: value.f(), uncertainty: unc.f() }, true) {
                    w.e = n;
                    measured = true;
                    labels.add("measured-link");
                }
            }
            EOp::MeasurePair { a, b, value, unc } => {
                if w.clocks.len() < 2 {
                    continue;
                }
                let (ia, ib) = (idx(*a, w.clocks.len()), idx(*b, w.clocks.len()));
                let Some(id) = LinkId::new(w.clocks[ia].0, w.clocks[ib].0) else { continue };
                if let Ok(n) = w.e.clone().measurement(id.forward(), hk::UncertainValue { value: value.f(), uncertainty: unc.f() }, false) {
                    w.e = n;
                    measured = true;
                    labels.add("measured-pair");
                }
            }
            EOp::Progress { millis } => {
                let d = Duration::from_seconds_nanos((*millis as i64).div_euclid(1000), (millis.rem_euclid(1000) as u32) * 1_000_000);
                let to = t_before + d;
                match w.e.clone().progress_time(to) {
                    Ok(n) => {
                        if *millis < 0 {
                            bail!("time-moved-backwards", "progress_time accepted a time {millis} ms before the current time");
                        }
                        if hk::est::time(&n) != to {
                            bail!("progress-time-wrong-time", "asked for {to:?}, estimator is at {:?}", hk::est::time(&n));
                        }
                        w.e = n;
                        labels.add_if(*millis > 0, "progressed");
                    }
                    Err(e) => {
                        if *millis >= 0 {
                            bail!("progress-time-refused", "forward progress by {millis} ms refused: {e:?}");
                        }
                        if e != (AlgoError::NonMonotonicTimeProgression { from: t_before, to }) {
                            bail!("backwards-time-wrong-error", "{e:?}");
                        }
                        labels.add("backwards-refused");
                    }
                }
            }
            EOp::AbsorbOffset { c, d } | EOp::AbsorbFreq { c, d } => {
                let internals: Vec<ClockId> = w.clocks.iter().filter(|c| c.1).map(|c| c.0).collect();
                if internals.is_empty() {
                    continue;
                }
                let id = internals[idx(*c, internals.len())];
                let r = if matches!(op, EOp::AbsorbOffset { .. }) { w.e.clone().absorb_offset_change(id, d.f()) } else { w.e.clone().absorb_frequency_steer(id, d.f()) };
                if let Ok(n) = r {
                    let after = snapshot(&n).map_err(|m| Outcome::fail("snapshot-failed", m))?;
                    if let Some(x) = others_changed(&before, &after, Some(id), None) {
                        bail!("steer-changed-other-estimate", "{x}");
                    }
                    w.e = n;
                }
            }
            EOp::DupClock { c, as_external } => {
                if w.clocks.is_empty() {
                    continue;
                }
                let (id, _) = w.clocks[idx(*c, w.clocks.len())];
                let r = if *as_external {
                    w.e.clone().add_external_clock(id).map(|_| ())
                } else {
                    let u = hk::UncertainValue { value: 0.0, uncertainty: 1.0 };
                    w.e.clone().add_clock(id, u, u, 1e-8).map(|_| ())
                };
                match r {
                    Err(AlgoError::ClockAlreadyExists(x)) if x == id => labels.add("dup-clock-refused"),
                    other => bail!("duplicate-clock-not-refused", "adding existing clock {id:?} (as external: {as_external}) returned {other:?}"),
                }
            }
            EOp::BadRemoveClock { kind, c } => {
                let (id, r) = match kind % 4 {
                    0 => {
                        let id = w.ghost_clocks[idx(*c, w.ghost_clocks.len())];
                        (id, w.e.clone().remove_clock(id).map(|_| ()))
                    }
                    1 => {
                        let id = w.ghost_clocks[idx(*c, w.ghost_clocks.len())];
                        (id, w.e.clone().remove_external_clock(id).map(|_| ()))
                    }
                    2 => {
                        let ext: Vec<ClockId> = w.clocks.iter().filter(|c| !c.1).map(|c| c.0).collect();
                        if ext.is_empty() {
                            continue;
                        }
                        let id = ext[idx(*c, ext.len())];
                        (id, w.e.clone().remove_clock(id).map(|_| ()))
                    }
                    _ => {
                        let int: Vec<ClockId> = w.clocks.iter().filter(|c| c.1).map(|c| c.0).collect();
                        if int.is_empty() {
                            continue;
                        }
                        let id = int[idx(*c, int.len())];
                        (id, w.e.clone().remove_external_clock(id).map(|_| ()))
                    }
                };
                match r {
                    Err(AlgoError::UnknownClock(x)) if x == id => labels.add("bad-remove-clock-refused"),
                    other => bail!("unknown-clock-removal-not-refused", "kind {}: {other:?}", kind % 4),
                }
            }
            EOp::DupLink { l } => {
                if w.links.is_empty() {
                    continue;
                }
                let id = w.links[idx(*l, w.links.len())];
                match w.e.clone().add_link(id, hk::UncertainValue { value: 0.0, uncertainty: 1.0 }, 0.0).map(|_| ()) {
                    Err(AlgoError::LinkAlreadyExists(x)) if x == id => labels.add("dup-link-refused"),
                    other => bail!("duplicate-link-not-refused", "{other:?}"),
                }
            }
            EOp::BadRemoveLink { l } => {
                let id = w.ghost_links[idx(*l, w.ghost_links.len())];
                match w.e.clone().remove_link(id).map(|_| ()) {
                    Err(AlgoError::UnknownLink(x)) if x == id => labels.add("bad-remove-link-refused"),
                    other => bail!("unknown-link-removal-not-refused", "{other:?}"),
                }
            }
            EOp::LinkUnknownClock { a, g } => {
                if w.clocks.is_empty() {
                    continue;
                }
                let known = w.clocks[idx(*a, w.clocks.len())].0;
                let ghost = w.ghost_clocks[idx(*g, w.ghost_clocks.len())];
                let id = if g % 2 == 0 { LinkId::new(known, ghost) } else { LinkId::new(ghost, known) }.unwrap();
                match w.e.clone().add_link(id, hk::UncertainValue { value: 0.0, uncertainty: 1.0 }, 0.0).map(|_| ()) {
                    Err(AlgoError::UnknownClock(x)) if x == ghost => labels.add("link-unknown-clock-refused"),
                    other => bail!("link-with-unknown-clock-not-refused", "{other:?}"),
                }
            }
            EOp::BadMeasure { a, g, unknown_link } => {
                let internals: Vec<ClockId> = w.clocks.iter().filter(|c| c.1).map(|c| c.0).collect();
                if internals.len() < 2 && *unknown_link || internals.is_empty() {
                    continue;
                }
                let known = internals[idx(*a, internals.len())];
                let uv = hk::UncertainValue { value: 0.0, uncertainty: 1.0 };
                let r = if *unknown_link {
                    let other = internals[(idx(*a, internals.len()) + 1) % internals.len()];
                    let id = LinkId::new(known, other).unwrap();
                    w.e.clone().measurement(id.forward(), uv, true).map(|_| ())
                } else {
                    let ghost = w.ghost_clocks[idx(*g, w.ghost_clocks.len())];
                    let id = LinkId::new(known, ghost).unwrap();
                    w.e.clone().measurement(if g % 2 == 0 { id.forward() } else { id.reverse() }, uv, false).map(|_| ())
                };
                match r {
                    Err(AlgoError::UnknownClock(_)) | Err(AlgoError::UnknownLink(_)) => labels.add("bad-measure-refused"),
                    other => bail!("measurement-with-unknown-id-not-refused", "{other:?}"),
                }
            }
        }
        // bookkeeping invariants every reader relies on
        let rows = hk::est::state_rows(&w.e);
        let want = 2 * w.clocks.iter().filter(|c| c.1).count() + w.links.len();
        if rows != want {
            bail!("state-size", "state has {rows} rows, expected {want}");
        }
        let t_after = hk::est::time(&w.e);
        if t_after - t_before < Duration::ZERO {
            bail!("time-moved-backwards", "estimator time went from {t_before:?} to {t_after:?}");
        }
    }
    labels.add_if(measured, "dense-state");
    Ok(Outcome::pass(compared > 0 && measured).labels(labels.0))
}

// ---------------------------------------------------------------------------
// controller world

struct KW {
    ctrl: Arc<Ctrl>,
    clocks: Vec<(ClockId, Option<RecClock>)>,
    links: Vec<(Link, LinkId)>,
    removed: Vec<ClockId>,
}

impl KW {
    fn est_snapshot(&self) -> Result<(Snapshot, String, Vec<ClockId>), Outcome> {
        let f = hk::filter_clone(&self.ctrl);
        let s = snapshot(hk::filt::estimator(&f)).map_err(|m| Outcome::fail("snapshot-failed", m))?;
        Ok((s, format!("{f:?}"), hk::steered_clock_ids(&self.ctrl)))
    }
}

fn run_ctrl(sys_max_freq: Sci, ops: &[KOp]) -> Result<Outcome, Outcome> {
    let mut labels = Labels::default();
    labels.add("ctrl");
    let cfg = hk::LinkFilterConfig {
        select_offset_uncertainty_window: 2.0,
        select_link_uncertainty_window: 2.0,
        select_delay_uncertainty_window: 0.7,
        select_max_window_size: 1.0,
        minimum_agreeing_sources: 1,
    };
    let sys = RecClock::new(ts0(), 0.0, sys_max_freq.f());
    let (ctrl, sys_id) = Ctrl::new(sys.clone(), 1e-8, cfg).map_err(|e| Outcome::fail("controller-new-failed", format!("{e:?}")))?;
    let mut w = KW { ctrl: Arc::new(ctrl), clocks: vec![(sys_id, Some(sys.clone()))], links: vec![], removed: vec![] };
    let mut compared = 0u32;
    let mut measured = false;

    macro_rules! unchanged_after_failure {
        ($pre:expr, $what:expr) => {{
            let post = w.est_snapshot()?;
            if post.1 != $pre.1 || post.2 != $pre.2 {
                bail!(format!("failed-operation-altered-state/{}", $what), "the filter or the steered clock list differs after the failed call");
            }
        }};
    }

    for op in ops {
        let pre = w.est_snapshot()?;
        match op {
            KOp::AddClock { max_freq, wander } => {
                if w.clocks.len() >= 6 {
                    continue;
                }
                let c = RecClock::new(ts0(), 0.0, max_freq.f());
                match w.ctrl.add_clock(c.clone(), wander.f()) {
                    Ok(id) => {
                        let post = w.est_snapshot()?;
                        if let Some(d) = others_changed(&pre.0, &post.0, Some(id), None) {
                            bail!("add-clock-changed-other-estimate", "{d}");
                        }
                        compared += (pre.0.clocks.len() + pre.0.links.len()) as u32;
                        w.clocks.push((id, Some(c)));
                        labels.add("add-clock");
                    }
                    Err(e) => bail!("add-clock-refused", "{e:?}"),
                }
            }
            KOp::AddExternal => {
                if w.clocks.len() >= 6 {
                    continue;
                }
                match w.ctrl.add_external_clock() {
                    Ok(id) => {
                        let post = w.est_snapshot()?;
                        if let Some(d) = others_changed(&pre.0, &post.0, None, None) {
                            bail!("add-external-clock-changed-estimate", "{d}");
                        }
                        w.clocks.push((id, None));
                        labels.add("add-external");
                    }
                    Err(e) => bail!("add-external-refused", "{e:?}"),
                }
            }
            KOp::Link { a, b, tracked, decay } => {
                if w.links.len() >= 6 {
                    continue;
                }
                let (ia, ib) = (idx(*a, w.clocks.len()), idx(*b, w.clocks.len()));
                let (ca, cb) = (w.clocks[ia].0, w.clocks[ib].0);
                let r = if *tracked { Ctrl::create_tracked_link(w.ctrl.clone(), ca, cb, decay.f()) } else { Ctrl::create_untracked_link(w.ctrl.clone(), ca, cb) };
                let both_external = w.clocks[ia].1.is_none() && w.clocks[ib].1.is_none();
                match r {
                    Ok(l) => {
                        if ca == cb || both_external {
                            bail!("invalid-link-accepted", "link between {ca:?} and {cb:?} accepted");
                        }
                        let post = w.est_snapshot()?;
                        if let Some(d) = others_changed(&pre.0, &post.0, None, None) {
                            bail!("add-link-changed-other-estimate", "{d}");
                        }
                        if w.clocks[ia].1.is_none() || w.clocks[ib].1.is_none() {
                            let _ = l.external_data_update(Duration::ZERO, None, true);
                        }
                        let id = hk::link_id(&l);
                        w.links.push((l, id));
                        labels.add("add-link");
                    }
                    Err(e) => {
                        if !(ca == cb || both_external) {
                            bail!("add-link-refused", "{e:?}");
                        }
                        unchanged_after_failure!(pre, "create-link");
                        labels.add("invalid-link-refused");
                    }
                }
            }
            KOp::DropLink { l } => {
                if w.links.is_empty() {
                    continue;
                }
                let li = idx(*l, w.links.len());
                let (link, id) = w.links.remove(li);
                drop(link);
                let post = w.est_snapshot()?;
                if let Some(d) = others_changed(&pre.0, &post.0, None, Some(id)) {
                    bail!("remove-link-changed-other-estimate", "{d}");
                }
                compared += (post.0.clocks.len() + post.0.links.len()) as u32;
                labels.add("drop-link");
                labels.add_if(pre.0.links.iter().any(|x| x.0 == id), "drop-estimator-link");
            }
            KOp::RemoveClock { c } => {
                let ci = idx(*c, w.clocks.len());
                let (id, clock) = w.clocks[ci].clone();
                let in_use = w.links.iter().any(|l| l.1.contains_clock(id));
                if clock.is_some() {
                    match w.ctrl.remove_clock(id) {
                        Ok(()) => {
                            if ci == 0 || in_use {
                                bail!("protected-clock-removed", "system clock / clock in use was removed");
                            }
                            let post = w.est_snapshot()?;
                            if let Some(d) = others_changed(&pre.0, &post.0, Some(id), None) {
                                bail!("remove-clock-changed-other-estimate", "{d}");
                            }
                            if post.2.contains(&id) || w.ctrl.clock_offset(id).is_ok() {
                                bail!("removed-clock-still-reported", "{id:?}");
                            }
                            compared += (post.0.clocks.len() + post.0.links.len()) as u32;
                            w.clocks.remove(ci);
                            w.removed.push(id);
                            labels.add("remove-clock");
                        }
                        Err(e) => {
                            let expected = (ci == 0 && e == AlgoError::CannotRemoveSystemClock(id)) || (in_use && matches!(e, AlgoError::ClockInUse(x, _) if x == id));
                            if !expected {
                                bail!("remove-clock-refused", "{e:?}");
                            }
                            unchanged_after_failure!(pre, "remove-clock");
                            labels.add(if ci == 0 { "remove-system-refused" } else { "remove-in-use-refused" });
                        }
                    }
                } else {
                    match w.ctrl.remove_external_clock(id) {
                        Ok(()) => {
                            let post = w.est_snapshot()?;
                            if let Some(d) = others_changed(&pre.0, &post.0, None, None) {
                                bail!("remove-external-clock-changed-estimate", "{d}");
                            }
                            // links to the removed clock stay alive (the library documents a FIXME here);
                            // measurements on them are operations on an unknown identifier
                            labels.add_if(w.links.iter().any(|l| l.1.contains_clock(id)), "orphaned-link");
                            w.clocks.remove(ci);
                            w.removed.push(id);
                            labels.add("remove-external");
                        }
                        Err(e) => bail!("remove-external-refused", "{e:?}"),
                    }
                }
            }
            KOp::BadId { kind, c, g } => {
                let int: Vec<ClockId> = w.clocks.iter().filter(|c| c.1.is_some()).map(|c| c.0).collect();
                let ext: Vec<ClockId> = w.clocks.iter().filter(|c| c.1.is_none()).map(|c| c.0).collect();
                let r: Result<(), AlgoError> = match kind % 5 {
                    0 | 1 | 4 if w.removed.is_empty() => continue,
                    0 => w.ctrl.remove_clock(w.removed[idx(*g, w.removed.len())]),
                    1 => w.ctrl.remove_external_clock(w.removed[idx(*g, w.removed.len())]),
                    2 if ext.is_empty() => continue,
                    2 => w.ctrl.remove_clock(ext[idx(*c, ext.len())]),
                    3 => w.ctrl.remove_external_clock(int[idx(*c, int.len())]),
                    _ => {
                        let ghost = w.removed[idx(*g, w.removed.len())];
                        let known = w.clocks[idx(*c, w.clocks.len())].0;
                        if g % 2 == 0 { Ctrl::create_untracked_link(w.ctrl.clone(), known, ghost).map(|_| ()) } else { Ctrl::create_tracked_link(w.ctrl.clone(), ghost, known, 1e-3).map(|_| ()) }
                    }
                };
                match r {
                    Err(AlgoError::UnknownClock(_)) => {
                        unchanged_after_failure!(pre, "unknown-id");
                        labels.add("unknown-id-refused");
                    }
                    other => bail!("unknown-id-not-refused", "kind {}: {other:?}", kind % 5),
                }
            }
            KOp::Measure { l, forward, value, unc } => {
                if w.links.is_empty() {
                    continue;
                }
                let (link, _) = &w.links[idx(*l, w.links.len())];
                let now = sys.time();
                let m = Measurement { send_timestamp: now - Duration::from_f64_seconds(value.f()), recv_timestamp: now, uncertainty: Duration::from_f64_seconds(unc.f()) };
                match link.measurement(m, if *forward { Direction::Forward } else { Direction::Reverse }) {
                    Ok(()) => {
                        measured = true;
                        labels.add("measured");
                    }
                    Err(_) => {
                        unchanged_after_failure!(pre, "measurement");
                        labels.add("measurement-refused");
                    }
                }
            }
            KOp::Advance { millis } => sys.advance(Duration::from_seconds_nanos((*millis / 1000) as i64, (*millis % 1000) * 1_000_000)),
            KOp::Backwards { l, millis } => {
                if w.links.is_empty() {
                    continue;
                }
                let (link, _) = &w.links[idx(*l, w.links.len())];
                let back = Duration::from_seconds_nanos(0, 0) - Duration::from_seconds_nanos((*millis / 1000) as i64, (*millis % 1000) * 1_000_000 + 1);
                let t_filter = hk::est::time(hk::filt::estimator(&hk::filter_clone(&w.ctrl)));
                // put the clock strictly before the filter's time
                let now = sys.time();
                sys.advance((t_filter - now) + back);
                let now = sys.time();
                let m = Measurement { send_timestamp: now, recv_timestamp: now, uncertainty: Duration::from_seconds_nanos(0, 1000) };
                match link.measurement(m, Direction::Forward) {
                    Err(AlgoError::NonMonotonicTimeProgression { from, to }) if from == t_filter && to == now => {
                        unchanged_after_failure!(pre, "backwards-measurement");
                        labels.add("backwards-refused");
                    }
                    other => bail!("time-moved-backwards", "measurement at a time before the filter's time returned {other:?}"),
                }
                // restore a sane clock
                sys.advance(t_filter - sys.time());
            }
        }
        let _ = DirectedLinkId::new;
    }
    labels.add_if(measured, "dense-state");
    Ok(Outcome::pass(compared > 0 && measured).labels(labels.0))
}

fn eop_strategy() -> BoxedStrategy<EOp> {
    let val = || sci_signed(-6, 2);
    let unc = || sci_pos(-7, 1);
    prop_oneof![
        5 => (val(), unc(), sci_signed(-9, -4), sci_pos(-9, -3), sci_pos(-12, -6))
            .prop_map(|(off, off_unc, freq, freq_unc, wander)| EOp::AddClock { off, off_unc, freq, freq_unc, wander }),
        2 => Just(EOp::AddExternal),
        5 => (any::<u16>(), any::<u16>(), sci_pos(-6, -1), sci_pos(-7, -1), sci_pos(-6, -1))
            .prop_map(|(a, b, delay, delay_unc, decay)| EOp::AddLink { a, b, delay, delay_unc, decay }),
        4 => any::<u16>().prop_map(|c| EOp::RemoveClock { c }),
        4 => any::<u16>().prop_map(|l| EOp::RemoveLink { l }),
        6 => (any::<u16>(), any::<bool>(), val(), unc()).prop_map(|(l, forward, value, unc)| EOp::MeasureLink { l, forward, value, unc }),
        6 => (any::<u16>(), any::<u16>(), val(), unc()).prop_map(|(a, b, value, unc)| EOp::MeasurePair { a, b, value, unc }),
        4 => prop_oneof![4 => 0i32..100_000, 1 => -100_000i32..0, 1 => Just(-1i32)].prop_map(|millis| EOp::Progress { millis }),
        1 => (any::<u16>(), val()).prop_map(|(c, d)| EOp::AbsorbOffset { c, d }),
        1 => (any::<u16>(), sci_signed(-9, -4)).prop_map(|(c, d)| EOp::AbsorbFreq { c, d }),
        1 => (any::<u16>(), any::<bool>()).prop_map(|(c, as_external)| EOp::DupClock { c, as_external }),
        1 => (0u8..4, any::<u16>()).prop_map(|(kind, c)| EOp::BadRemoveClock { kind, c }),
        1 => any::<u16>().prop_map(|l| EOp::DupLink { l }),
        1 => any::<u16>().prop_map(|l| EOp::BadRemoveLink { l }),
        1 => (any::<u16>(), any::<u16>()).prop_map(|(a, g)| EOp::LinkUnknownClock { a, g }),
        1 => (any::<u16>(), any::<u16>(), any::<bool>()).prop_map(|(a, g, unknown_link)| EOp::BadMeasure { a, g, unknown_link }),
    ]
    .boxed()
}

fn kop_strategy() -> BoxedStrategy<KOp> {
    let val = || sci_signed(-6, 1);
    let unc = || sci_pos(-8, -1);
    prop_oneof![
        4 => (sci_pos(-7, -3), sci_pos(-12, -6)).prop_map(|(max_freq, wander)| KOp::AddClock { max_freq, wander }),
        3 => Just(KOp::AddExternal),
        5 => (any::<u16>(), any::<u16>(), prop::bool::weighted(0.3), sci_pos(-6, -1)).prop_map(|(a, b, tracked, decay)| KOp::Link { a, b, tracked, decay }),
        3 => any::<u16>().prop_map(|l| KOp::DropLink { l }),
        4 => any::<u16>().prop_map(|c| KOp::RemoveClock { c }),
        3 => (0u8..5, any::<u16>(), any::<u16>()).prop_map(|(kind, c, g)| KOp::BadId { kind, c, g }),
        10 => (any::<u16>(), any::<bool>(), val(), unc()).prop_map(|(l, forward, value, unc)| KOp::Measure { l, forward, value, unc }),
        3 => (0u32..20_000).prop_map(|millis| KOp::Advance { millis }),
        1 => (any::<u16>(), 0u32..5000).prop_map(|(l, millis)| KOp::Backwards { l, millis }),
    ]
    .boxed()
}

impl Property for C42 {
    type Case = Case;
    const ID: &'static str = "C42";
    const RULE: &'static str = "Est: ≤40 ops on EstimatorState (≤7 clocks, ≤6 links): add clock (offset/frequency ± uncertainty, wander), add external clock, add link between any two known clocks, remove clock (not referenced by a link) / external clock / link at any position, measurements through links (delay row) and between clock pairs, time progression (also backwards), absorbed steers, plus duplicate ids (add existing clock as internal/external, add existing link), unknown ids (removed or never-added clock/link ids, external id via remove_clock and vice versa, link/measurement with an unknown clock or link). Ctrl: ≤40 ops on KalmanController with mock clocks: add/remove steerable and external clocks (system clock, clocks in use, already removed ids), create tracked/untracked links (also invalid ones), drop links, measurements, time progression, system clock running backwards. Oracles: bit-exact equality of every other clock's (offset, frequency) value+uncertainty and every other link's delay value+uncertainty across each successful add/remove; refused operations return the documented error and (Ctrl) leave the filter's Debug rendering and the steered clock list identical; estimator time never decreases and going back is refused with NonMonotonicTimeProgression. Non-trivial: ≥1 successful add/remove compared against ≥1 other entry in a state that has absorbed ≥1 measurement.";
    const ASSUMPTIONS: &'static [&'static str] = &[
        "EstimatorState::remove_clock is only called for clocks no estimator link refers to (its only caller LinkFilter::remove_clock guarantees this)",
        "initial uncertainties are positive and finite; NaN estimates (numerical breakdown, see C43 known finding) compare equal when both sides are NaN with the same bit pattern",
        "steps of the system clock legitimately move the estimator time; the monotonicity clause is checked for progress_time / measurements",
    ];
    const QUICK_CASES: u32 = 1_000_000;
    const THOROUGH_CASES: u32 = 27_000_000;

    fn strategy(_tier: Tier) -> BoxedStrategy<Case> {
        // estimator histories start with a small dense topology most of the time
        let s = |m: i32, e: i8| Sci { m, e };
        let seed_ops = vec![
            EOp::AddClock { off: s(0, 0), off_unc: s(1, -3), freq: s(1, -6), freq_unc: s(1, -7), wander: s(1, -8) },
            EOp::AddClock { off: s(5, -3), off_unc: s(1, -4), freq: s(-2, -6), freq_unc: s(1, -7), wander: s(1, -9) },
            EOp::AddLink { a: 0, b: 0xffff, delay: s(1, -4), delay_unc: s(1, -5), decay: s(1, -3) },
            EOp::AddClock { off: s(-2, -3), off_unc: s(2, -4), freq: s(0, 0), freq_unc: s(1, -6), wander: s(1, -8) },
            EOp::MeasureLink { l: 0, forward: true, value: s(51, -4), unc: s(1, -5) },
            EOp::MeasurePair { a: 0, b: 0xffff, value: s(-2, -3), unc: s(1, -4) },
            EOp::Progress { millis: 1500 },
        ];
        let est = (prop::bool::weighted(0.7), prop::collection::vec(eop_strategy(), 0..40)).prop_map(move |(seeded, ops)| {
            let mut all = if seeded { seed_ops.clone() } else { vec![] };
            all.extend(ops);
            Case::Est { ops: all }
        });
        let kseed = vec![
            KOp::AddExternal,
            KOp::Link { a: 0, b: 0xffff, tracked: false, decay: Sci { m: 1, e: -3 } },
            KOp::Measure { l: 0, forward: false, value: Sci { m: 1, e: -3 }, unc: Sci { m: 1, e: -5 } },
        ];
        let ctrl = (sci_pos(-6, -3), prop::bool::weighted(0.7), prop::collection::vec(kop_strategy(), 0..40)).prop_map(move |(sys_max_freq, seeded, ops)| {
            let mut all = if seeded { kseed.clone() } else { vec![] };
            all.extend(ops);
            Case::Ctrl { sys_max_freq, ops: all }
        });
        prop_oneof![3 => est, 2 => ctrl].boxed()
    }

    fn check(case: &Case) -> Outcome {
        let r = match case {
            Case::Est { ops } => run_est(ops),
            Case::Ctrl { sys_max_freq, ops } => run_ctrl(*sys_max_freq, ops),
        };
        match r {
            Ok(o) | Err(o) => o,
        }
    }
}
