//! C27 — key persistence across restarts and crashes (fault enumeration).
//!
//! Library level (bulk): every prefix of a stored image, every header-field corruption at
//! boundary values, key-byte corruption, garbage files are fed to `KeySetProvider::load`.
//! Verdict: load returns Err (the daemon then starts with fresh keys) or a provider that
//! (a) for prefixes/complete images is exactly the stored key set and still decodes cookies
//! issued before the "restart", (b) in every case can issue + decode cookies, rotate, store.
//! A panic anywhere = the daemon (panic=abort) crashes = violation.
//!
//! Daemon level (enumerated only, bounded count because every `spawn` leaves one sleeping
//! blocking thread behind): `nts_key_provider::spawn` on a private temp directory: mode of the
//! newly created file under several umasks, restore on restart, start on truncated/corrupted files.
use std::os::unix::fs::PermissionsExt;
use std::sync::atomic::{AtomicU64, Ordering};

use crate::engine::*;
use crate::w_keys::{self, Session};
use ntp_proto::KeySetProvider;
use ntp_proto::verif_hook::cookies;
use proptest::prelude::*;
use serde::{Deserialize, Serialize};

pub struct C27;

/// stored time far in the future (year 2200): the daemon then never rotates right after start
const T_FUTURE: u64 = 7_258_118_400;

#[derive(Debug, Clone, Serialize, Deserialize)]
pub struct FileSpec {
    /// number of keys in the file (0..=5; 0 = empty key set: only reachable through corruption)
    pub nkeys: u8,
    pub key_seed: u64,
    pub id_offset: u32,
    /// overwrite header field (0 time, 1 id_offset, 2 primary, 3 len) with the value (truncated to the field width)
    pub corrupt: Option<(u8, u64)>,
    /// xor key byte idx(pos, 64*nkeys) with the value
    pub key_xor: Option<(u16, u8)>,
    /// keep only the first idx(cut, len+1) bytes
    pub cut: Option<u16>,
}

#[derive(Debug, Clone, Serialize, Deserialize)]
pub enum Case {
    /// provider from a well-formed file + `rotations`, stored; EVERY prefix 0..=len is loaded
    Prefixes { nkeys: u8, key_seed: u64, id_offset: u32, rotations: u8, history: u8 },
    /// one (possibly corrupted / truncated) file
    File { spec: FileSpec, history: u8 },
    Garbage { bytes: Vec<u8>, history: u8 },
    /// daemon path; `file` = None: no key file yet
    Daemon { file: Option<FileSpec>, history: u8, umask: u16 },
}

impl FileSpec {
    fn keys(&self) -> Vec<Vec<u8>> {
        (0..self.nkeys as u64).map(|i| w_keys::bytes(self.key_seed ^ (i << 40), 64)).collect()
    }
    /// (image, pristine = complete and uncorrupted)
    fn build(&self) -> (Vec<u8>, bool) {
        let keys = self.keys();
        let n = self.nkeys as u32;
        let mut img = w_keys::image(T_FUTURE, self.id_offset, n.saturating_sub(1), n, &keys);
        let mut pristine = n > 0;
        if let Some((field, value)) = self.corrupt {
            let before = img.clone();
            match field % 4 {
                0 => img[0..8].copy_from_slice(&value.to_be_bytes()),
                1 => img[8..12].copy_from_slice(&(value as u32).to_be_bytes()),
                2 => img[12..16].copy_from_slice(&(value as u32).to_be_bytes()),
                _ => img[16..20].copy_from_slice(&(value as u32).to_be_bytes()),
            }
            pristine &= before == img;
        }
        if let Some((pos, xor)) = self.key_xor {
            if img.len() > 20 && xor != 0 {
                let p = 20 + idx(pos, img.len() - 20);
                img[p] ^= xor;
                pristine = false;
            }
        }
        if let Some(cut) = self.cut {
            let keep = idx(cut, img.len() + 1);
            pristine &= keep == img.len();
            img.truncate(keep);
        }
        (img, pristine)
    }
    fn field_name(&self) -> &'static str {
        match self.corrupt {
            None => "none",
            Some((f, _)) => ["time", "id_offset", "primary", "len"][(f % 4) as usize],
        }
    }
}

/// boundary values of the design: 0, len-1, len, len+1, 2^31, 2^32-1, 2^63, 2^64-1 (+ small, random)
fn boundary(nkeys: u8, sel: u8, rnd: u64) -> u64 {
    let n = nkeys as u64;
    match sel % 12 {
        0 => 0,
        1 => n.wrapping_sub(1),
        2 => n,
        3 => n + 1,
        4 => 1 << 31,
        5 => (1 << 32) - 1,
        6 => 1 << 63,
        7 => u64::MAX,
        8 => rnd % 8,
        9 => (1 << 32) - 1 - rnd % 4,
        10 => u64::MAX - rnd % 1000,
        _ => rnd,
    }
}

fn filespec() -> BoxedStrategy<FileSpec> {
    (
        0u8..=5,
        any::<u64>(),
        prop_oneof![any::<u32>(), (0u32..8).prop_map(|d| u32::MAX - d), 0u32..4],
        prop::option::weighted(0.75, (0u8..4, 0u8..12, any::<u64>())),
        prop::option::weighted(0.2, (any::<u16>(), 1u8..=255)),
        prop::option::weighted(0.25, any::<u16>()),
    )
        .prop_map(|(nkeys, key_seed, id_offset, corrupt, key_xor, cut)| FileSpec {
            nkeys,
            key_seed,
            id_offset,
            corrupt: corrupt.map(|(f, sel, rnd)| (f, boundary(nkeys, sel, rnd))),
            key_xor,
            cut,
        })
        .boxed()
}

fn history() -> BoxedStrategy<u8> {
    prop_oneof![4 => 0u8..=4, 1 => Just(7u8), 1 => any::<u8>()].boxed()
}

macro_rules! ensure {
    ($cond:expr, $sig:expr, $($fmt:tt)*) => {
        if !$cond {
            return Err(Failure { signature: $sig.into(), what: format!($($fmt)*) });
        }
    };
}

fn fail<T>(sig: impl Into<String>, what: impl Into<String>) -> Result<T, Failure> {
    Err(Failure { signature: sig.into(), what: what.into() })
}

/// the loaded provider can issue + decode cookies, rotate, store and be re-loaded
fn usable(mut p: KeySetProvider, history: usize, ctx: &str) -> Result<(), Failure> {
    let s1 = Session::from_seed(true, 11);
    let s2 = Session::from_seed(false, 12);
    let r = catch(move || -> Result<(), String> {
        w_keys::round_trip(&p.get(), &s1)?;
        w_keys::round_trip(&p.get(), &s2)?;
        p.rotate();
        w_keys::round_trip(&p.get(), &s1)?;
        let img = w_keys::store(&p).map_err(|e| format!("store failed: {e}"))?;
        let (q, _) = w_keys::load(&img, history).map_err(|e| format!("re-load of a just stored key set failed: {e}"))?;
        let c = w_keys::round_trip(&p.get(), &s2)?;
        match cookies::decode(&q.get(), &c) {
            Some(d) if s2.matches(&d) => Ok(()),
            _ => Err("cookie does not survive store + load".into()),
        }
    });
    match r {
        Ok(Ok(())) => Ok(()),
        Ok(Err(e)) => fail(format!("loaded-key-set-unusable/{ctx}"), e),
        Err(p) => fail(format!("loaded-key-set-crashes-when-used/{ctx}"), format!("panic: {p}")),
    }
}

fn load_caught(img: &[u8], history: usize, ctx: &str) -> Result<Option<KeySetProvider>, Failure> {
    match catch(|| w_keys::load(img, history)) {
        Ok(Ok((p, _))) => Ok(Some(p)),
        Ok(Err(_)) => Ok(None),
        Err(p) => fail(format!("load-panics/{ctx}"), format!("panic: {p}")),
    }
}

fn check_prefixes(nkeys: u8, key_seed: u64, id_offset: u32, rotations: u8, history: usize, labels: &mut Labels) -> Result<bool, Failure> {
    let nkeys = nkeys.clamp(1, 5);
    let spec = FileSpec { nkeys, key_seed, id_offset, corrupt: None, key_xor: None, cut: None };
    let (img0, _) = spec.build();
    let Some(mut p) = load_caught(&img0, history, "pristine")? else {
        return fail("complete-file-rejected", format!("well-formed {nkeys}-key file rejected"));
    };
    for _ in 0..rotations {
        p.rotate();
    }
    let session = Session::from_seed(rotations % 2 == 0, key_seed ^ 99);
    let cookie = match w_keys::round_trip(&p.get(), &session) {
        Ok(c) => c,
        Err(e) => return fail("fresh-cookie-rejected", e),
    };
    let img = match w_keys::store(&p) {
        Ok(i) => i,
        Err(e) => return fail("store-failed", e.to_string()),
    };
    ensure!(img.len() >= 20 + 64 && (img.len() - 20) % 64 == 0, "stored-image-shape", "stored image has {} bytes", img.len());
    for cut in 0..=img.len() {
        let complete = cut == img.len();
        match load_caught(&img[..cut], history, if complete { "complete" } else { "prefix" })? {
            None => {
                ensure!(!complete, "complete-file-rejected", "the complete {}-byte image written by store() is rejected by load()", img.len());
                labels.add("prefix-rejected");
            }
            Some(q) => {
                // must be exactly the stored key set: same bytes after the time stamp, old cookie still decodes
                let again = w_keys::store(&q).map_err(|e| Failure { signature: "store-failed".into(), what: e.to_string() })?;
                ensure!(again[8..] == img[8..],
                    if complete { "restored-key-set-differs" } else { "partial-file-loaded-as-different-key-set" },
                    "prefix of {cut}/{} bytes loaded as a key set that is not the stored one", img.len());
                match cookies::decode(&q.get(), &cookie) {
                    Some(d) if session.matches(&d) => {}
                    _ => return fail("cookie-invalid-after-restart", format!("cookie issued before the restart does not decode after loading {cut}/{} bytes", img.len())),
                }
                usable(q, history, if complete { "complete" } else { "prefix" })?;
                labels.add(if complete { "complete-restored" } else { "prefix-restored" });
            }
        }
    }
    Ok(true)
}

fn check_file(spec: &FileSpec, history: usize, labels: &mut Labels) -> Result<bool, Failure> {
    let (img, pristine) = spec.build();
    let ctx = spec.field_name();
    labels.add(match ctx { "time" => "corrupt-time", "id_offset" => "corrupt-id-offset", "primary" => "corrupt-primary", "len" => "corrupt-len", _ => "header-intact" });
    labels.add_if(spec.cut.is_some(), "cut");
    labels.add_if(spec.key_xor.is_some(), "key-bytes-changed");
    labels.add_if(spec.nkeys == 0, "empty-key-set");
    match load_caught(&img, history, ctx)? {
        None => {
            ensure!(!pristine, "complete-file-rejected", "well-formed file {spec:?} rejected");
            labels.add("rejected");
        }
        Some(p) => {
            labels.add("loaded");
            labels.add_if(pristine, "pristine-loaded");
            if pristine {
                // restored on restart: a cookie made by an independently loaded copy decodes
                let (other, _) = w_keys::load(&img, history).map_err(|e| Failure { signature: "complete-file-rejected".into(), what: e.to_string() })?;
                let s = Session::from_seed(false, 5);
                let c = cookies::encode(&other.get(), &s.cookie());
                match cookies::decode(&p.get(), &c) {
                    Some(d) if s.matches(&d) => {}
                    _ => return fail("cookie-invalid-after-restart", "two loads of the same file do not accept each other's cookies"),
                }
            }
            // classify by the header the loader saw, not by which field we touched
            let be = |r: std::ops::Range<usize>| u32::from_be_bytes(img[r].try_into().unwrap());
            let (primary, len) = (be(12..16), be(16..20));
            let rel = if len == 0 {
                "len=0"
            } else if primary == len {
                "primary=len"
            } else if primary > len {
                "primary>len"
            } else {
                "primary<len"
            };
            usable(p, history, rel)?;
        }
    }
    Ok(!pristine)
}

// ---------------------------------------------------------------------------
// daemon path

static COUNTER: AtomicU64 = AtomicU64::new(0);

struct TempDir(std::path::PathBuf);
impl TempDir {
    fn new() -> Self {
        let n = COUNTER.fetch_add(1, Ordering::Relaxed);
        let p = std::env::temp_dir().join(format!("wsD-c27-{}-{}", std::process::id(), n));
        let _ = std::fs::remove_dir_all(&p);
        std::fs::create_dir_all(&p).expect("temp dir");
        TempDir(p)
    }
}
impl Drop for TempDir {
    fn drop(&mut self) {
        // a daemon thread that rotates right after start (stale stored time) may re-create the
        // file while we delete: retry until the directory is really gone
        for _ in 0..50 {
            let _ = std::fs::remove_dir_all(&self.0);
            if !self.0.exists() {
                break;
            }
            std::thread::sleep(std::time::Duration::from_millis(20));
        }
    }
}

struct Umask(libc::mode_t);
impl Umask {
    fn set(m: u16) -> Self {
        // SAFETY: umask only swaps the process file mode creation mask
        Umask(unsafe { libc::umask(m as libc::mode_t) })
    }
}
impl Drop for Umask {
    fn drop(&mut self) {
        unsafe { libc::umask(self.0) };
    }
}

/// start the daemon's key provider and wait until it has finished its first store attempt
/// (the task publishes the key set on the watch channel right after storing)
async fn start_daemon(path: &str, history: usize) -> Result<std::sync::Arc<ntp_proto::KeySet>, Failure> {
    let mut rx = ntpd::verif_hook::keyprov::spawn(Some(path.to_string()), history, 86_400).await;
    match tokio::time::timeout(std::time::Duration::from_secs(60), rx.changed()).await {
        Ok(Ok(())) => {}
        Ok(Err(_)) => return fail("daemon-key-task-died", "key provider task ended before publishing keys"),
        Err(_) => return fail("daemon-key-task-stalled", "no key set published within 60 s"),
    }
    let ks = rx.borrow_and_update().clone();
    Ok(ks)
}

fn check_daemon(file: &Option<FileSpec>, history: usize, umask: u16, labels: &mut Labels) -> Result<bool, Failure> {
    let dir = TempDir::new();
    let path = dir.0.join("keys.dat");
    let path_s = path.to_str().unwrap().to_string();
    let mut pre: Option<(Vec<u8>, bool)> = None;
    if let Some(spec) = file {
        let (img, pristine) = spec.build();
        std::fs::write(&path, &img).expect("write key file");
        std::fs::set_permissions(&path, std::fs::Permissions::from_mode(0o600)).unwrap();
        pre = Some((img, pristine));
    }
    let _um = Umask::set(umask & 0o777);
    let rt = tokio::runtime::Builder::new_current_thread().enable_all().build().expect("runtime");
    let result = (|| -> Result<bool, Failure> {
        // first start
        let ks1 = rt.block_on(start_daemon(&path_s, history))?;
        let s = Session::from_seed(true, 21);
        let cookie = match catch(|| w_keys::round_trip(&ks1, &s)) {
            Ok(Ok(c)) => c,
            Ok(Err(e)) => return fail("daemon-key-set-unusable", e),
            Err(p) => return fail("daemon-key-set-crashes-when-used", format!("panic: {p}")),
        };
        // a corrupted stored time may legitimately make the daemon rotate (and re-store) right away:
        // the file and restart checks below would race with that, so only "starts and works" is checked
        if matches!(file, Some(FileSpec { corrupt: Some((f, _)), .. }) if f % 4 == 0) {
            labels.add("daemon-starts-on-damaged-file");
            return Ok(true);
        }
        // the file now exists, is complete, and (when newly created) private to the owner
        let meta = match std::fs::metadata(&path) {
            Ok(m) => m,
            Err(e) => return fail("daemon-did-not-store-keys", format!("no key file after the first store: {e}")),
        };
        let mode = meta.permissions().mode() & 0o7777;
        if file.is_none() {
            labels.add("new-file-mode-checked");
            ensure!(mode == 0o600, "new-key-file-not-owner-only", "new key file has mode {mode:o} under umask {umask:o}");
        }
        let stored = std::fs::read(&path).expect("read key file");
        let Some(lib) = load_caught(&stored, history, "daemon-written")? else {
            return fail("complete-file-rejected", "file written by the daemon is rejected by load()");
        };
        match cookies::decode(&lib.get(), &cookie) {
            Some(d) if s.matches(&d) => {}
            _ => return fail("stored-keys-differ-from-running-keys", "cookie of the running daemon does not decode with the stored file"),
        }
        match &pre {
            Some((img, true)) => {
                // pristine file present at start: exactly those keys are restored
                labels.add("daemon-restores-existing-file");
                let (orig, _) = w_keys::load(img, history).map_err(|e| Failure { signature: "complete-file-rejected".into(), what: e.to_string() })?;
                let c0 = cookies::encode(&orig.get(), &s.cookie());
                match cookies::decode(&ks1, &c0) {
                    Some(d) if s.matches(&d) => {}
                    _ => return fail("cookie-invalid-after-restart", "daemon started on a well-formed key file but does not accept cookies of those keys"),
                }
                ensure!(stored[8..] == img[8..], "restored-key-set-differs", "daemon re-stored a different key set than it loaded");
            }
            Some((_, false)) => labels.add("daemon-starts-on-damaged-file"),
            None => labels.add("daemon-fresh-start"),
        }
        // restart on what the first instance stored
        {
            let ks2 = rt.block_on(start_daemon(&path_s, history))?;
            labels.add("daemon-restart");
            match cookies::decode(&ks2, &cookie) {
                Some(d) if s.matches(&d) => {}
                _ => return fail("cookie-invalid-after-restart", "cookie issued before the restart is rejected after the restart"),
            }
            let again = std::fs::read(&path).expect("read key file");
            ensure!(again[8..] == stored[8..], "restored-key-set-differs", "key file changed across a restart without rotation");
        }
        Ok(true)
    })();
    rt.shutdown_background();
    result
}

fn daemon_cases() -> Vec<Case> {
    let mut v = Vec::new();
    for (i, umask) in [0o022u16, 0o077, 0o000, 0o027].into_iter().enumerate() {
        v.push(Case::Daemon { file: None, history: [1u8, 0, 7, 3][i], umask });
    }
    let base = |nkeys: u8| FileSpec { nkeys, key_seed: 42 + nkeys as u64, id_offset: u32::MAX - 1, corrupt: None, key_xor: None, cut: None };
    for nkeys in [1u8, 3, 5] {
        v.push(Case::Daemon { file: Some(base(nkeys)), history: 4, umask: 0o022 });
    }
    // crash points of a 2-key store: nothing, partial header, header only, partial key, one key, all but one byte
    for cut_bytes in [0usize, 7, 19, 20, 21, 84, 147] {
        let len = 20 + 128;
        let cut = (((cut_bytes << 16) + len) / (len + 1)) as u16; // idx(cut, len+1) == cut_bytes
        let mut s = base(2);
        s.cut = Some(cut);
        assert_eq!(idx(cut, len + 1), cut_bytes);
        v.push(Case::Daemon { file: Some(s), history: 1, umask: 0o022 });
    }
    for (field, value) in [(0u8, u64::MAX), (0, 1 << 63), (0, 0), (2, 2), (2, 3), (2, u32::MAX as u64), (3, 0), (3, 1), (3, 3), (3, u32::MAX as u64), (1, u32::MAX as u64)] {
        let mut s = base(2);
        s.corrupt = Some((field, value));
        v.push(Case::Daemon { file: Some(s), history: 2, umask: 0o022 });
    }
    v
}

impl Property for C27 {
    type Case = Case;
    const ID: &'static str = "C27";
    const LEVEL: Level = Level::FaultEnumeration;
    const RULE: &'static str = "enumerated on every run: (a) for 1..=5 keys x 0/1/3 rotations x history {0,1,4}: EVERY prefix 0..=len of the image written by store() is loaded; (b) for 0..=5 keys: every header field (time, id_offset, primary, len) set to each of {0, n-1, n, n+1, 2^31, 2^32-1, 2^63, 2^64-1}; (c) 25 daemon scenarios (spawn on a private temp dir: no file under umask 022/077/000/027, well-formed 1/3/5-key files, 7 crash-point prefixes, 11 header corruptions), each followed by use of the key set and, where no rotation can legitimately intervene, a restart. Generated: the same shapes with random seeds/id offsets, corrupted fields with boundary+random values, key byte flips, cuts and combinations, garbage files 0..400 bytes. Non-trivial = a damaged file, a prefix sweep or a daemon scenario (distinct = distinct case)";
    const ASSUMPTIONS: &'static [&'static str] = &[
        "crash points are prefixes of one sequential write after the truncating open; the kernel/filesystem is trusted not to reorder or lose acknowledged writes",
        "a file whose len field promises more keys than are present is 'truncated'; files larger than 400 bytes of garbage are not generated",
        "the daemon scenarios wait (up to 60 s) for the key task to publish on its watch channel, which happens right after the first store attempt",
        "daemon path: panics inside the blocking load task are absorbed by tokio in this (unwinding) build; they are detected by the library-level cases instead",
    ];
    const QUICK_CASES: u32 = 600_000;
    const THOROUGH_CASES: u32 = 80_000_000;

    fn strategy(_tier: Tier) -> BoxedStrategy<Case> {
        prop_oneof![
            1 => (1u8..=5, any::<u64>(), prop_oneof![any::<u32>(), (0u32..8).prop_map(|d| u32::MAX - d)], 0u8..=6, 0u8..=4)
                .prop_map(|(nkeys, key_seed, id_offset, rotations, history)| Case::Prefixes { nkeys, key_seed, id_offset, rotations, history }),
            12 => (filespec(), history()).prop_map(|(spec, history)| Case::File { spec, history }),
            2 => (prop::collection::vec(any::<u8>(), 0..400), history()).prop_map(|(bytes, history)| Case::Garbage { bytes, history }),
            // header-shaped garbage: plausible small fields followed by random bytes
            2 => (0u64..4, 0u32..4, 0u32..7, 0u32..7, prop::collection::vec(any::<u8>(), 0..400), history())
                .prop_map(|(t, o, p, l, tail, history)| {
                    let mut bytes = w_keys::image(t, o, p, l, &[]);
                    bytes.extend(tail);
                    Case::Garbage { bytes, history }
                }),
        ]
        .boxed()
    }

    fn enumerate(_tier: Tier) -> Vec<Case> {
        let mut v = Vec::new();
        for nkeys in 1u8..=5 {
            for rotations in [0u8, 1, 3] {
                for history in [0u8, 1, 4] {
                    v.push(Case::Prefixes { nkeys, key_seed: 1000 + nkeys as u64, id_offset: u32::MAX - 2, rotations, history });
                }
            }
        }
        for nkeys in 0u8..=5 {
            for field in 0u8..4 {
                for sel in 0u8..8 {
                    v.push(Case::File {
                        spec: FileSpec { nkeys, key_seed: 77, id_offset: 5, corrupt: Some((field, boundary(nkeys, sel, 0))), key_xor: None, cut: None },
                        history: 2,
                    });
                }
            }
        }
        v.extend(daemon_cases());
        v
    }

    fn enumeration_note() -> Option<&'static str> {
        Some("complete: all prefixes of stored images for 1..=5 keys x rotations {0,1,3} x history {0,1,4}; all 4 header fields x 8 boundary values x 0..=5 keys; 25 daemon scenarios (fresh start under 4 umasks, 3 well-formed files, 7 crash-point prefixes, 11 header corruptions)")
    }

    /// fuzzer input: one selector byte (history), then the bytes of a key file
    fn from_bytes(data: &[u8]) -> Option<Case> {
        let (&sel, rest) = data.split_first()?;
        Some(Case::Garbage { bytes: rest[..rest.len().min(400)].to_vec(), history: sel % 5 })
    }

    fn check(case: &Case) -> Outcome {
        let mut labels = Labels::default();
        let r = match case {
            Case::Prefixes { nkeys, key_seed, id_offset, rotations, history } => {
                labels.add("prefix-sweep");
                check_prefixes(*nkeys, *key_seed, *id_offset, *rotations, *history as usize, &mut labels)
            }
            Case::File { spec, history } => check_file(spec, *history as usize, &mut labels),
            Case::Garbage { bytes, history } => {
                labels.add("garbage");
                (|| -> Result<bool, Failure> {
                    match load_caught(bytes, *history as usize, "garbage")? {
                        None => labels.add("rejected"),
                        Some(p) => {
                            labels.add("loaded");
                            usable(p, *history as usize, "garbage")?;
                        }
                    }
                    Ok(true)
                })()
            }
            Case::Daemon { file, history, umask } => {
                labels.add("daemon");
                check_daemon(file, *history as usize, *umask, &mut labels)
            }
        };
        match r {
            Ok(nontrivial) => {
                let mut out = Outcome::pass(nontrivial);
                out.labels = labels.0;
                out
            }
            Err(f) => {
                let mut out = Outcome::fail(f.signature, f.what);
                out.labels = labels.0;
                out
            }
        }
    }
}
