//! C05 (on-wire formulas), C14 (building a poll request never fails), C33 (stratum / loop avoidance),
//! C37 (only registered, usable sources influence the clock).
use std::sync::{Arc, Mutex};
use std::time::Duration;

use crate::engine::*;
use crate::refwire::*;
use crate::w_kalman::RecClock;
use crate::w_server::{AddrSpec, addr_strategy, seeded_bytes, session_keys};
use ntp_proto::verif_hook as nh;
use ntp_proto::verif_hook::kalman as kh;
use ntp_proto::verif_hook::{InternalMeasurement, InternalSourceController, InternalStateUpdate, InternalTimeSyncController};
use ntp_proto::{
    AlgorithmConfig, ClockId, KalmanClockController, Measurement, NtpDuration, NtpLeapIndicator, NtpManager,
    NtpSourceAction, NtpSourceSnapshot, NtpTimestamp, PollInterval, PollIntervalLimits, ProtocolVersion,
    SourceConfig, SourceController, SynchronizationConfig, TimeSyncController, TimeSyncControllerWrapper,
};
use proptest::prelude::*;
use serde::{Deserialize, Serialize};

macro_rules! bail {
    ($sig:expr, $($fmt:tt)*) => {
        return Outcome::fail($sig, format!($($fmt)*))
    };
}

// ---------------------------------------------------------------------------
// a recording inner controller (C05, C37)

#[derive(Debug, Clone)]
pub enum Call {
    Add(ClockId),
    Remove(ClockId),
    Update(ClockId, bool),
    Message(ClockId, u64),
}

type Log = Arc<Mutex<Vec<Call>>>;
type MLog = Arc<Mutex<Vec<(ClockId, i64 /*offset*/, Option<i64> /*delay*/, u64 /*localtime*/)>>>;

thread_local! {
    static LOGS: std::cell::RefCell<Option<(Log, MLog)>> = const { std::cell::RefCell::new(None) };
}

pub struct FakeCtl {
    log: Log,
    mlog: MLog,
}
pub struct FakeSrc<D> {
    id: ClockId,
    mlog: MLog,
    seq: u64,
    _d: std::marker::PhantomData<D>,
}

trait DelayRaw {
    fn raw(&self) -> Option<i64>;
}
impl DelayRaw for NtpDuration {
    fn raw(&self) -> Option<i64> {
        Some(nh::time::duration_raw(*self))
    }
}
impl DelayRaw for () {
    fn raw(&self) -> Option<i64> {
        None
    }
}

impl<D: std::fmt::Debug + Copy + Clone + Send + DelayRaw + 'static> InternalSourceController for FakeSrc<D> {
    type ControllerMessage = u64;
    type SourceMessage = u64;
    type MeasurementDelay = D;
    fn handle_message(&mut self, _m: u64) {}
    fn handle_measurement(&mut self, m: InternalMeasurement<D>) -> Option<u64> {
        self.mlog.lock().unwrap().push((self.id, nh::time::duration_raw(m.offset), m.delay.raw(), nh::time::timestamp_raw(m.localtime)));
        self.seq += 1;
        Some(self.seq)
    }
    fn desired_poll_interval(&self) -> PollInterval {
        PollInterval::from_byte(4)
    }
    fn observe(&self) -> ntp_proto::ObservableSourceTimedata {
        Default::default()
    }
}

impl InternalTimeSyncController for FakeCtl {
    type Clock = RecClock;
    type AlgorithmConfig = AlgorithmConfig;
    type ControllerMessage = u64;
    type SourceMessage = u64;
    type NtpSourceController = FakeSrc<NtpDuration>;
    type OneWaySourceController = FakeSrc<()>;
    fn new(_c: RecClock, _s: SynchronizationConfig, _a: AlgorithmConfig) -> Result<Self, crate::w_kalman::NoErr> {
        let (log, mlog) = LOGS.with(|l| l.borrow().clone()).expect("logs installed");
        Ok(FakeCtl { log, mlog })
    }
    fn take_control(&mut self) -> Result<(), crate::w_kalman::NoErr> {
        Ok(())
    }
    fn add_source(&mut self, id: ClockId, _c: SourceConfig) -> FakeSrc<NtpDuration> {
        self.log.lock().unwrap().push(Call::Add(id));
        FakeSrc { id, mlog: self.mlog.clone(), seq: 0, _d: Default::default() }
    }
    fn add_one_way_source(&mut self, id: ClockId, _c: SourceConfig, _n: f64, _a: f64, _p: Option<f64>) -> FakeSrc<()> {
        self.log.lock().unwrap().push(Call::Add(id));
        FakeSrc { id, mlog: self.mlog.clone(), seq: 0, _d: Default::default() }
    }
    fn remove_source(&mut self, id: ClockId) {
        self.log.lock().unwrap().push(Call::Remove(id));
    }
    fn source_update(&mut self, id: ClockId, usable: bool) {
        self.log.lock().unwrap().push(Call::Update(id, usable));
    }
    fn source_message(&mut self, id: ClockId, m: u64) -> InternalStateUpdate<u64> {
        self.log.lock().unwrap().push(Call::Message(id, m));
        InternalStateUpdate::default()
    }
    fn time_update(&mut self) -> InternalStateUpdate<u64> {
        InternalStateUpdate::default()
    }
}

fn new_clock() -> RecClock {
    RecClock(Arc::new(Mutex::new(crate::w_kalman::ClockState { now: 1 << 40, freq: 0.0, events: vec![], stream_fd: None })))
}

fn meas(sender: ClockId, receiver: ClockId, s: u64, r: u64) -> Measurement {
    Measurement {
        sender_id: sender,
        receiver_id: receiver,
        sender_ts: nh::time::timestamp_from_raw(s),
        receiver_ts: nh::time::timestamp_from_raw(r),
        root_delay: NtpDuration::ZERO,
        root_dispersion: NtpDuration::ZERO,
        leap: NtpLeapIndicator::NoWarning,
        precision: -20,
    }
}

// ---------------------------------------------------------------------------
// C05

#[derive(Debug, Clone, Serialize, Deserialize)]
pub enum C05Case {
    /// a real association (source world): the measurements it hands on must carry exactly the four on-wire
    /// timestamps of the exchange (send time, T2, T3, receive time)
    Wire(crate::w_source::SourceCase),
    TwoWay { t1: u64, t2: u64, t3: u64, t4: u64 },
    OneWay { remote: u64, local: u64 },
}

pub struct C05;
impl Property for C05 {
    type Case = C05Case;
    const ID: &'static str = "C05";
    const RULE: &'static str = "timestamp quadruples built as base + signed deltas (base near 0, 2^63, 2^64 and random so era wrap is frequent; every true difference |Δ| < 2^31 s, so representable) and one-way pairs, fed as the two measurements the source hands to the two-way / one-way controller wrappers with a recording inner controller; oracle = i128 arithmetic on the wrapped 64-bit differences: offset = ((T2-T1)+(T3-T4))/2 within one unit (halving), delay = (T4-T1)-(T3-T2) exactly (saturating at the representable range), one-way offset = remote - local; plus, rarely (they cost 10^3 quadruples each), real association histories in the source world: every measurement pair handed on carries exactly (send time, T2, T3, receive time) of its exchange; non-trivial = not all deltas zero";
    const ASSUMPTIONS: &'static [&'static str] = &["the recorded InternalMeasurement is what the clock filter receives"];
    const QUICK_CASES: u32 = 1_500_000;
    const THOROUGH_CASES: u32 = 150_000_000;
    fn strategy(_t: Tier) -> BoxedStrategy<C05Case> {
        let base = prop_oneof![
            2 => prop::sample::select(vec![0u64, 1, u64::MAX, 1 << 63, (1 << 63) - 1, 1 << 32, 0xE000_0000_0000_0000, 0x83AA_7E80_0000_0000]),
            2 => any::<u64>(),
        ];
        // deltas strictly inside (-2^63, 2^63) units = (-2^31, 2^31) seconds
        let delta = || {
            prop_oneof![
                3 => -(1i64 << 40)..(1i64 << 40),
                2 => any::<i64>().prop_map(|v| v / 2),
                2 => any::<i64>().prop_filter("representable", |v| *v != i64::MIN),
                1 => prop::sample::select(vec![0i64, 1, -1, i64::MAX, i64::MIN + 1, 1 << 62, -(1 << 62), (1 << 62) + 1]),
                1 => (-40i64..40).prop_map(|y| y * 31_557_600i64 << 32),
            ]
        };
        prop_oneof![
            1600 => (base.clone(), delta(), delta(), delta()).prop_map(|(t1, off, d1, d2)| {
                // T2 = T1 + off + d1/…: build from independent representable differences
                let t2 = t1.wrapping_add(off as u64);
                let t3 = t2.wrapping_add((d1 >> 20) as u64);
                let t4 = t3.wrapping_sub(d2 as u64);
                C05Case::TwoWay { t1, t2, t3, t4 }
            }),
            400 => (base, delta()).prop_map(|(local, d)| C05Case::OneWay { remote: local.wrapping_add(d as u64), local }),
            // source-world histories are 10^3 times more expensive than a quadruple: one case in 2000
            1 => crate::w_source::case_strategy(12).prop_map(C05Case::Wire),
        ]
        .boxed()
    }
    fn check(case: &C05Case) -> Outcome {
        let logs: (Log, MLog) = (Default::default(), Default::default());
        LOGS.with(|l| *l.borrow_mut() = Some(logs.clone()));
        let w = TimeSyncControllerWrapper::<FakeCtl>::new(new_clock(), SynchronizationConfig::default(), AlgorithmConfig::default()).unwrap();
        let id = ClockId::new();
        let wrapdiff = |a: u64, b: u64| -> i128 { (a.wrapping_sub(b) as i64) as i128 };
        let sat = |v: i128| -> i128 { v.clamp(i64::MIN as i128, i64::MAX as i128) };
        if let C05Case::Wire(sc) = case {
            // the timestamp clause of the source-world judge (shared with C08); its other clauses are C08's business
            let o = super::source::check_source(sc, super::source::Which::C08);
            let timestamps_wrong = o.failure.as_ref().is_some_and(|f| f.signature.starts_with("measurement-timestamps-differ") || f.signature == "measurement-count");
            if timestamps_wrong {
                return Outcome { failure: o.failure, labels: vec!["wire"], nontrivial: true };
            }
            let measured = o.labels.iter().any(|l| *l == "delivery-accepted");
            return Outcome::pass(measured).label("wire");
        }
        match *case {
            C05Case::Wire(_) => unreachable!(),
            C05Case::TwoWay { t1, t2, t3, t4 } => {
                let d21 = wrapdiff(t2, t1);
                let d34 = wrapdiff(t3, t4);
                let d41 = wrapdiff(t4, t1);
                let d32 = wrapdiff(t3, t2);
                // the statement only covers representable true differences
                if [d21, d34, d41, d32].iter().any(|d| *d == i64::MIN as i128) {
                    return Outcome::pass(false).label("discard-unrepresentable");
                }
                let mut src = w.add_source(id, SourceConfig::default());
                src.handle_measurement(meas(ClockId::SYSTEM, id, t1, t2));
                src.handle_measurement(meas(id, ClockId::SYSTEM, t3, t4));
                let got = logs.1.lock().unwrap().clone();
                if got.len() != 1 {
                    bail!("exchange-did-not-produce-one-filter-input", "{} inputs", got.len());
                }
                let (_, off, delay, local) = got[0];
                let want_off2 = d21 + d34; // twice the offset
                let err = (2 * off as i128 - want_off2).abs();
                if err > 2 {
                    bail!("offset-differs-from-on-wire-formula", "T1={t1:#x} T2={t2:#x} T3={t3:#x} T4={t4:#x}: offset {off} units, formula {} units", want_off2 / 2);
                }
                let want_delay = sat(d41 - d32);
                if delay != Some(want_delay as i64) {
                    bail!("delay-differs-from-on-wire-formula", "T1={t1:#x} T2={t2:#x} T3={t3:#x} T4={t4:#x}: delay {delay:?}, formula {want_delay}");
                }
                if local != t4 {
                    bail!("filter-input-local-time-is-not-t4", "{local:#x} vs {t4:#x}");
                }
                let era = (t2 < t1) != (d21 < 0) || (t4 < t3) == (d34 < 0) && d34 != 0;
                Outcome::pass(d21 != 0 || d34 != 0)
                    .label("two-way")
                    .labels(era.then_some("era-wrap"))
                    .labels((want_delay < 0).then_some("negative-delay"))
                    .labels((want_off2 % 2 != 0).then_some("odd-sum"))
                    .labels((want_off2.abs() > i64::MAX as i128).then_some("sum-beyond-2^31s"))
            }
            C05Case::OneWay { remote, local } => {
                let mut src = w.add_one_way_source(id, SourceConfig::default(), 1e-6, 1e-6, None);
                src.handle_measurement(meas(id, ClockId::SYSTEM, remote, local));
                let got = logs.1.lock().unwrap().clone();
                if got.len() != 1 {
                    bail!("one-way-sample-did-not-produce-one-filter-input", "{} inputs", got.len());
                }
                let want = wrapdiff(remote, local);
                if got[0].1 as i128 != want {
                    bail!("one-way-offset-is-not-remote-minus-local", "remote {remote:#x} local {local:#x}: {} vs {want}", got[0].1);
                }
                Outcome::pass(want != 0).label("one-way")
            }
        }
    }
}

// ---------------------------------------------------------------------------
// C14

#[derive(Debug, Clone, Serialize, Deserialize)]
pub struct C14Case {
    /// cookie lengths held (oldest first); empty = no NTS
    pub cookies: Vec<u16>,
    pub alg512: bool,
    /// 0 v4, 1 v5, 2 auto (plain only)
    pub proto: u8,
    pub timers: u8,
}

pub struct C14;
impl Property for C14 {
    type Case = C14Case;
    const ID: &'static str = "C14";
    const RULE: &'static str = "ENUMERATED on every run: cookie length 0..=1024 (step 1) × stash fill 1..=8 (all cookies of that length) × {NTPv4, NTPv5} × {AES-SIV-CMAC-256, -512}, plus plain associations in all three version modes; GENERATED: mixed-size stashes (lengths 0..1100) and several consecutive timers; oracle = handle_timer returns (no panic) and yields either Reset or a Send of ≤ 1024 bytes that the reference codec decodes and (NTS) authenticates under the c2s key; non-trivial = a cookie of ≥ 300 bytes";
    const ASSUMPTIONS: &'static [&'static str] = &["cookie contents are seeded bytes (the client never looks inside a cookie)"];
    const QUICK_CASES: u32 = 200_000;
    const THOROUGH_CASES: u32 = 62_000_000;
    fn enumeration_note() -> Option<&'static str> {
        Some("complete sub-space: cookie length 0..=1024 × fill 1..=8 × {v4,v5} × {AEAD 256,512} (32800 cases) + 3 plain modes")
    }
    fn enumerate(_t: Tier) -> Vec<C14Case> {
        let mut v = Vec::new();
        for len in 0..=1024u16 {
            for fill in 1..=8usize {
                for proto in 0..2u8 {
                    for alg512 in [false, true] {
                        v.push(C14Case { cookies: vec![len; fill], alg512, proto, timers: 1 });
                    }
                }
            }
        }
        for proto in 0..3u8 {
            v.push(C14Case { cookies: vec![], alg512: false, proto, timers: 3 });
        }
        v
    }
    fn strategy(_t: Tier) -> BoxedStrategy<C14Case> {
        (
            prop::collection::vec(prop_oneof![3 => 0u16..1100, 1 => Just(104u16), 1 => 700u16..740, 1 => 100u16..130], 0..9),
            any::<bool>(),
            0u8..3,
            1u8..10,
        )
            .prop_map(|(cookies, alg512, proto, timers)| C14Case { proto: if cookies.is_empty() { proto } else { proto % 2 }, cookies, alg512, timers })
            .boxed()
    }
    fn check(case: &C14Case) -> Outcome {
        let nts = !case.cookies.is_empty();
        let keys = session_keys(0xC14, case.alg512);
        let cookies: Vec<Vec<u8>> = case.cookies.iter().enumerate().map(|(i, l)| seeded_bytes(0x14_0000 + i as u64, *l as usize)).collect();
        let manager = NtpManager::new(SynchronizationConfig::default(), Arc::from(Vec::new()));
        let ctl = crate::w_source::RecCtl { log: Default::default(), desired: Arc::new(Mutex::new(4)) };
        let pv = match (case.proto, nts) {
            (1, _) => ProtocolVersion::V5,
            (2, false) => ProtocolVersion::v4_upgrading_to_v5_with_default_tries(),
            _ => ProtocolVersion::V4,
        };
        let nts_data = nts.then(|| nh::make_nts_data(cookies, &keys.c2s.0, &keys.s2c.0).unwrap());
        let (mut source, _) = manager.new_source("127.0.0.1:123".parse().unwrap(), SourceConfig::default(), pv, ctl, nts_data, ClockId::new());
        let mut labels = Labels::default();
        let mut out_nontrivial = case.cookies.iter().any(|l| *l >= 300);
        crate::rt::run_paused(async {
            for t in 0..case.timers {
                let mut sent = None;
                let mut reset = false;
                for a in source.handle_timer() {
                    match a {
                        NtpSourceAction::Send(b) => sent = Some(b),
                        NtpSourceAction::Reset | NtpSourceAction::Demobilize => reset = true,
                        NtpSourceAction::SetTimer(_) => {}
                    }
                }
                match (sent, reset) {
                    (None, true) => {
                        labels.add("reset");
                        break;
                    }
                    (None, false) => return Some(("timer-yields-neither-request-nor-reset".to_string(), format!("timer #{t}"))),
                    (Some(b), _) => {
                        if b.len() > 1024 {
                            return Some(("request-larger-than-send-buffer".to_string(), format!("{} bytes", b.len())));
                        }
                        let Some(p) = decode_packet(&b, nts.then_some(&keys.c2s)) else {
                            return Some(("request-does-not-decode".to_string(), format!("{} bytes", b.len())));
                        };
                        if nts && !p.authenticated {
                            return Some(("nts-request-not-authenticated".to_string(), format!("{} bytes", b.len())));
                        }
                        labels.add("sent");
                        labels.add_if(b.len() > 900, "request>900-bytes");
                    }
                }
            }
            None
        })
        .map(|(sig, what)| Outcome::fail(sig, what))
        .unwrap_or_else(|| {
            if !nts {
                out_nontrivial = false;
            }
            let mut o = Outcome::pass(out_nontrivial);
            o.labels = labels.0;
            o.label(if nts { "nts" } else { "plain" })
        })
    }
}

// ---------------------------------------------------------------------------
// C33

#[derive(Debug, Clone, Serialize, Deserialize)]
pub enum C33Case {
    /// accept_synchronization on a generated snapshot
    Accept {
        stratum: u8,
        reachable: bool,
        source_addr: AddrSpec,
        /// None = arbitrary value, Some(i) = reference id of the i-th local address
        refid_local: Option<u8>,
        refid: u32,
        local_stratum: u8,
        local_ips: Vec<AddrSpec>,
        /// 0 no filter, 1 filter without our id, 2 filter with our id
        bloom: u8,
        seed: u64,
    },
    /// NtpSnapshot::from_used_sources
    Snapshot { local_stratum: u8, sources: Vec<(bool /*ntp*/, u8 /*stratum*/, u32 /*id*/)>, seed: u64 },
    /// a plain NTPv4 association end to end: answers with a given stratum / reference id
    Wire { local_stratum: u8, local_ips: Vec<AddrSpec>, source_addr: AddrSpec, answers: Vec<(u8 /*stratum*/, Option<u8> /*refid = local ip i*/, u32, bool /*deliver*/)> },
    /// an NTPv5 association end to end: the honest scripted server hands out its Bloom filter chunk by chunk
    /// (with lost answers); `filter_kind` 1 = filter without, 2 = filter with this daemon's server id
    WireV5 { local_stratum: u8, stratum: u8, filter_kind: u8, key_seed: u64, deliver: Vec<bool> },
    /// NtpManager::update_used_sources (the daemon's call): rounds of used-source lists over the external
    /// source types (0 PPS, 1 SOCK, 2 CSPTP) and 3 = an NTP source id that has not reported a snapshot
    Manager { local_stratum: u8, rounds: Vec<Vec<u8>> },
}

pub struct C33;
impl Property for C33 {
    type Case = C33Case;
    const ID: &'static str = "C33";
    const RULE: &'static str = "(a) source snapshots with stratum 0..=17, reachable or not, source address from a pool that overlaps the local address list (v4/v6), reference id arbitrary or equal to the id of a local address, NTPv5 Bloom filter absent / without / with this daemon's server id, local stratum 1..16: acceptance implies every condition of the statement; (b) lists of used NTP/external sources: advertised stratum = primary + 1 (or the local stratum without sources), reference id = primary's id, the filter contains our id; (c) a plain association end to end: answers with stratum/reference id (incl. the id of a local address): the controller is told 'usable' only if the conditions hold for the state after that answer; (d) an NTPv5 association end to end with an honest scripted server whose 512-byte Bloom filter does or does not contain this daemon's id, 20..80 polls of which about one in ten stays unanswered: whenever the source is reported usable, a filter it regards as complete must be the server's and must not contain this daemon's id; (e) rounds of NtpManager::update_used_sources over external source types (PPS/SOCK/CSPTP: stratum 0, fixed identifiers) and not-yet-reported NTP ids: advertised stratum/reference id as in (b), unchanged while a used NTP source has not reported; non-trivial = a case where at least one rejection reason applies";
    const ASSUMPTIONS: &'static [&'static str] = &["the reference id a looping source reports for one of this daemon's addresses is the RFC 5905 value (IPv4 address, or first four octets of the MD5 of the IPv6 address), computed by the harness with the md-5 crate"];
    const QUICK_CASES: u32 = 1_000_000;
    const THOROUGH_CASES: u32 = 22_000_000;
    fn strategy(_t: Tier) -> BoxedStrategy<C33Case> {
        let ips = || prop::collection::vec(addr_strategy(), 0..4);
        prop_oneof![
            5 => (0u8..18, prop_oneof![4 => Just(true), 1 => Just(false)], addr_strategy(), prop_oneof![2 => Just(None), 1 => (0u8..4).prop_map(Some)], any::<u32>(), 1u8..17, ips(), 0u8..3, any::<u64>())
                .prop_map(|(stratum, reachable, source_addr, refid_local, refid, local_stratum, mut local_ips, bloom, seed)| {
                    if seed % 5 == 0 {
                        local_ips.push(source_addr.clone());
                    }
                    C33Case::Accept { stratum, reachable, source_addr, refid_local, refid, local_stratum, local_ips, bloom, seed }
                }),
            2 => (1u8..17, prop::collection::vec((any::<bool>(), 0u8..18, any::<u32>()), 0..5), any::<u64>())
                .prop_map(|(local_stratum, sources, seed)| C33Case::Snapshot { local_stratum, sources, seed }),
            3 => (prop_oneof![2 => Just(16u8), 1 => 1u8..17], ips(), addr_strategy(), prop::collection::vec((1u8..17, prop_oneof![2 => Just(None), 1 => (0u8..4).prop_map(Some)], any::<u32>(), prop_oneof![4 => Just(true), 1 => Just(false)]), 1..12))
                .prop_map(|(local_stratum, local_ips, source_addr, answers)| C33Case::Wire { local_stratum, local_ips, source_addr, answers }),
            1 => (prop_oneof![3 => Just(16u8), 1 => 2u8..17], 1u8..16, prop_oneof![3 => Just(2u8), 2 => Just(1u8)], any::<u64>(), prop::collection::vec(prop_oneof![9 => Just(true), 1 => Just(false)], 20..80))
                .prop_map(|(local_stratum, stratum, filter_kind, key_seed, deliver)| C33Case::WireV5 { local_stratum, stratum, filter_kind, key_seed, deliver }),
            1 => (1u8..17, prop::collection::vec(prop::collection::vec(prop_oneof![3 => 0u8..3, 1 => Just(3u8)], 0..4), 1..5))
                .prop_map(|(local_stratum, rounds)| C33Case::Manager { local_stratum, rounds }),
        ]
        .boxed()
    }
    fn check(case: &C33Case) -> Outcome {
        use rand::SeedableRng;
        match case {
            C33Case::Accept { stratum, reachable, source_addr, refid_local, refid, local_stratum, local_ips, bloom, seed } => {
                let ips: Vec<std::net::IpAddr> = local_ips.iter().map(|a| a.ip()).collect();
                let local_ids: Vec<u32> = ips.iter().map(|ip| crate::w_source::refid_of_ip(*ip)).collect();
                let reference_id = match refid_local {
                    Some(i) if !local_ids.is_empty() => local_ids[*i as usize % local_ids.len()],
                    _ => *refid,
                };
                let mut rng = rand::rngs::StdRng::seed_from_u64(*seed);
                let me = ntp_proto::v5::ServerId::new(&mut rng);
                let other = ntp_proto::v5::ServerId::new(&mut rng);
                let filter = match bloom {
                    0 => None,
                    1 => {
                        let mut f = ntp_proto::v5::BloomFilter::new();
                        f.add_id(&other);
                        Some(f)
                    }
                    _ => {
                        let mut f = ntp_proto::v5::BloomFilter::new();
                        f.add_id(&other);
                        f.add_id(&me);
                        Some(f)
                    }
                };
                let mut snap: NtpSourceSnapshot = ntp_proto::source_snapshot();
                snap.source_addr = std::net::SocketAddr::new(source_addr.ip(), 123);
                snap.source_id = ntp_proto::ReferenceId::from_ip(source_addr.ip());
                snap.stratum = *stratum;
                snap.reference_id = nh::refid_from_u32(reference_id);
                snap.reach = nh::reach_with(*reachable);
                snap.bloom_filter = filter;
                let accepted = snap.accept_synchronization(*local_stratum, &ips, me).is_ok();
                let own = crate::w_source::refid_of_ip(source_addr.ip());
                let is_self = local_ids.contains(&own);
                let refid_loop = *stratum > 1 && local_ids.contains(&reference_id);
                let bloom_loop = filter.is_some_and(|f| f.contains_id(&me));
                let reasons = [(*stratum >= *local_stratum, "stratum-not-below-local"), (!*reachable, "unreachable"), (is_self, "source-is-this-daemon"), (refid_loop, "reports-this-daemon-as-reference"), (bloom_loop, "bloom-filter-contains-this-daemon")];
                let mut labels = Labels::default();
                for (c, l) in reasons {
                    labels.add_if(c, l);
                    if c && accepted {
                        return Outcome::fail(format!("source-accepted-although/{l}"), format!("stratum {stratum} local {local_stratum} reachable {reachable} source id {own:#x} reference id {reference_id:#x} local ids {local_ids:x?} bloom {bloom}"));
                    }
                }
                labels.add_if(accepted, "accepted");
                let mut o = Outcome::pass(reasons.iter().any(|r| r.0));
                o.labels = labels.0;
                o.label("accept")
            }
            C33Case::Snapshot { local_stratum, sources, seed } => {
                let mut rng = rand::rngs::StdRng::seed_from_u64(*seed);
                let me = ntp_proto::v5::ServerId::new(&mut rng);
                let list: Vec<nh::SourceSnapshot> = sources
                    .iter()
                    .map(|(ntp, stratum, id)| {
                        if *ntp {
                            let mut s = ntp_proto::source_snapshot();
                            s.stratum = *stratum;
                            s.source_id = nh::refid_from_u32(*id);
                            nh::SourceSnapshot::Ntp(s)
                        } else {
                            nh::SourceSnapshot::External { stratum: *stratum, source_id: nh::refid_from_u32(*id) }
                        }
                    })
                    .collect();
                let snap = ntp_proto::NtpSnapshot::from_used_sources(*local_stratum, me, list.into_iter());
                let (want_stratum, want_id) = match sources.first() {
                    Some((_, s, id)) => (s.saturating_add(1), Some(*id)),
                    None => (*local_stratum, None),
                };
                if snap.stratum != want_stratum {
                    bail!("advertised-stratum-not-primary-plus-one", "{} vs {want_stratum}", snap.stratum);
                }
                if let Some(id) = want_id {
                    if nh::refid_to_u32(snap.reference_id) != id {
                        bail!("advertised-reference-id-not-primary", "{:#x} vs {id:#x}", nh::refid_to_u32(snap.reference_id));
                    }
                }
                if !snap.bloom_filter.contains_id(&me) {
                    bail!("advertised-filter-misses-own-id", "{} sources", sources.len());
                }
                Outcome::pass(sources.len() >= 2).label("snapshot")
            }
            C33Case::Wire { local_stratum, local_ips, source_addr, answers } => {
                let case = crate::w_source::SourceCase {
                    nts: None,
                    proto: 0,
                    poll_min: 4,
                    poll_max: 10,
                    desired_poll: 4,
                    local_stratum: *local_stratum,
                    local_ips: local_ips.clone(),
                    source_addr: source_addr.clone(),
                    key_seed: 33,
                    ops: answers
                        .iter()
                        .flat_map(|(stratum, refid_local, refid, deliver)| {
                            let mut r = crate::w_source::Resp::honest(*stratum);
                            r.refid = match refid_local {
                                Some(i) => crate::w_source::RefidSel::LocalIp(*i),
                                None => crate::w_source::RefidSel::Value(*refid),
                            };
                            let mut v = vec![crate::w_source::Op::Timer];
                            if *deliver {
                                v.push(crate::w_source::Op::Deliver(r));
                            }
                            v
                        })
                        .collect(),
                    skip: vec![],
                    server_filter_kind: 0,
                };
                let t = crate::rt::run_paused(crate::w_source::run_case(&case));
                let own = t.source_own_refid;
                let mut any_reason = false;
                for (si, s) in t.steps.iter().enumerate() {
                    for e in &s.events {
                        if let crate::w_source::CtlEvent::Usable(true) = e {
                            let st = &s.state;
                            let reasons = [
                                (st.stratum >= *local_stratum, "stratum-not-below-local"),
                                (st.reach == 0, "unreachable"),
                                (t.local_refids.contains(&own), "source-is-this-daemon"),
                                (st.stratum > 1 && t.local_refids.contains(&st.reference_id), "reports-this-daemon-as-reference"),
                            ];
                            for (c, l) in reasons {
                                if c {
                                    return Outcome::fail(format!("source-marked-usable-although/{l}"), format!("step {si}: stratum {} reach {:#b} source id {own:#x} reference id {:#x} local ids {:x?}", st.stratum, st.reach, st.reference_id, t.local_refids));
                                }
                            }
                        }
                    }
                    let st = &s.state;
                    if st.stratum >= *local_stratum || (st.stratum > 1 && t.local_refids.contains(&st.reference_id)) || t.local_refids.contains(&own) {
                        any_reason = true;
                    }
                }
                Outcome::pass(any_reason).label("wire")
            }
            C33Case::Manager { local_stratum, rounds } => {
                let mut sync = SynchronizationConfig::default();
                sync.local_stratum = *local_stratum;
                let manager = ntp_proto::NtpManager::new(sync, Vec::<std::net::IpAddr>::new().into());
                let mut previous = manager.observe();
                let mut decided = false;
                for (ri, kinds) in rounds.iter().enumerate() {
                    let list: Vec<(ClockId, ntp_proto::SourceType)> = kinds
                        .iter()
                        .map(|k| {
                            (
                                ClockId::new(),
                                match k {
                                    0 => ntp_proto::SourceType::Pps,
                                    1 => ntp_proto::SourceType::Sock,
                                    2 => ntp_proto::SourceType::Csptp,
                                    _ => ntp_proto::SourceType::Ntp,
                                },
                            )
                        })
                        .collect();
                    let snap = manager.update_used_sources(list.into_iter());
                    let advertised = manager.observe();
                    if (snap.stratum, nh::refid_to_u32(snap.reference_id)) != (advertised.stratum, nh::refid_to_u32(advertised.reference_id)) {
                        bail!("manager-returns-other-snapshot-than-it-advertises", "round {ri}");
                    }
                    if kinds.contains(&3) {
                        // a used NTP source that has not reported yet: the advertisement stays as it was
                        if (snap.stratum, nh::refid_to_u32(snap.reference_id)) != (previous.stratum, nh::refid_to_u32(previous.reference_id)) {
                            bail!("advertisement-changed-before-sources-reported", "round {ri}: {kinds:?}");
                        }
                    } else {
                        decided = true;
                        let (want_stratum, want_id) = match kinds.first() {
                            None => (*local_stratum, None),
                            Some(0) => (1, Some(u32::from_be_bytes(*b"PPS\0"))),
                            Some(1) => (1, Some(u32::from_be_bytes(*b"SOCK"))),
                            Some(_) => (1, Some(u32::from_be_bytes(*b"CPTP"))),
                        };
                        if snap.stratum != want_stratum {
                            bail!("advertised-stratum-not-primary-plus-one", "round {ri}: {kinds:?} gives {} instead of {want_stratum}", snap.stratum);
                        }
                        if let Some(id) = want_id {
                            if nh::refid_to_u32(snap.reference_id) != id {
                                bail!("advertised-reference-id-not-primary", "round {ri}: {:#x} vs {id:#x}", nh::refid_to_u32(snap.reference_id));
                            }
                        }
                    }
                    previous = snap;
                }
                Outcome::pass(decided && rounds.len() >= 2).label("manager")
            }
            C33Case::WireV5 { local_stratum, stratum, filter_kind, key_seed, deliver } => {
                let case = crate::w_source::SourceCase {
                    nts: None,
                    proto: 1,
                    poll_min: 4,
                    poll_max: 10,
                    desired_poll: 4,
                    local_stratum: *local_stratum,
                    local_ips: vec![],
                    source_addr: AddrSpec::V4(0x0A00_0001),
                    key_seed: *key_seed,
                    ops: deliver
                        .iter()
                        .flat_map(|d| {
                            let mut v = vec![crate::w_source::Op::Timer];
                            if *d {
                                v.push(crate::w_source::Op::Deliver(crate::w_source::Resp::honest(*stratum)));
                            }
                            v
                        })
                        .collect(),
                    skip: vec![],
                    server_filter_kind: (*filter_kind).clamp(1, 2),
                };
                let t = crate::rt::run_paused(crate::w_source::run_case(&case));
                let mut labels = Labels::default();
                let mut complete_with_us = false;
                for (si, s) in t.steps.iter().enumerate() {
                    let usable_now = s.events.iter().any(|e| matches!(e, crate::w_source::CtlEvent::Usable(true)));
                    match s.held_filter_is_servers {
                        Some(true) => {
                            labels.add("filter-transferred");
                            if t.server_id_in_filter {
                                complete_with_us = true;
                                if usable_now {
                                    return Outcome::fail(
                                        "source-marked-usable-although/bloom-filter-contains-this-daemon",
                                        format!("step {si}: the source holds the server's complete filter, which contains this daemon's id, and was reported usable"),
                                    );
                                }
                            }
                        }
                        Some(false) if usable_now => {
                            return Outcome::fail(
                                "usable-decided-on-a-filter-the-source-never-reported",
                                format!("step {si}: the source regards its copy of the server's Bloom filter as complete, but it differs from what the honest server sent"),
                            );
                        }
                        _ => {}
                    }
                    labels.add_if(usable_now, "usable");
                }
                labels.add_if(deliver.iter().any(|d| !*d), "lost-answers");
                let mut o = Outcome::pass(complete_with_us);
                o.labels = labels.0;
                o.label("wire-v5")
            }
        }
    }
}

// ---------------------------------------------------------------------------
// C37

/// delegating inner controller that records what reaches the real Kalman controller
pub struct Spy {
    inner: KalmanClockController<RecClock>,
    log: Log,
    registered: std::collections::HashMap<ClockId, bool>,
    violations: Arc<Mutex<Vec<String>>>,
}

thread_local! {
    static SPY_SHARED: std::cell::RefCell<Option<(Log, Arc<Mutex<Vec<String>>>)>> = const { std::cell::RefCell::new(None) };
}

impl InternalTimeSyncController for Spy {
    type Clock = RecClock;
    type AlgorithmConfig = AlgorithmConfig;
    type ControllerMessage = ntp_proto::KalmanControllerMessage;
    type SourceMessage = ntp_proto::KalmanSourceMessage;
    type NtpSourceController = <KalmanClockController<RecClock> as InternalTimeSyncController>::NtpSourceController;
    type OneWaySourceController = <KalmanClockController<RecClock> as InternalTimeSyncController>::OneWaySourceController;
    fn new(c: RecClock, s: SynchronizationConfig, a: AlgorithmConfig) -> Result<Self, crate::w_kalman::NoErr> {
        let (log, violations) = SPY_SHARED.with(|l| l.borrow().clone()).expect("spy logs installed");
        Ok(Spy { inner: KalmanClockController::new(c, s, a)?, log, registered: Default::default(), violations })
    }
    fn take_control(&mut self) -> Result<(), crate::w_kalman::NoErr> {
        self.inner.take_control()
    }
    fn add_source(&mut self, id: ClockId, c: SourceConfig) -> Self::NtpSourceController {
        self.log.lock().unwrap().push(Call::Add(id));
        self.registered.insert(id, false);
        self.inner.add_source(id, c)
    }
    fn add_one_way_source(&mut self, id: ClockId, c: SourceConfig, n: f64, a: f64, p: Option<f64>) -> Self::OneWaySourceController {
        self.log.lock().unwrap().push(Call::Add(id));
        self.registered.insert(id, false);
        self.inner.add_one_way_source(id, c, n, a, p)
    }
    fn remove_source(&mut self, id: ClockId) {
        self.log.lock().unwrap().push(Call::Remove(id));
        self.registered.remove(&id);
        self.inner.remove_source(id);
    }
    fn source_update(&mut self, id: ClockId, usable: bool) {
        self.log.lock().unwrap().push(Call::Update(id, usable));
        if let Some(u) = self.registered.get_mut(&id) {
            *u = usable;
        }
        self.inner.source_update(id, usable);
    }
    fn source_message(&mut self, id: ClockId, m: Self::SourceMessage) -> InternalStateUpdate<Self::ControllerMessage> {
        // the measurement's root delay field carries the harness's per-source sequence number
        let t = nh::time::duration_raw(kh::view_message(&m).source_delay) as u64;
        self.log.lock().unwrap().push(Call::Message(id, t));
        let u = self.inner.source_message(id, m);
        if let Some(used) = &u.used_sources {
            for s in used {
                match self.registered.get(s) {
                    None => self.violations.lock().unwrap().push(format!("estimate used source {s} which is not registered")),
                    Some(false) => self.violations.lock().unwrap().push(format!("estimate used source {s} which was last reported unusable")),
                    Some(true) => {}
                }
            }
        }
        u
    }
    fn time_update(&mut self) -> InternalStateUpdate<Self::ControllerMessage> {
        self.inner.time_update()
    }
}

#[derive(Debug, Clone, Serialize, Deserialize)]
pub enum SOp {
    Measure { src: u8, offset_us: i32, dt_ms: u16 },
    Usable { src: u8, usable: bool },
    Drop { src: u8 },
    Add,
    /// let the controller's message loop run
    Yield,
    /// let the controller's message loop handle at most part of its backlog (one scheduler turn)
    YieldOnce,
}

#[derive(Debug, Clone, Serialize, Deserialize)]
pub struct C37Case {
    pub initial: u8,
    pub ops: Vec<SOp>,
    /// controller-API level history (no wrapper): late reports for removed ids
    #[serde(default)]
    pub direct: Option<crate::w_kalman::KCase>,
}

pub struct C37;
impl Property for C37 {
    type Case = C37Case;
    const ID: &'static str = "C37";
    const RULE: &'static str = "deterministic single-thread schedules over 1-4 source tasks and the controller's real message loop (TimeSyncControllerWrapper::run on a current-thread runtime): ops {measure(i), set usable/unusable(i), drop(i), add, yield to the controller (drain), yield one scheduler turn}; the real Kalman controller sits behind a delegating spy; oracle = the controller receives each source's updates in production order (measurement times strictly increase per source), nothing for an id after its removal, removal and usability exactly as last sent once the loop has drained, all messages of live sources delivered after a drain, and every id in a used-sources report is registered and last reported usable at that moment; non-trivial = a drop or a usability change with pending messages";
    const ASSUMPTIONS: &'static [&'static str] = &["op-level sequential schedules: every handler runs under the wrapper's mutex, so these cover all orderings of the atomic sections except true parallel preemption (outside this technique family)"];
    const QUICK_CASES: u32 = 100_000;
    const THOROUGH_CASES: u32 = 4_000_000;
    fn strategy(_t: Tier) -> BoxedStrategy<C37Case> {
        let op = prop_oneof![
            8 => (0u8..4, -2000i32..2000, 1u16..3000).prop_map(|(src, offset_us, dt_ms)| SOp::Measure { src, offset_us, dt_ms }),
            3 => (0u8..4, any::<bool>()).prop_map(|(src, usable)| SOp::Usable { src, usable }),
            1 => (0u8..4).prop_map(|src| SOp::Drop { src }),
            1 => Just(SOp::Add),
            3 => Just(SOp::Yield),
            2 => Just(SOp::YieldOnce),
        ];
        let direct = (crate::w_kalman::sync_strategy(false), crate::w_kalman::algo_strategy(false), 2u8..=4, any::<u64>())
            .prop_flat_map(|(sync, algo, n, start_time)| {
                let ops = prop::collection::vec(
                    prop_oneof![
                        6 => (0..n, crate::w_kalman::lattice_snap(false)).prop_map(|(src, s)| crate::w_kalman::KOp::Snap { src, s }),
                        3 => (0..n, prop_oneof![3 => Just(true), 1 => Just(false)]).prop_map(|(src, usable)| crate::w_kalman::KOp::Usable { src, usable }),
                        2 => (0..n).prop_map(|src| crate::w_kalman::KOp::Remove { src }),
                    ],
                    1..40,
                );
                (Just((sync, algo, n, start_time)), ops)
            })
            .prop_map(|((mut sync, algo, n, start_time), ops)| {
                sync.min_agree = 1;
                crate::w_kalman::KCase { sync, algo, init_freq: 0.0, sources: vec![crate::w_kalman::SrcKind::TwoWay; n as usize], poll_min: 4, poll_max: 10, poll_initial: 4, start_time, ops, closed_loop: false }
            });
        prop_oneof![
            3 => (1u8..4, prop::collection::vec(op, 1..80)).prop_map(|(initial, ops)| C37Case { initial, ops, direct: None }),
            1 => direct.prop_map(|k| C37Case { initial: 1, ops: vec![], direct: Some(k) }),
        ]
        .boxed()
    }
    fn check(case: &C37Case) -> Outcome {
        if let Some(k) = &case.direct {
            return check_direct(k);
        }
        let log: Log = Default::default();
        let violations: Arc<Mutex<Vec<String>>> = Default::default();
        SPY_SHARED.with(|l| *l.borrow_mut() = Some((log.clone(), violations.clone())));
        let clock = new_clock();
        let mut sync = SynchronizationConfig::default();
        sync.minimum_agreeing_sources = 1;
        sync.startup_step_panic_threshold = ntp_proto::StepThreshold { forward: None, backward: None };
        sync.single_step_panic_threshold = ntp_proto::StepThreshold { forward: None, backward: None };
        let mut algo = AlgorithmConfig::default();
        algo.meddling_threshold = NtpDuration::MAX;
        let res = crate::rt::run_paused(async {
            let w = Arc::new(TimeSyncControllerWrapper::<Spy>::new(clock.clone(), sync, algo).unwrap());
            let w2 = w.clone();
            let local = tokio::task::LocalSet::new();
            local
                .run_until(async move {
                    let runner = tokio::task::spawn_local(async move { w2.run().await });
                    let cfg = SourceConfig { poll_interval_limits: PollIntervalLimits::default(), initial_poll_interval: PollIntervalLimits::default().min };
                    let mut srcs: Vec<Option<(ClockId, <TimeSyncControllerWrapper<Spy> as TimeSyncController>::NtpSourceController)>> = Vec::new();
                    let mut produced: Vec<(ClockId, u64)> = Vec::new();
                    let mut sent_usable: std::collections::HashMap<ClockId, bool> = Default::default();
                    let mut dropped: Vec<ClockId> = Vec::new();
                    let mut interesting = false;
                    let mut pending = 0usize;
                    for _ in 0..case.initial {
                        let id = ClockId::new();
                        srcs.push(Some((id, w.add_source(id, cfg))));
                    }
                    for op in &case.ops {
                        match op {
                            SOp::Add => {
                                if srcs.len() < 8 {
                                    let id = ClockId::new();
                                    srcs.push(Some((id, w.add_source(id, cfg))));
                                }
                            }
                            SOp::Measure { src, offset_us, dt_ms } => {
                                let i = *src as usize % srcs.len();
                                if let Some((id, c)) = &mut srcs[i] {
                                    tokio::time::advance(Duration::from_millis(*dt_ms as u64)).await;
                                    let now = {
                                        let mut st = clock.0.lock().unwrap();
                                        st.now = st.now.wrapping_add(((*dt_ms as u64) << 32) / 1000);
                                        st.now
                                    };
                                    let off = ((*offset_us as i64) << 32) / 1_000_000;
                                    // T1 = now - 2ms, T2 = T1 + off + 1ms, T3 = T2, T4 = now
                                    let t1 = now.wrapping_sub((2u64 << 32) / 1000);
                                    let t2 = t1.wrapping_add(off as u64).wrapping_add((1u64 << 32) / 1000);
                                    let seq = produced.iter().filter(|p| p.0 == *id).count() as u64 + 1;
                                    let mut m1 = meas(ClockId::SYSTEM, *id, t1, t2);
                                    let mut m2 = meas(*id, ClockId::SYSTEM, t2, now);
                                    m1.root_delay = nh::time::duration_from_raw(seq as i64);
                                    m2.root_delay = nh::time::duration_from_raw(seq as i64);
                                    c.handle_measurement(m1);
                                    c.handle_measurement(m2);
                                    produced.push((*id, seq));
                                    pending += 1;
                                }
                            }
                            SOp::Usable { src, usable } => {
                                let i = *src as usize % srcs.len();
                                if let Some((id, c)) = &mut srcs[i] {
                                    c.set_usable(*usable);
                                    sent_usable.insert(*id, *usable);
                                    if pending > 0 {
                                        interesting = true;
                                    }
                                }
                            }
                            SOp::Drop { src } => {
                                let i = *src as usize % srcs.len();
                                if let Some((id, c)) = srcs[i].take() {
                                    drop(c);
                                    dropped.push(id);
                                    if pending > 0 {
                                        interesting = true;
                                    }
                                }
                            }
                            SOp::Yield => {
                                for _ in 0..64 {
                                    tokio::task::yield_now().await;
                                }
                                pending = 0;
                            }
                            SOp::YieldOnce => tokio::task::yield_now().await,
                        }
                    }
                    for _ in 0..256 {
                        tokio::task::yield_now().await;
                    }
                    runner.abort();
                    (produced, sent_usable, dropped, interesting)
                })
                .await
        });
        let (produced, sent_usable, dropped, interesting) = res;
        if let Some(v) = violations.lock().unwrap().first() {
            let sig = if v.contains("not registered") { "estimate-from-unregistered-source" } else { "estimate-from-unusable-source" };
            return Outcome::fail(sig, v.clone());
        }
        let calls = log.lock().unwrap().clone();
        // per-source order, nothing after removal
        let mut last_t: std::collections::HashMap<ClockId, u64> = Default::default();
        let mut removed: std::collections::HashSet<ClockId> = Default::default();
        let mut last_usable: std::collections::HashMap<ClockId, bool> = Default::default();
        for c in &calls {
            match c {
                Call::Add(_) => {}
                Call::Remove(id) => {
                    removed.insert(*id);
                }
                Call::Update(id, u) => {
                    if removed.contains(id) {
                        bail!("usability-change-delivered-after-removal", "source {id}");
                    }
                    last_usable.insert(*id, *u);
                }
                Call::Message(id, t) => {
                    if removed.contains(id) {
                        bail!("data-delivered-after-removal", "source {id}");
                    }
                    if last_t.get(id).is_some_and(|p| *p >= *t) {
                        bail!("measurements-delivered-out-of-order", "source {id}");
                    }
                    last_t.insert(*id, *t);
                }
            }
        }
        for id in &dropped {
            if !removed.contains(id) {
                bail!("dropped-source-still-registered", "source {id}");
            }
        }
        for (id, u) in &sent_usable {
            if !dropped.contains(id) && last_usable.get(id) != Some(u) {
                bail!("controller-usability-differs-from-last-sent", "source {id}: sent {u}, controller saw {:?}", last_usable.get(id));
            }
        }
        // every produced measurement of a live source reached the controller (the first 8 samples of a source
        // always produce a snapshot; later ones may be withheld by the source filter, so only the order is required there)
        let mut per_src: std::collections::HashMap<ClockId, usize> = Default::default();
        for (id, t) in &produced {
            let n = per_src.entry(*id).or_default();
            *n += 1;
            if *n <= 8 && !dropped.contains(id) && !calls.iter().any(|c| matches!(c, Call::Message(i, tt) if i == id && tt == t)) {
                bail!("measurement-of-live-source-never-delivered", "source {id} sample #{n}");
            }
        }
        Outcome::pass(interesting).label(if dropped.is_empty() { "no-drop" } else { "with-drop" })
    }
}

/// C37 (controller API level): data and usability reports that arrive for an id after its removal
/// must not bring the source back. Uses the Kalman world (no wrapper in between).
fn check_direct(k: &crate::w_kalman::KCase) -> Outcome {
    use crate::w_kalman::{KOp, run_case};
    let ops = crate::rt::run_paused(run_case(k, None));
    let mut removed: std::collections::HashSet<usize> = Default::default();
    let mut late = false;
    for (i, (op, o)) in k.ops.iter().zip(ops.iter()).enumerate() {
        match op {
            KOp::Usable { src, .. } | KOp::Snap { src, .. } | KOp::Meas { src, .. } => {
                if removed.contains(&(*src as usize % k.sources.len())) {
                    late = true;
                }
            }
            _ => {}
        }
        if let Some(used) = &o.used {
            for u in used {
                if removed.contains(u) || *u == usize::MAX {
                    return Outcome::fail("removed-source-used-for-an-estimate", format!("op {i}: source {u} was removed earlier but appears in the used sources {used:?}"));
                }
            }
        }
        for (src, _, _) in &o.held_before {
            if removed.contains(src) {
                return Outcome::fail("removed-source-registered-again", format!("op {i}: the controller holds source {src} again after its removal"));
            }
        }
        if let KOp::Remove { src } = op {
            removed.insert(*src as usize % k.sources.len());
        }
    }
    Outcome::pass(late).label("direct")
}
