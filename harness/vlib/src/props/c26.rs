//! C26 — server cookies: round trip while the issuing key is retained, expiry afterwards,
//! tamper evidence, foreign cookies, newest key used for new cookies.
//!
//! Oracle: a history model that only counts rotations. A cookie issued after `r` rotations
//! must decode to exactly its session (algorithm + both keys) after `r..=r+h` rotations and
//! must not decode after `r+h+1` or more (this is also what "issued under the newest key"
//! means observably: a cookie made with an older key would expire early). Every modified,
//! truncated or foreign cookie must not decode.
use crate::engine::*;
use crate::w_keys::{self, Session};
use ntp_proto::KeySetProvider;
use ntp_proto::verif_hook::cookies;
use proptest::prelude::*;
use serde::{Deserialize, Serialize};

pub struct C26;

#[derive(Debug, Clone, Serialize, Deserialize)]
pub enum Start {
    /// `KeySetProvider::new(history)`
    Fresh,
    /// a key file as the daemon writes it (primary = newest = last key), loaded with `history`;
    /// `nkeys` is reduced to at most history+1
    Loaded { id_offset: u32, nkeys: u8, key_seed: u64 },
}

#[derive(Debug, Clone, Serialize, Deserialize)]
pub enum Op {
    Rotate,
    /// issue a cookie for a new session under the current key set
    Issue { alg256: bool, seed: u64 },
    /// xor one byte (position idx(pos, len)) of an issued cookie with `xor|1`… (never 0)
    Tamper { cookie: u16, pos: u16, xor: u8 },
    /// cut an issued cookie to idx(len, cookie_len) bytes (strictly shorter)
    Truncate { cookie: u16, len: u16 },
    /// every position of an issued cookie: xor with `xor` (non-zero) and all 8 single-bit flips
    Sweep { cookie: u16, xor: u8 },
    /// the same session under an independent key set with the same key ids
    Foreign { alg256: bool, seed: u64 },
}

#[derive(Debug, Clone, Serialize, Deserialize)]
pub struct Case {
    pub history: u8,
    pub start: Start,
    pub ops: Vec<Op>,
}

struct Issued {
    bytes: Vec<u8>,
    session: Session,
    at: u32,
}

fn op() -> BoxedStrategy<Op> {
    prop_oneof![
        6 => Just(Op::Rotate),
        5 => (any::<bool>(), any::<u64>()).prop_map(|(alg256, seed)| Op::Issue { alg256, seed }),
        3 => (any::<u16>(), any::<u16>(), 1u8..=255).prop_map(|(cookie, pos, xor)| Op::Tamper { cookie, pos, xor }),
        1 => (any::<u16>(), any::<u16>()).prop_map(|(cookie, len)| Op::Truncate { cookie, len }),
        1 => (any::<u16>(), 1u8..=255).prop_map(|(cookie, xor)| Op::Sweep { cookie, xor }),
        1 => (any::<bool>(), any::<u64>()).prop_map(|(alg256, seed)| Op::Foreign { alg256, seed }),
    ]
    .boxed()
}

fn start() -> BoxedStrategy<Start> {
    prop_oneof![
        2 => Just(Start::Fresh),
        1 => (prop_oneof![any::<u32>(), (0u32..24).prop_map(|d| u32::MAX - d), 0u32..4], 1u8..=5, any::<u64>())
            .prop_map(|(id_offset, nkeys, key_seed)| Start::Loaded { id_offset, nkeys, key_seed }),
    ]
    .boxed()
}

macro_rules! ensure {
    ($cond:expr, $sig:expr, $($fmt:tt)*) => {
        if !$cond {
            return Outcome::fail($sig, format!($($fmt)*));
        }
    };
}

fn make_provider(start: &Start, history: usize, seed_xor: u64) -> Result<KeySetProvider, String> {
    match start {
        Start::Fresh => Ok(KeySetProvider::new(history)),
        Start::Loaded { id_offset, nkeys, key_seed } => {
            // a file stored with a larger history may hold more keys than history+1; cookies are only
            // issued (and judged) after the load, so the rotation-count model is unaffected
            let n = (*nkeys as usize).clamp(1, 8);
            let keys: Vec<Vec<u8>> = (0..n).map(|i| w_keys::bytes(key_seed ^ seed_xor ^ (i as u64) << 32, 64)).collect();
            let img = w_keys::image(1_700_000_000, *id_offset, n as u32 - 1, n as u32, &keys);
            w_keys::load(&img, history).map(|x| x.0).map_err(|e| format!("well-formed key file rejected: {e}"))
        }
    }
}

impl Property for C26 {
    type Case = Case;
    const ID: &'static str = "C26";
    const RULE: &'static str = "history h in 0..=4; start = fresh provider or a well-formed key file (1..=h+1 keys, newest = primary, id_offset random / near 0 / near u32::MAX) loaded with h; 0..40 ops over {rotate, issue cookie for a seeded session with AES-SIV-CMAC-256 or -512 keys, xor one byte of an issued cookie, truncate it, sweep all positions (one xor value + 8 bit flips each), foreign cookie from an independent key set with identical key ids}; after every rotate ALL issued cookies are re-decoded; after the ops h+1 further rotations follow every cookie to its expiry. Non-trivial = at least one issue and one rotate op (distinct = distinct case)";
    const ASSUMPTIONS: &'static [&'static str] = &[
        "tamper evidence is cryptographic: a forged/modified cookie decoding by chance (probability about 2^-128) would be reported as a violation",
        "bytes appended after the declared length are outside the statement and not checked",
        "a loaded key file may hold more keys than history+1 (stored with a larger history); only cookies issued after the load are judged",
    ];
    const QUICK_CASES: u32 = 120_000;
    const THOROUGH_CASES: u32 = 3_600_000;

    fn strategy(tier: Tier) -> BoxedStrategy<Case> {
        (0u8..=4, start(), prop::collection::vec(op(), 0..tier.pick(40, 80)))
            .prop_map(|(history, start, ops)| Case { history, start, ops })
            .boxed()
    }

    fn enumerate(_tier: Tier) -> Vec<Case> {
        let mut v = Vec::new();
        // every history with a long rotation run, issuing before each rotation; fresh and wrapping starts
        for history in 0u8..=4 {
            for start in [
                Start::Fresh,
                Start::Loaded { id_offset: u32::MAX - 3, nkeys: 5, key_seed: 7 },
                Start::Loaded { id_offset: u32::MAX, nkeys: 1, key_seed: 8 },
            ] {
                let mut ops = Vec::new();
                for i in 0..12u64 {
                    ops.push(Op::Issue { alg256: i % 2 == 0, seed: i });
                    if i % 4 == 1 {
                        ops.push(Op::Sweep { cookie: (i * 5000) as u16, xor: 0x80 });
                        ops.push(Op::Foreign { alg256: i % 2 == 0, seed: i });
                    }
                    ops.push(Op::Rotate);
                }
                v.push(Case { history, start, ops });
            }
        }
        v
    }

    fn enumeration_note() -> Option<&'static str> {
        Some("for every history 0..=4 and three starts (fresh, 5-key file whose ids wrap past u32::MAX, 1-key file at id u32::MAX): 12 x (issue, rotate) with periodic full tamper sweeps and foreign cookies")
    }

    fn check(case: &Case) -> Outcome {
        let h = case.history as usize;
        let mut labels = Labels::default();
        let mut provider = match make_provider(&case.start, h, 0) {
            Ok(p) => p,
            Err(e) => return Outcome::fail("well-formed-key-file-rejected", e),
        };
        // independent key set with the same ids, rotated in lock step
        let mut foreign = match make_provider(&case.start, h, 0x5555_AAAA_5555_AAAA) {
            Ok(p) => p,
            Err(e) => return Outcome::fail("well-formed-key-file-rejected", e),
        };
        labels.add_if(h == 0, "history-0");
        labels.add_if(matches!(case.start, Start::Loaded { .. }), "start-loaded");
        if let Start::Loaded { id_offset, .. } = case.start {
            labels.add_if(id_offset > u32::MAX - 40, "ids-wrap");
        }

        let mut rot: u32 = 0;
        let mut issued: Vec<Issued> = Vec::new();
        let (mut n_issue, mut n_rot) = (0, 0);

        // re-decode every issued cookie and compare with the model
        let verify = |provider: &KeySetProvider, issued: &[Issued], rot: u32, labels: &mut Labels| -> Option<Outcome> {
            let ks = provider.get();
            for (i, c) in issued.iter().enumerate() {
                let age = rot - c.at;
                let got = cookies::decode(&ks, &c.bytes);
                if age as usize <= h {
                    match got {
                        Some(d) if c.session.matches(&d) => {
                            labels.add_if(age > 0, "valid-after-rotation");
                            labels.add_if(age as usize == h && h > 0, "valid-at-last-retained");
                        }
                        Some(_) => {
                            return Some(Outcome::fail(
                                "cookie-decodes-to-other-keys",
                                format!("cookie #{i} issued at rotation {} decodes to different keys at rotation {rot}", c.at),
                            ));
                        }
                        None => {
                            let sig = if age == 0 { "fresh-cookie-rejected" } else { "cookie-rejected-while-key-retained" };
                            return Some(Outcome::fail(
                                sig,
                                format!("cookie #{i} issued at rotation {} rejected at rotation {rot} with history {h} (age {age} <= history)", c.at),
                            ));
                        }
                    }
                } else {
                    labels.add("expired-seen");
                    if got.is_some() {
                        return Some(Outcome::fail(
                            "cookie-accepted-after-key-dropped",
                            format!("cookie #{i} issued at rotation {} still decodes at rotation {rot} with history {h}", c.at),
                        ));
                    }
                }
            }
            None
        };

        for op in &case.ops {
            match op {
                Op::Rotate => {
                    provider.rotate();
                    foreign.rotate();
                    rot += 1;
                    n_rot += 1;
                    if let Some(f) = verify(&provider, &issued, rot, &mut labels) {
                        return f;
                    }
                }
                Op::Issue { alg256, seed } => {
                    let session = Session::from_seed(*alg256, *seed);
                    let ks = provider.get();
                    let bytes = cookies::encode(&ks, &session.cookie());
                    let klen = if *alg256 { 32 } else { 64 };
                    // layout: id(4) len(2) nonce(16) ciphertext(len) with len = 16 + 2 + 2*klen, nothing after it
                    ensure!(bytes.len() == 22 + 18 + 2 * klen
                        && u16::from_be_bytes([bytes[4], bytes[5]]) as usize == bytes.len() - 22,
                        "cookie-declared-length-wrong", "cookie of {} bytes for key width {klen}", bytes.len());
                    // confidentiality (weak form): the session keys do not appear in the cookie
                    ensure!(!bytes.windows(16).any(|w| session.s2c.windows(16).any(|k| k == w) || session.c2s.windows(16).any(|k| k == w)),
                        "cookie-contains-key-material", "a 16-byte run of a session key appears in the cookie");
                    issued.push(Issued { bytes, session, at: rot });
                    n_issue += 1;
                    labels.add(if *alg256 { "alg-256" } else { "alg-512" });
                    if let Some(f) = verify(&provider, &issued[issued.len() - 1..], rot, &mut labels) {
                        return f;
                    }
                }
                Op::Tamper { cookie, pos, xor } => {
                    if issued.is_empty() {
                        continue;
                    }
                    let c = &issued[idx(*cookie, issued.len())];
                    let mut b = c.bytes.clone();
                    let p = idx(*pos, b.len());
                    b[p] ^= (*xor).max(1);
                    labels.add("tamper");
                    let region = match p { 0..=3 => "id", 4..=5 => "length", 6..=21 => "nonce", _ => "ciphertext" };
                    labels.add(match p { 0..=3 => "tamper-id", 4..=5 => "tamper-length", 6..=21 => "tamper-nonce", _ => "tamper-ciphertext" });
                    ensure!(cookies::decode(&provider.get(), &b).is_none(),
                        format!("modified-cookie-accepted/{region}"), "cookie with byte {p} ({region}) xor {xor:#x} decodes");
                }
                Op::Truncate { cookie, len } => {
                    if issued.is_empty() {
                        continue;
                    }
                    let c = &issued[idx(*cookie, issued.len())];
                    let n = idx(*len, c.bytes.len());
                    labels.add("truncate");
                    ensure!(cookies::decode(&provider.get(), &c.bytes[..n]).is_none(),
                        "truncated-cookie-accepted", "cookie cut from {} to {n} bytes decodes", c.bytes.len());
                }
                Op::Sweep { cookie, xor } => {
                    if issued.is_empty() {
                        continue;
                    }
                    let c = &issued[idx(*cookie, issued.len())];
                    let ks = provider.get();
                    labels.add("sweep");
                    for p in 0..c.bytes.len() {
                        let region = match p { 0..=3 => "id", 4..=5 => "length", 6..=21 => "nonce", _ => "ciphertext" };
                        for m in (0..8).map(|b| 1u8 << b).chain(std::iter::once((*xor).max(1))) {
                            let mut b = c.bytes.clone();
                            b[p] ^= m;
                            ensure!(cookies::decode(&ks, &b).is_none(),
                                format!("modified-cookie-accepted/{region}"), "cookie with byte {p} ({region}) xor {m:#x} decodes");
                        }
                    }
                }
                Op::Foreign { alg256, seed } => {
                    let session = Session::from_seed(*alg256, *seed);
                    let theirs = cookies::encode(&foreign.get(), &session.cookie());
                    labels.add("foreign");
                    // sanity: it is a valid cookie for the other key set
                    ensure!(cookies::decode(&foreign.get(), &theirs).is_some(), "fresh-cookie-rejected", "foreign key set rejects its own cookie");
                    ensure!(cookies::decode(&provider.get(), &theirs).is_none(),
                        "foreign-cookie-accepted", "a cookie issued by an independent key set (same key id) decodes");
                }
            }
        }
        // follow every cookie to expiry
        for _ in 0..=h {
            provider.rotate();
            rot += 1;
            if let Some(f) = verify(&provider, &issued, rot, &mut labels) {
                return f;
            }
        }
        let mut out = Outcome::pass(n_issue >= 1 && n_rot >= 1);
        out.labels = labels.0;
        out
    }
}
