//! C45 — CSPTP servers answer only requests, with correct echoes.
//!
//! `statime_csptp::serve` is run over a scripted mock `ServerSocket` (no network). Each scripted
//! datagram is classified by an independent decoder (`w_ptp::raw_decode` + `csptp_kind`); the
//! datagrams handed to `send_event` / `send_general` are decoded with the same independent decoder
//! and compared with the request they answer.
use crate::engine::*;
use crate::w_ptp::*;
use proptest::prelude::*;
use serde::{Deserialize, Serialize};
use statime_csptp::{CsptpConfig, CsptpManager, InternalState, ServerRecvResult, ServerSocket, serve};
use statime_wire as sw;
use std::cell::RefCell;
use std::rc::Rc;

pub struct C45;

#[derive(Debug, Clone, Serialize, Deserialize)]
pub enum Dgram {
    Msg(MsgSpec),
    /// reference encoding of `msg` with byte overwrites, `cut` bytes removed from the end, `pad` bytes appended
    Mutated { msg: MsgSpec, writes: Vec<(u16, u8)>, cut: u8, pad: u8 },
    /// reference encoding of `msg` with the nanoseconds field of the body timestamp overwritten
    BodyNanos { msg: MsgSpec, nanos: u32 },
    Raw(Vec<u8>),
    /// the socket reports a receive error
    RecvError,
}

#[derive(Debug, Clone, Serialize, Deserialize)]
pub struct Item {
    pub dgram: Dgram,
    /// reception timestamp reported by the socket
    pub rx: TsSpec,
    pub remote: u8,
    pub local: u8,
    /// whether send_event succeeds, and the transmit timestamp it reports
    pub event_ok: bool,
    pub tx: TsSpec,
    pub general_ok: bool,
}

#[derive(Debug, Clone, Serialize, Deserialize)]
pub struct ConfigSpec {
    pub identity: [u8; 8],
    pub prio1: u8,
    pub prio2: u8,
    pub class: u8,
    pub accuracy: u8,
    pub variance: u16,
    pub ptp_timescale: bool,
    pub time_traceable: bool,
    pub frequency_traceable: bool,
}

#[derive(Debug, Clone, Serialize, Deserialize)]
pub struct Case {
    pub config: ConfigSpec,
    pub items: Vec<Item>,
}

fn dgram_bytes(d: &Dgram) -> Option<Vec<u8>> {
    match d {
        Dgram::Msg(m) => ref_encode(m),
        Dgram::Mutated { msg, writes, cut, pad } => {
            let mut b = ref_encode(msg)?;
            for (p, v) in writes {
                let i = idx(*p, b.len());
                b[i] = *v;
            }
            let keep = b.len().saturating_sub(*cut as usize);
            b.truncate(keep);
            for i in 0..*pad {
                b.push(0x3c ^ i);
            }
            Some(b)
        }
        Dgram::BodyNanos { msg, nanos } => {
            let mut b = ref_encode(msg)?;
            b[40..44].copy_from_slice(&nanos.to_be_bytes());
            Some(b)
        }
        Dgram::Raw(b) => Some(b.clone()),
        Dgram::RecvError => None,
    }
}

#[derive(Debug, Clone)]
enum Sent {
    Event { item: usize, bytes: Vec<u8>, from: u8, to: u8 },
    General { item: usize, bytes: Vec<u8>, from: u8, to: u8 },
}

struct Shared {
    /// (bytes or None for an error, rx, remote, local, event result, general ok)
    script: Vec<(Option<Vec<u8>>, sw::Timestamp, u8, u8, Option<sw::Timestamp>, bool)>,
    next: usize,
    exhausted: bool,
    sent: Vec<Sent>,
}

struct MockServerSocket(Rc<RefCell<Shared>>);

impl ServerSocket for MockServerSocket {
    type Addr = u8;
    type Error = &'static str;

    fn recv(&mut self, buf: &mut [u8]) -> impl Future<Output = Result<ServerRecvResult<u8>, &'static str>> {
        let shared = self.0.clone();
        std::future::poll_fn(move |cx| {
            let mut s = shared.borrow_mut();
            if s.next >= s.script.len() {
                // nothing more to deliver: let the shutdown future fire
                s.exhausted = true;
                cx.waker().wake_by_ref();
                return std::task::Poll::Pending;
            }
            let i = s.next;
            s.next += 1;
            let (bytes, rx, remote, local, _, _) = s.script[i].clone();
            std::task::Poll::Ready(match bytes {
                None => Err("scripted receive error"),
                Some(b) => {
                    let n = b.len().min(buf.len());
                    buf[..n].copy_from_slice(&b[..n]);
                    Ok(ServerRecvResult { bytes_read: n, remote_addr: remote, local_addr: local, timestamp: rx })
                }
            })
        })
    }

    fn send_event(&mut self, buf: &[u8], from: u8, to: u8) -> impl Future<Output = Result<sw::Timestamp, &'static str>> {
        let mut s = self.0.borrow_mut();
        let item = s.next - 1;
        s.sent.push(Sent::Event { item, bytes: buf.to_vec(), from, to });
        let r = s.script[item].4.ok_or("scripted send_event error");
        std::future::ready(r)
    }

    fn send_general(&mut self, buf: &[u8], from: u8, to: u8) -> impl Future<Output = Result<(), &'static str>> {
        let mut s = self.0.borrow_mut();
        let item = s.next - 1;
        s.sent.push(Sent::General { item, bytes: buf.to_vec(), from, to });
        let ok = s.script[item].5;
        std::future::ready(if ok { Ok(()) } else { Err("scripted send_general error") })
    }
}

macro_rules! ensure {
    ($cond:expr, $sig:expr, $($fmt:tt)*) => {
        if !$cond {
            return Outcome::fail($sig, format!($($fmt)*));
        }
    };
}

fn lib_config(c: &ConfigSpec) -> CsptpConfig {
    CsptpConfig {
        identity: sw::ClockIdentity(c.identity),
        priority_1: c.prio1,
        priority_2: c.prio2,
        clock_quality: sw::ClockQuality {
            clock_class: c.class,
            clock_accuracy: sw::ClockAccuracy::from_primitive(c.accuracy),
            offset_scaled_log_variance: c.variance,
        },
        ptp_timescale: c.ptp_timescale,
        time_traceable: c.time_traceable,
        frequency_traceable: c.frequency_traceable,
    }
}

const RECV_BUF: usize = 512;

fn check_case(case: &Case) -> Outcome {
    let mut labels = Labels::default();
    let manager: CsptpManager<RefCell<InternalState>> = CsptpManager::new(lib_config(&case.config));
    let mut seen: Vec<Option<Vec<u8>>> = Vec::new();
    let mut script = Vec::new();
    for it in &case.items {
        let bytes = dgram_bytes(&it.dgram);
        // what the server can see (receive buffer of MAX_MESSAGE_SIZE = 512 bytes)
        seen.push(bytes.as_ref().map(|b| b[..b.len().min(RECV_BUF)].to_vec()));
        script.push((bytes, lib_ts(it.rx), it.remote, it.local, it.event_ok.then(|| lib_ts(it.tx)), it.general_ok));
    }
    let shared = Rc::new(RefCell::new(Shared { script, next: 0, exhausted: false, sent: Vec::new() }));
    let sh2 = shared.clone();
    let shutdown = std::future::poll_fn(move |_cx| if sh2.borrow().exhausted { std::task::Poll::Ready(()) } else { std::task::Poll::Pending });
    crate::rt::run_paused(serve(MockServerSocket(shared.clone()), shutdown, &manager));
    let shared = shared.borrow();
    ensure!(shared.next == case.items.len(), "server-stopped-early", "server consumed {} of {} datagrams", shared.next, case.items.len());

    let mut answered = 0usize;
    for (i, it) in case.items.iter().enumerate() {
        let sends: Vec<&Sent> = shared.sent.iter().filter(|s| matches!(s, Sent::Event { item, .. } | Sent::General { item, .. } if *item == i)).collect();
        let decoded = seen[i].as_ref().and_then(|b| raw_decode(b));
        let kind = decoded.as_ref().and_then(csptp_kind);
        labels.add(match (&seen[i], &decoded, kind) {
            (None, _, _) => "recv-error",
            (_, None, _) => "not-ptp",
            (_, Some(_), None) => "ptp-not-csptp",
            (_, _, Some(CsptpKind::Request { status: true })) => "request-with-status",
            (_, _, Some(CsptpKind::Request { status: false })) => "request-without-status",
            (_, _, Some(CsptpKind::Response)) => "csptp-response",
            (_, _, Some(CsptpKind::FollowUp)) => "csptp-follow-up",
        });
        let Some(CsptpKind::Request { status }) = kind else {
            if !sends.is_empty() {
                let why = match (&decoded, kind) {
                    (None, _) => "not-a-ptp-message",
                    (Some(_), None) => "not-csptp",
                    (_, Some(CsptpKind::Response)) => "csptp-response",
                    (_, Some(CsptpKind::FollowUp)) => "csptp-follow-up",
                    _ => "other",
                };
                return Outcome::fail(format!("answered-non-request/{why}"), format!("datagram {i} ({} bytes) is not a well-formed CSPTP request but {} datagram(s) were sent", seen[i].as_ref().map_or(0, |b| b.len()), sends.len()));
            }
            continue;
        };
        let req = decoded.unwrap();
        labels.add_if(req.tlvs.len() > 1, "request-with-extra-tlvs");
        labels.add_if(seen[i].as_ref().unwrap().len() > u16::from_be_bytes([seen[i].as_ref().unwrap()[2], seen[i].as_ref().unwrap()[3]]) as usize, "request-with-padding");
        ensure!(!sends.is_empty(), "well-formed-request-not-answered", "datagram {i}: domain {} seq {} was ignored", req.domain, req.seq);
        answered += 1;
        // first send: the response on the event socket
        let Sent::Event { bytes, from, to, .. } = sends[0] else {
            return Outcome::fail("answer-starts-with-general-message", format!("datagram {i}"));
        };
        ensure!(*to == it.remote && *from == it.local, "answer-to-wrong-address", "request {}->{}: answer {from}->{to}", it.remote, it.local);
        let Some(resp) = raw_decode(bytes) else {
            return Outcome::fail("response-not-decodable", format!("datagram {i}: {} response bytes do not form a PTP message", bytes.len()));
        };
        ensure!(bytes.len() == u16::from_be_bytes([bytes[2], bytes[3]]) as usize, "response-length-field", "sent {} bytes, messageLength {}", bytes.len(), u16::from_be_bytes([bytes[2], bytes[3]]));
        ensure!(csptp_kind(&resp) == Some(CsptpKind::Response), "response-not-a-csptp-response", "datagram {i}: answer is {:?}", csptp_kind(&resp));
        ensure!(resp.domain == req.domain, "response-domain", "request domain {} answer {}", req.domain, resp.domain);
        ensure!(resp.seq == req.seq, "response-sequence-id", "request seq {} answer {}", req.seq, resp.seq);
        let tlv = &resp.tlvs.iter().find(|t| t.0 == TLV_CSPTP_RESPONSE).unwrap().1;
        ensure!(tlv[0..10] == ts_bytes(it.rx), "response-ingress-timestamp", "reception time {:?}, TLV carries {:?}", it.rx, &tlv[0..10]);
        ensure!(tlv[10..18] == req.correction.to_be_bytes(), "response-request-correction", "request correction {:#x}, TLV carries {:?}", req.correction, &tlv[10..18]);
        // status TLV on demand, describing the configured (local) clock
        let st = resp.tlvs.iter().find(|t| t.0 == TLV_CSPTP_STATUS);
        ensure!(st.is_some() == status, "response-status-tlv-presence", "status requested: {status}, status TLV present: {}", st.is_some());
        if let Some((_, v)) = st {
            let c = &case.config;
            let mut want = vec![c.prio1, c.class, c.accuracy];
            want.extend_from_slice(&c.variance.to_be_bytes());
            want.push(c.prio2);
            want.extend_from_slice(&0u16.to_be_bytes());
            ensure!(v.len() >= 18 && v[0..8] == want[..] && v[10..18] == c.identity, "response-status-content", "status TLV {v:?}, config {c:?}");
        }
        // this server cannot know the transmit time in advance: two-step, origin timestamp unset
        ensure!(resp.two_step(), "response-not-two-step", "server answered one-step without knowing the send time");
        match (it.event_ok, sends.len()) {
            (false, 1) => labels.add("event-send-failed"),
            (false, n) => return Outcome::fail("follow-up-without-send-timestamp", format!("send_event failed but {n} datagrams were sent")),
            (true, 2) => {}
            (true, n) => return Outcome::fail("two-step-answer-follow-up-count", format!("two-step answer produced {n} datagrams (expected response + follow-up)")),
        }
        if it.event_ok {
            let Sent::General { bytes, from, to, .. } = sends[1] else {
                return Outcome::fail("follow-up-on-event-socket", format!("datagram {i}"));
            };
            ensure!(*to == it.remote && *from == it.local, "answer-to-wrong-address", "request {}->{}: follow-up {from}->{to}", it.remote, it.local);
            let Some(fu) = raw_decode(bytes) else {
                return Outcome::fail("follow-up-not-decodable", format!("datagram {i}"));
            };
            ensure!(csptp_kind(&fu) == Some(CsptpKind::FollowUp), "follow-up-kind", "second datagram is {:?} (type {:#x})", csptp_kind(&fu), fu.type_nibble);
            ensure!(fu.domain == req.domain && fu.seq == req.seq, "follow-up-domain-or-sequence-id", "request ({}, {}), follow-up ({}, {})", req.domain, req.seq, fu.domain, fu.seq);
            ensure!(fu.body[0..10] == ts_bytes(it.tx), "follow-up-send-timestamp", "send_event reported {:?}, follow-up carries {:?}", it.tx, fu.body_ts());
            labels.add("two-step-complete");
            labels.add_if(!it.general_ok, "general-send-failed");
        }
    }
    Outcome::pass(answered > 0).labels(labels.0)
}

// ---------------------------------------------------------------------------
// strategies

fn other_tlv() -> BoxedStrategy<TlvSpec> {
    tlv_strategy()
        .prop_map(|mut t| {
            if t.ty == TLV_CSPTP_REQUEST || t.ty == TLV_CSPTP_RESPONSE {
                t.ty = 0x8008; // PAD
            }
            t.value.truncate(40);
            t
        })
        .boxed()
}

fn csptp_header() -> BoxedStrategy<HeaderSpec> {
    header_strategy()
        .prop_map(|mut h| {
            h.sdo = 0x300;
            h.major = 2;
            h
        })
        .boxed()
}

/// a well-formed request: Sync, sdoId 0x300, v2.x, one request TLV (+ unrelated TLVs around it)
fn request_msg() -> BoxedStrategy<MsgSpec> {
    (
        csptp_header(),
        ts_strategy(),
        prop_oneof![3 => Just(4usize), 1 => Just(2usize), 1 => Just(8usize)],
        any::<u8>(),
        prop::collection::vec(other_tlv(), 0..3),
        prop::collection::vec(other_tlv(), 0..3),
    )
        .prop_map(|(header, ts, n, flags, before, after)| {
            let mut value = vec![0u8; n];
            value[0] = flags;
            let mut tlvs = before;
            tlvs.push(TlvSpec { ty: TLV_CSPTP_REQUEST, value });
            tlvs.extend(after);
            MsgSpec { header, body: BodySpec::Sync(ts), tlvs }
        })
        .boxed()
}

fn response_tlv_value() -> BoxedStrategy<Vec<u8>> {
    (ts_strategy(), any::<i64>(), prop_oneof![4 => Just(18usize), 1 => Just(16usize), 1 => Just(20usize)])
        .prop_map(|(t, c, n)| {
            let mut v = ts_bytes(t).to_vec();
            v.extend_from_slice(&c.to_be_bytes());
            v.resize(n, 0);
            v
        })
        .boxed()
}

/// near misses of a request
fn near_request() -> BoxedStrategy<MsgSpec> {
    (request_msg(), 0u8..9, response_tlv_value(), ts_strategy(), 0u16..0x1000, 0u8..16).prop_map(|(mut m, k, rv, ts, sdo, major)| {
        match k {
            0 => m.header.sdo = sdo,                                                 // (mostly) wrong sdoId
            1 => m.header.major = major,                                             // (mostly) wrong major version
            2 => m.body = BodySpec::FollowUp(ts),                                    // follow-up carrying a request TLV
            3 => m.body = BodySpec::DelayReq(ts),                                    // wrong message type
            4 => m.tlvs.push(TlvSpec { ty: TLV_CSPTP_REQUEST, value: vec![1, 0] }),  // two request TLVs
            5 => m.tlvs.push(TlvSpec { ty: TLV_CSPTP_RESPONSE, value: rv }),         // request + response TLV
            6 => {
                for t in m.tlvs.iter_mut().filter(|t| t.ty == TLV_CSPTP_REQUEST) {
                    t.value.clear(); // request TLV without its flags octet
                }
            }
            7 => {
                for t in m.tlvs.iter_mut().filter(|t| t.ty == TLV_CSPTP_REQUEST) {
                    t.ty = TLV_CSPTP_RESPONSE; // a response instead
                    t.value = rv.clone();
                }
            }
            _ => m.tlvs.retain(|t| t.ty != TLV_CSPTP_REQUEST), // plain sync
        }
        m
    })
    .boxed()
}

fn dgram_strategy() -> BoxedStrategy<Dgram> {
    prop_oneof![
        10 => request_msg().prop_map(Dgram::Msg),
        5 => near_request().prop_map(Dgram::Msg),
        2 => msg_strategy(3).prop_map(Dgram::Msg),
        // nanoseconds field at and around its bound
        2 => (request_msg(), prop::sample::select(vec![999_999_999u32, 1_000_000_000, 1_000_000_001, u32::MAX])).prop_map(|(msg, nanos)| Dgram::BodyNanos { msg, nanos }),
        5 => (request_msg(), prop::collection::vec((any::<u16>(), any::<u8>()), 0..3), prop_oneof![3 => Just(0u8), 1 => 1u8..60], prop_oneof![3 => Just(0u8), 1 => 1u8..20])
            .prop_map(|(msg, writes, cut, pad)| Dgram::Mutated { msg, writes, cut, pad }),
        1 => prop::collection::vec(any::<u8>(), 0..100).prop_map(Dgram::Raw),
        1 => Just(Dgram::RecvError),
    ]
    .boxed()
}

impl Property for C45 {
    type Case = Case;
    const ID: &'static str = "C45";
    const RULE: &'static str = "server state = CsptpManager::new(config) with random identity/priorities/clock quality/traceability flags; script of 1..8 datagrams through a mock ServerSocket: well-formed requests (any domain, sequence id, correction, header flags, minor version, origin timestamp, request TLV of 2/4/8 octets with any flags, unrelated TLVs before/after incl. empty ones), near misses (wrong sdoId/major version/message type, two request TLVs, request+response TLV, empty request TLV, responses, plain Sync), arbitrary PTP messages, mutated/truncated/padded requests (incl. nanoseconds at 10^9-1, 10^9, 10^9+1), garbage, receive errors; reception/transmit timestamps over the whole 48-bit range; send_event / send_general may fail. Oracles (independent decoder): datagrams are sent only for well-formed requests and every well-formed request is answered; the event message goes back to the requester, is a CSPTP response with the request's domain and sequence id, two-step flag set, response TLV = reception timestamp + request correctionField, status TLV iff requested (local clock data); exactly one Follow_Up on the general socket carrying domain, sequence id and the timestamp send_event returned; no follow-up when send_event failed. Non-trivial: at least one request was answered.";
    const ASSUMPTIONS: &'static [&'static str] = &[
        "well-formed CSPTP request = decodable PTP message (messageLength within the datagram, known type, nanoseconds < 10^9, even complete TLVs), sdoId 0x300, versionPTP 2, Sync, exactly one CSPTP request/response TLV which is a request TLV with at least its flags octet",
        "the server sees at most 512 bytes of a datagram (its receive buffer)",
        "server state is the one CsptpManager::new establishes (no upstream CSPTP source)",
    ];
    const QUICK_CASES: u32 = 1_000_000;
    const THOROUGH_CASES: u32 = 39_000_000;

    fn strategy(_tier: Tier) -> BoxedStrategy<Case> {
        let config = (any::<[u8; 8]>(), any::<u8>(), any::<u8>(), any::<u8>(), canonical_accuracy(), any::<u16>(), any::<bool>(), any::<bool>(), any::<bool>()).prop_map(
            |(identity, prio1, prio2, class, accuracy, variance, ptp_timescale, time_traceable, frequency_traceable)| ConfigSpec {
                identity,
                prio1,
                prio2,
                class,
                accuracy,
                variance,
                ptp_timescale,
                time_traceable,
                frequency_traceable,
            },
        );
        let item = (dgram_strategy(), ts_strategy(), any::<u8>(), any::<u8>(), prop::bool::weighted(0.85), ts_strategy(), prop::bool::weighted(0.9))
            .prop_map(|(dgram, rx, remote, local, event_ok, tx, general_ok)| Item { dgram, rx, remote, local, event_ok, tx, general_ok });
        (config, prop::collection::vec(item, 1..8)).prop_map(|(config, items)| Case { config, items }).boxed()
    }

    fn check(case: &Case) -> Outcome {
        check_case(case)
    }

    /// fuzzer input: 16 configuration/selector bytes, then either a raw datagram or (pos, value) overwrites of a
    /// well-formed request
    fn from_bytes(data: &[u8]) -> Option<Case> {
        if data.len() < 16 {
            return None;
        }
        let (sel, rest) = data.split_at(16);
        let config = ConfigSpec {
            identity: sel[0..8].try_into().unwrap(),
            prio1: sel[8],
            prio2: sel[9],
            class: sel[10],
            accuracy: 0x21,
            variance: u16::from_be_bytes([sel[11], sel[12]]),
            ptp_timescale: sel[13] & 1 != 0,
            time_traceable: sel[13] & 2 != 0,
            frequency_traceable: sel[13] & 4 != 0,
        };
        let template = MsgSpec {
            header: HeaderSpec { sdo: 0x300, major: 2, minor: 1, domain: sel[14], flags: 0, correction: 0, clock_id: [7; 8], port: 1, seq: u16::from_be_bytes([sel[14], sel[15]]), log_interval: 0 },
            body: BodySpec::Sync(TsSpec { secs: 0, nanos: 0 }),
            tlvs: vec![TlvSpec { ty: TLV_CSPTP_REQUEST, value: vec![sel[15] & 3, 0, 0, 0] }],
        };
        let dgram = if sel[13] & 8 != 0 {
            Dgram::Raw(rest[..rest.len().min(600)].to_vec())
        } else {
            Dgram::Mutated { msg: template, writes: rest.chunks_exact(3).take(16).map(|c| (u16::from_be_bytes([c[0], c[1]]), c[2])).collect(), cut: (sel[13] >> 4) & 7, pad: sel[13] >> 7 }
        };
        let ts = TsSpec { secs: u64::from_be_bytes([0, 0, sel[0], sel[1], sel[2], sel[3], sel[4], sel[5]]), nanos: 999_999_999 };
        Some(Case { config, items: vec![Item { dgram, rx: ts, remote: 0, local: 0, event_ok: true, tx: ts, general_ok: true }] })
    }
}
