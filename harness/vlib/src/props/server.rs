//! C15, C16, C17, C18, C19, C21, C22 — oracles over the server world.
use crate::engine::*;
use crate::refwire::*;
use crate::w_server::*;
use ntp_proto::verif_hook as nh;
use ntp_proto::{NtpVersion, ServerReason, ServerResponse};
use proptest::prelude::*;

#[derive(Clone, Copy, PartialEq, Eq, Debug)]
pub enum Which {
    C15,
    C16,
    C17,
    C18,
    C19,
    C21,
    C22,
}

macro_rules! bail {
    ($sig:expr, $($fmt:tt)*) => {
        return Err(Failure { signature: $sig.to_string(), what: format!($($fmt)*) })
    };
}

struct Truth {
    parsed: Option<RefPacket>,
    has_auth_ef: bool,
    ref_authenticated: bool,
    version: u8,
    mode: u8,
}

fn truth(ex: &Exchange) -> Truth {
    let key = ex.built.keys.as_ref().map(|k| &k.c2s);
    let parsed = decode_packet(&ex.request, key);
    let version = ex.request.first().map(|b| (b >> 3) & 7).unwrap_or(0);
    let mode = ex.request.first().map(|b| b & 7).unwrap_or(0);
    let has_auth_ef = parsed.as_ref().is_some_and(|p| p.auth_offset.is_some());
    let ref_authenticated = parsed.as_ref().is_some_and(|p| p.authenticated);
    Truth { parsed, has_auth_ef, ref_authenticated, version, mode }
}

/// Structural causes for "the answer needs more room than the request" that are recorded as
/// known findings (see known_findings.json): the encoder enlarges fields the decoder accepted.
fn known_growth_cause(t: &Truth, answer_large: Option<&[u8]>) -> Option<&'static str> {
    let p = t.parsed.as_ref()?;
    let ans = decode_packet(answer_large?, None)?;
    let nts_answer = ans.auth_offset.is_some();
    // NTS answers always use a 16-byte nonce
    if nts_answer {
        if let Some(off) = p.auth_offset {
            let b = &[0u8; 0][..];
            let _ = b;
            let nonce_len = p_nonce_len(p, off);
            if nonce_len.is_some_and(|n| n.div_ceil(4) * 4 < 16) {
                return Some("nts-request-nonce-shorter-than-16-bytes");
            }
        }
    }
    let uids: Vec<usize> = if nts_answer {
        p.plain.iter().filter(|e| e.ty == EF_UID).map(|e| e.wire_len()).collect()
    } else {
        p.plain.iter().chain(p.after.iter()).filter(|e| e.ty == EF_UID).map(|e| e.wire_len()).collect()
    };
    if uids.is_empty() {
        return None;
    }
    match (t.version, nts_answer) {
        (4, false) => {
            if uids.iter().any(|l| *l < 16) || *uids.last().unwrap() < 28 {
                return Some("v4-echoed-uid-ef-shorter-than-rfc7822-minimum");
            }
        }
        (4, true) => {
            if uids.iter().any(|l| *l < 16) {
                return Some("v4-echoed-uid-ef-shorter-than-rfc7822-minimum");
            }
        }
        (5, true) => {
            if uids.iter().any(|l| *l < 16) {
                return Some("v5-nts-echoed-uid-ef-shorter-than-16-bytes");
            }
        }
        _ => {}
    }
    None
}

fn p_nonce_len(p: &RefPacket, _off: usize) -> Option<usize> {
    p.auth_nonce_len
}

fn accepted(case: &ServerCase, v: u8) -> bool {
    match v {
        3 => case.cfg.accepted & 1 != 0,
        4 => case.cfg.accepted & 2 != 0,
        5 => case.cfg.accepted & 4 != 0,
        _ => false,
    }
}

/// RFC-conformant request for which the positive clause of C15 is asserted
fn conformant(case: &ServerCase, idx: usize) -> Option<bool /* nts */> {
    let ReqSpec::Built(p) = &case.reqs[idx].req else { return None };
    if p.mode != 3 || !(3..=5).contains(&p.vn) || p.mac.is_some() {
        return None;
    }
    let simple = |e: &EfSpec| match e {
        EfSpec::Uid(v) => (1..=64).contains(&v.len()),
        EfSpec::Unknown { .. } => true,
        EfSpec::Placeholder { .. } => true,
        _ => false,
    };
    if p.vn == 5 {
        if !p.draft_ok || p.flags & !7 != 0 || p.timescale > 3 {
            return None;
        }
    } else if !p.conformant_sizes {
        return None;
    }
    match &p.nts {
        None => {
            if p.vn == 3 {
                return Some(false);
            }
            if !p.post.is_empty() || !p.pre.iter().all(|e| simple(e) && !matches!(e, EfSpec::Placeholder { .. })) {
                return None;
            }
            Some(false)
        }
        Some(n) => {
            if p.vn == 3 {
                return None;
            }
            // rotations that happened up to and including this request
            let rotations = case.initial_rotations as usize
                + case.reqs[..=idx].iter().filter(|r| r.rotate_before).count();
            let ok_pre = p.pre.len() >= 2
                && matches!(&p.pre[0], EfSpec::Uid(v) if v.len() == 32)
                && matches!(&p.pre[1], EfSpec::Cookie(CookieSpec::Issued { age }) if (*age as usize) <= (case.history as usize).min(rotations))
                && p.pre[2..].iter().all(|e| matches!(e, EfSpec::Placeholder { .. }));
            if !ok_pre || n.key != KeySel::C2S || n.nonce.len() != 16 || n.corrupt.is_some() || !p.post.is_empty() {
                return None;
            }
            if !n.inner.iter().all(simple) {
                return None;
            }
            Some(true)
        }
    }
}

fn uid_values(efs: &[RawEf]) -> Vec<Vec<u8>> {
    // the declared value (in NTPv5 the pad-to-4 bytes are not part of the field's value)
    efs.iter().filter(|e| e.ty == EF_UID).map(|e| e.value().to_vec()).collect()
}

/// Evaluate the oracles selected by `which` on one executed world.
fn judge(case: &ServerCase, w: &World, which: Which, labels: &mut Labels, nontrivial: &mut bool) -> Result<(), Failure> {
    use Which::*;
    let mut model_counts = [0u64; 6]; // received, time, deny, nak, none, nts_time
    for (i, ex) in w.exchanges.iter().enumerate() {
        let t = truth(ex);
        let ans = ex.answer_small.as_deref();
        let kind = ans.map(answer_kind);
        let listed_out = ex.deny_member || !ex.allow_member;
        labels.add(match kind {
            None => "no-answer",
            Some(AnswerKind::Time) => "time",
            Some(AnswerKind::Deny) => "deny",
            Some(AnswerKind::Nak) => "nak",
            Some(_) => "other-answer",
        });
        labels.add_if(t.has_auth_ef, "req-has-authenticator");
        labels.add_if(t.ref_authenticated, "req-authenticates");
        labels.add_if(t.parsed.is_none(), "req-unparseable");
        labels.add_if(listed_out, "listed-out");

        // ------------------------------------------------------------ C16
        if which == C16 {
            if let Some(a) = ans {
                if a.len() > ex.request.len() {
                    bail!("answer-longer-than-request", "req {} bytes, answer {} bytes (request #{i})", ex.request.len(), a.len());
                }
                if ex.request.len() > 48 {
                    *nontrivial = true;
                }
            }
        }
        // ------------------------------------------------------------ C17
        if which == C17 {
            let cause = known_growth_cause(&t, ex.answer_large.as_deref());
            match (&ex.answer_large, ans) {
                (Some(l), None) => {
                    let sig = cause.unwrap_or("accepted-request-dropped-with-request-sized-buffer");
                    bail!(sig, "large buffer answered {:?} ({} bytes) but the request-sized buffer ({} bytes) gave no answer; stats {:?}", answer_kind(l), l.len(), ex.request.len(), ex.stats_small);
                }
                (Some(l), Some(s)) => {
                    if answer_kind(l) != answer_kind(s) {
                        bail!("answer-kind-depends-on-buffer", "large {:?} vs small {:?}", answer_kind(l), answer_kind(s));
                    }
                    if l.len() > ex.request.len() {
                        bail!("unconstrained-answer-longer-than-request", "{} > {}", l.len(), ex.request.len());
                    }
                }
                (None, Some(_)) => bail!("answer-only-with-small-buffer", "request #{i}"),
                (None, None) => {}
            }
            if ex.stats_small.iter().any(|s| s.reason == ServerReason::InternalError) {
                bail!("internal-error-with-request-sized-buffer", "stats {:?}", ex.stats_small);
            }
            if let (Some(_), Some(p)) = (ans, &t.parsed) {
                if !p.plain.is_empty() || p.auth_offset.is_some() {
                    *nontrivial = true;
                    labels.add("answered-with-ef");
                }
            }
        }
        // ------------------------------------------------------------ C15
        if which == C15 {
            if ex.deny_member != ex.allow_member || !w.deny.is_empty() {
                *nontrivial = true;
            }
            if ex.deny_member {
                let deny_action = case.cfg.deny_is_deny;
                match kind {
                    None => {}
                    Some(AnswerKind::Deny) if deny_action => {}
                    k => bail!("denylisted-client-answered", "client {} on deny list (action deny={deny_action}) got {:?}", ex.addr, k),
                }
            } else if !ex.allow_member {
                let deny_action = case.cfg.allow_is_deny;
                match kind {
                    None => {}
                    Some(AnswerKind::Deny) if deny_action => {}
                    k => bail!("non-allowlisted-client-answered", "client {} not on allow list (action deny={deny_action}) got {:?}", ex.addr, k),
                }
            }
            if ex.request.len() < 48 || t.parsed.is_none() {
                if kind.is_some() {
                    bail!("malformed-datagram-answered", "request #{i} ({} bytes) got {:?}", ex.request.len(), kind);
                }
            }
            if t.mode != 3 && kind.is_some() {
                bail!("non-client-packet-answered", "mode {} got {:?}", t.mode, kind);
            }
            if !accepted(case, t.version) && kind.is_some() {
                bail!("non-accepted-version-answered", "version {} (accepted mask {}) got {:?}", t.version, case.cfg.accepted, kind);
            }
            if case.cfg.require_nts.is_some() && !t.has_auth_ef && kind == Some(AnswerKind::Time) {
                bail!("plain-request-got-time-although-nts-required", "request #{i}");
            }
            if let Some(nts) = conformant(case, i) {
                labels.add(if nts { "conformant-nts" } else { "conformant-plain" });
                let passes = !listed_out && accepted(case, t.version) && (case.cfg.require_nts.is_none() || nts);
                if passes && kind != Some(AnswerKind::Time) {
                    bail!("conformant-request-not-answered", "conformant {} v{} request from {} got {:?}; stats {:?}", if nts { "NTS" } else { "plain" }, t.version, ex.addr, kind, ex.stats_small);
                }
                labels.add_if(passes, "conformant-served");
            }
        }
        // ------------------------------------------------------------ C18
        if which == C18 {
            if let Some(a) = ans {
                let s2c = ex.built.keys.as_ref().map(|k| &k.s2c);
                let Some(rp) = decode_packet(a, s2c) else {
                    bail!("answer-undecodable", "answer of {} bytes does not decode", a.len());
                };
                let Some(qp) = &t.parsed else { bail!("answered-unparseable-request", "request #{i}") };
                if rp.hdr.mode() != 4 {
                    bail!("answer-not-server-mode", "mode {}", rp.hdr.mode());
                }
                if rp.hdr.version() != t.version {
                    bail!("answer-version-differs", "request v{} answer v{}", t.version, rp.hdr.version());
                }
                let want_echo = match qp.hdr { Hdr::V34(h) => h.tx, Hdr::V5(h) => h.client_cookie };
                if rp.hdr.echo() != want_echo {
                    bail!("answer-does-not-echo-request-identifier", "want {want_echo:#x} got {:#x}", rp.hdr.echo());
                }
                let k = kind.unwrap();
                if k == AnswerKind::Time {
                    if rp.hdr.poll() != qp.hdr.poll() {
                        bail!("time-answer-poll-not-echoed", "want {} got {}", qp.hdr.poll(), rp.hdr.poll());
                    }
                    if rp.hdr.rx() != ex.recv_ts {
                        bail!("time-answer-receive-timestamp", "want {:#x} got {:#x}", ex.recv_ts, rp.hdr.rx());
                    }
                    if rp.hdr.tx() != ex.now_ts {
                        bail!("time-answer-transmit-timestamp", "want {:#x} got {:#x}", ex.now_ts, rp.hdr.tx());
                    }
                    if rp.hdr.stratum() != case.state.stratum {
                        bail!("time-answer-stratum", "want {} got {}", case.state.stratum, rp.hdr.stratum());
                    }
                    let want_li = match case.state.leap % 5 { 0 => 0, 1 => 1, 2 => 2, _ => 3 };
                    match rp.hdr {
                        Hdr::V34(h) => {
                            if h.li != want_li {
                                bail!("time-answer-leap", "want {want_li} got {}", h.li);
                            }
                            if h.refid != case.state.refid {
                                bail!("time-answer-reference-id", "want {:#x} got {:#x}", case.state.refid, h.refid);
                            }
                            let want_rd = ((case.state.root_delay.max(0) >> 16).min(0xFFFF_FFFF)) as u32;
                            if h.root_delay != want_rd {
                                bail!("time-answer-root-delay", "want {want_rd:#x} got {:#x}", h.root_delay);
                            }
                        }
                        Hdr::V5(h) => {
                            // NTPv5: the leap bits are meaningful only when the synchronized flag is set
                            let sync = h.flags & V5_FLAG_SYNC != 0;
                            if sync != (case.state.stratum < 16) {
                                bail!("time-answer-v5-synchronized-flag", "stratum {} flag {sync}", case.state.stratum);
                            }
                            if sync && h.li != want_li {
                                bail!("time-answer-leap", "want {want_li} got {}", h.li);
                            }
                            let want_rd = ((case.state.root_delay.max(0) >> 4).min(0xFFFF_FFFF)) as u32;
                            if h.root_delay != want_rd {
                                bail!("time-answer-root-delay", "want {want_rd:#x} got {:#x}", h.root_delay);
                            }
                        }
                    }
                } else {
                    if rp.hdr.stratum() != 0 || rp.hdr.rx() != 0 || rp.hdr.tx() != 0 {
                        bail!("kiss-answer-carries-time", "kind {k:?} stratum {} rx {:#x} tx {:#x}", rp.hdr.stratum(), rp.hdr.rx(), rp.hdr.tx());
                    }
                }
                // extension fields of the answer
                let visible_uids: Vec<Vec<u8>> = uid_values(&qp.plain).into_iter().chain(uid_values(&qp.after)).collect();
                let mut all_resp: Vec<&RawEf> = rp.plain.iter().chain(rp.after.iter()).collect();
                if let Some(enc) = &rp.encrypted {
                    all_resp.extend(enc.iter());
                }
                let bloom = w.info.ntp_snapshot.bloom_filter.as_bytes().to_vec();
                for ef in &all_resp {
                    match ef.ty {
                        EF_UID => {
                            // value must be a request uid (the v4 encoder may add zero padding)
                            let v = ef.value();
                            let ok = visible_uids.iter().any(|u| {
                                v.len() >= u.len() && v[..u.len()] == u[..] && v[u.len()..].iter().all(|b| *b == 0)
                            });
                            if !ok {
                                bail!("answer-uid-not-from-request", "uid {:?}", ef.body);
                            }
                        }
                        EF_REFID_RESP => {
                            let v = ef.value();
                            let from_filter = bloom.windows(v.len().max(1)).any(|w| w == v) || v.is_empty();
                            if !from_filter || t.version != 5 {
                                bail!("answer-refid-response-not-filter-bytes", "{} bytes", v.len());
                            }
                        }
                        EF_DRAFT_ID | EF_PADDING if t.version == 5 => {}
                        EF_COOKIE if rp.encrypted.as_ref().is_some_and(|e| e.iter().any(|x| std::ptr::eq(x, *ef))) => {}
                        other => bail!("answer-carries-unexpected-field", "type {other:#06x} in a v{} answer", t.version),
                    }
                }
                // exact reference-id responses
                if t.version == 5 && k == AnswerKind::Time {
                    let reqs: Vec<&RawEf> = qp.plain.iter().chain(qp.after.iter()).filter(|e| e.ty == EF_REFID_REQ).collect();
                    let resps: Vec<&RawEf> = all_resp.iter().copied().filter(|e| e.ty == EF_REFID_RESP).collect();
                    if resps.len() > reqs.len() {
                        bail!("more-refid-responses-than-requests", "{} > {}", resps.len(), reqs.len());
                    }
                }
                // canaries
                let mut hay = a.to_vec();
                if let Some(enc) = &rp.encrypted {
                    hay.extend(encode_efs(enc));
                }
                for c in &ex.built.canaries {
                    // canaries that coincide with legitimately echoed data are skipped
                    let legit = visible_uids.iter().any(|u| contains_bytes(u, c))
                        || c[..] == want_echo.to_be_bytes()
                        || c[..] == ex.recv_ts.to_be_bytes()
                        || c[..] == ex.now_ts.to_be_bytes()
                        || contains_bytes(&bloom, c)
                        || c.iter().all(|b| *b == 0);
                    if !legit && contains_bytes(&hay, c) {
                        bail!("request-content-reflected", "canary {:02x?} from a non-echoable request field appears in the answer", c);
                    }
                }
                if !ex.built.canaries.is_empty() {
                    *nontrivial = true;
                }
            }
        }
        // ------------------------------------------------------------ C19
        if which == C19 {
            if t.has_auth_ef && !t.ref_authenticated && kind == Some(AnswerKind::Time) {
                bail!("unauthenticated-nts-request-got-time", "request #{i}: authenticator present but it does not verify under the session key");
            }
            if t.has_auth_ef && t.ref_authenticated && kind == Some(AnswerKind::Time) {
                let keys = ex.built.keys.as_ref().unwrap();
                let a = ans.unwrap();
                let Some(rp) = decode_packet(a, Some(&keys.s2c)) else { bail!("answer-undecodable", "NTS answer") };
                if !rp.authenticated {
                    bail!("nts-time-answer-not-authenticated", "answer does not verify under the cookie's s2c key");
                }
                let qp = t.parsed.as_ref().unwrap();
                let req_slots: Vec<usize> = qp
                    .plain
                    .iter()
                    .chain(qp.encrypted.iter().flatten())
                    .filter(|e| e.ty == EF_COOKIE || e.ty == EF_PLACEHOLDER)
                    .map(|e| e.body.len())
                    .collect();
                let fresh: Vec<&RawEf> = rp.encrypted.iter().flatten().filter(|e| e.ty == EF_COOKIE).collect();
                // cookies outside the encrypted part would be readable by anyone
                if rp.plain.iter().chain(rp.after.iter()).any(|e| e.ty == EF_COOKIE) {
                    bail!("fresh-cookie-outside-encrypted-part", "answer carries a cookie in the clear");
                }
                if fresh.len() > req_slots.len() || fresh.len() > 8 {
                    bail!("too-many-fresh-cookies", "{} fresh cookies for {} cookie/placeholder fields", fresh.len(), req_slots.len());
                }
                let current = &w.keysets[ex.keyset_idx];
                for (j, f) in fresh.iter().enumerate() {
                    // the j-th largest request slot must hold it
                    let mut slots = req_slots.clone();
                    slots.sort_unstable_by(|a, b| b.cmp(a));
                    let v = f.value();
                    if slots.get(j).is_none_or(|s| v.len() > *s) {
                        bail!("fresh-cookie-larger-than-replaced-field", "cookie {} bytes, slots {:?}", v.len(), slots);
                    }
                    match current.decode_cookie_pub(v) {
                        Ok(dc) => {
                            let (alg, s2c, c2s) = nh::cookie_parts(&dc);
                            let want_alg = if keys.c2s.is512() { 17 } else { 15 };
                            if alg != want_alg || s2c != keys.s2c.0 || c2s != keys.c2s.0 {
                                bail!("fresh-cookie-decodes-to-other-keys", "algorithm {alg} (want {want_alg})");
                            }
                        }
                        Err(_) => bail!("fresh-cookie-does-not-decode-under-current-keys", "cookie {} bytes", v.len()),
                    }
                }
                labels.add_if(!fresh.is_empty(), "fresh-cookies");
                labels.add_if(fresh.len() >= 2, "several-fresh-cookies");
                if req_slots.len() >= 2 {
                    *nontrivial = true;
                }
            }
            if t.has_auth_ef {
                labels.add(if t.ref_authenticated { "auth-ok" } else { "auth-bad" });
            }
        }
        // ------------------------------------------------------------ C21
        if which == C21 {
            *nontrivial = true;
            if ex.stats_small.len() != 1 {
                bail!("statistics-entry-count", "{} entries for one datagram: {:?}", ex.stats_small.len(), ex.stats_small);
            }
            let e = ex.stats_small[0];
            let want = match kind {
                None => ServerResponse::Ignore,
                Some(AnswerKind::Time) => ServerResponse::ProvideTime,
                Some(AnswerKind::Deny) => ServerResponse::Deny,
                Some(AnswerKind::Nak) => ServerResponse::NTSNak,
                Some(k) => bail!("unexpected-answer-kind", "{k:?}"),
            };
            if e.response != want {
                bail!("statistics-kind-mismatch", "did {:?} recorded {:?}", want, e.response);
            }
            if t.parsed.is_some() && !t.has_auth_ef && e.nts {
                bail!("nts-flag-set-for-plain-request", "entry {e:?}");
            }
            if t.has_auth_ef && matches!(kind, Some(AnswerKind::Time) | Some(AnswerKind::Nak)) && !e.nts {
                bail!("nts-flag-missing-for-answered-nts-request", "entry {e:?} kind {kind:?}");
            }
            if t.has_auth_ef && t.ref_authenticated && kind == Some(AnswerKind::Deny) && !e.nts
                && conformant(case, i) == Some(true)
            {
                bail!("nts-flag-missing-for-answered-nts-request", "entry {e:?} kind {kind:?} (authenticated, denied by policy)");
            }
            model_counts[0] += 1;
            match kind {
                Some(AnswerKind::Time) => {
                    model_counts[1] += 1;
                    if t.has_auth_ef {
                        model_counts[5] += 1;
                    }
                }
                Some(AnswerKind::Deny) => model_counts[2] += 1,
                Some(AnswerKind::Nak) => model_counts[3] += 1,
                _ => model_counts[4] += 1,
            }
        }
        // ------------------------------------------------------------ C22
        if which == C22 {
            *nontrivial = true;
        }
    }
    if which == C21 {
        // the daemon's counters, fed with the recorded entries
        use ntp_proto::ServerStatHandler;
        let mut ds = ntpd::verif_hook::ServerStats::default();
        for ex in &w.exchanges {
            for e in &ex.stats_small {
                ds.register(e.version, e.nts, e.reason, e.response);
            }
        }
        let got = [
            ds.received_packets.get(),
            ds.accepted_packets.get(),
            ds.denied_packets.get(),
            ds.nts_nak_packets.get(),
            ds.ignored_packets.get() + ds.rate_limited_packets.get(),
            ds.nts_accepted_packets.get(),
        ];
        if got != model_counts {
            bail!("daemon-counters-disagree-with-actions", "counters [received,time,deny,nak,none,nts_time] = {got:?}, actions = {model_counts:?}");
        }
        if ds.nts_received_packets.get() > ds.received_packets.get()
            || ds.nts_accepted_packets.get() > ds.accepted_packets.get()
            || ds.nts_denied_packets.get() > ds.denied_packets.get()
        {
            bail!("daemon-nts-counters-exceed-totals", "{ds:?}");
        }
    }
    let _ = NtpVersion::V4;
    Ok(())
}

fn check_server(case: &ServerCase, which: Which) -> Outcome {
    if which == Which::C15 && case.key_seed % 64 == 1 {
        // the access policy end to end: loopback client (IPv4 or IPv6) against the daemon's server task
        return match udp_policy(case.key_seed / 64) {
            Err(f) => Outcome { failure: Some(f), labels: vec!["e2e-policy"], nontrivial: true },
            Ok(l) => Outcome::pass(l != "e2e-policy-unavailable").label("e2e-policy").label(l),
        };
    }
    if which == Which::C16 && case.key_seed % 8 == 0 {
        // (b) end to end through the daemon's server task over loopback UDP
        match udp_exchange(case) {
            Err(f) => return Outcome { failure: Some(f), labels: vec!["e2e-udp"], nontrivial: true },
            Ok((sent, answered, variants)) => {
                let mut o = check_server_lib(case, which);
                o = o.label(if sent == 0 { "e2e-udp-unavailable-or-empty" } else { "e2e-udp" });
                if answered > 0 {
                    o = o.label("e2e-udp-answered");
                }
                if variants > 0 {
                    o = o.label("e2e-udp-boundary-variants");
                }
                return o;
            }
        }
    }
    check_server_lib(case, which)
}

fn check_server_lib(case: &ServerCase, which: Which) -> Outcome {
    let with_large = matches!(which, Which::C17);
    let w = run_case(case, with_large);
    let mut labels = Labels::default();
    let mut nontrivial = false;
    let r = judge(case, &w, which, &mut labels, &mut nontrivial);
    let mut out = match r {
        Ok(()) => Outcome::pass(nontrivial),
        Err(f) => Outcome { failure: Some(f), labels: vec![], nontrivial: true },
    };
    out.labels = labels.0;
    out
}

macro_rules! server_prop {
    ($name:ident, $id:literal, $which:expr, $quick:expr, $thorough:expr, $maxreq:expr, $rule:literal) => {
        pub struct $name;
        impl Property for $name {
            type Case = ServerCase;
            const ID: &'static str = $id;
            const RULE: &'static str = $rule;
            const ASSUMPTIONS: &'static [&'static str] = &[
                "Server::handle is called as the daemon calls it (buffer = request-sized slice); rate limiting disabled in this world (cache size 0) so twin servers stay in lock-step",
                "ground truth about the request comes from an independent reference codec (refwire, AES-SIV via the aes-siv crate) and from how the harness built the datagram",
                "release semantics: debug assertions off, panics unwind and count as a crash",
            ];
            const QUICK_CASES: u32 = $quick;
            const THOROUGH_CASES: u32 = $thorough;
            const MAX_SHRINK_ITERS: u32 = 3000;
            fn strategy(_tier: Tier) -> BoxedStrategy<ServerCase> {
                case_strategy($maxreq)
            }
            fn check(case: &ServerCase) -> Outcome {
                check_server(case, $which)
            }
            fn from_bytes(data: &[u8]) -> Option<ServerCase> {
                server_case_from_bytes(data)
            }
        }
    };
}

/// fuzzer input: 8 selector bytes (config variants, address, state) + the raw datagram
pub fn server_case_from_bytes(data: &[u8]) -> Option<ServerCase> {
    if data.len() < 8 {
        return None;
    }
    let (sel, rest) = data.split_at(8);
    let pool = subnet_pool();
    let pick = |b: u8| pool[b as usize % pool.len()].to_string();
    let cfg = CfgSpec {
        deny: if sel[0] & 1 != 0 { vec![pick(sel[1])] } else { vec![] },
        deny_is_deny: sel[0] & 2 != 0,
        allow: if sel[0] & 4 != 0 { vec![pick(sel[2]), pick(sel[1].wrapping_add(7))] } else { vec!["0.0.0.0/0".into(), "::/0".into()] },
        allow_is_deny: sel[0] & 8 != 0,
        require_nts: match sel[0] >> 4 & 3 { 0 | 1 => None, 2 => Some(false), _ => Some(true) },
        accepted: if sel[0] & 0x40 != 0 { sel[3] & 7 } else { 7 },
    };
    let state = StateSpec {
        stratum: (sel[4] % 16) + 1,
        leap: sel[4] >> 5,
        refid: u32::from_be_bytes([sel[5], sel[6], sel[7], sel[3]]),
        root_delay: (sel[5] as i64) << 24,
        var_base: (sel[6] as f64) * 1e-6,
        var_linear: if sel[7] & 1 != 0 { -1e-9 } else { 1e-9 },
        var_quadratic: (sel[7] >> 1) as f64 * 1e-12,
        var_cubic: 0.0,
        var_base_time: u64::from_be_bytes([sel[1], sel[2], sel[3], sel[4], 0, 0, 0, 0]),
        precision_exp: -((sel[6] % 30) as i8) - 1,
        bloom_ids: sel[2] % 3,
    };
    let addr = if sel[3] & 0x80 != 0 { AddrSpec::V6(u64::from_be_bytes([0x20, 0x01, 0x0d, 0xb8, sel[1], sel[2], 0, 0]), sel[5] as u64) } else { AddrSpec::V4(u32::from_be_bytes([10, sel[1] & 3, sel[2] & 3, sel[5]])) };
    Some(ServerCase {
        cfg,
        state,
        history: sel[5] % 3,
        initial_rotations: sel[6] % 3,
        key_seed: sel[7] as u64,
        id_offset: if sel[6] & 0x80 != 0 { u32::MAX } else { 0 },
        reqs: vec![ReqItem { addr, recv_ts: u64::from_be_bytes([sel[0], sel[1], sel[2], sel[3], sel[4], sel[5], sel[6], sel[7]]), now_ts: 0x1234_5678_9abc_def0, rotate_before: false, req: ReqSpec::Raw(rest[..rest.len().min(1024)].to_vec()) }],
    })
}

server_prop!(C15, "C15", Which::C15, 200_000, 7_200_000, 4,
    "server configuration (deny/allow lists over a pool of nested/overlapping v4/v6/mapped subnets mixed with generated subnets: few bases with host bits set, any prefix length, any order; both actions, require-nts, accepted-version mask) × client address (boundary addresses of the pool, mapped forms, random, and for half of the requests an address on the prefix boundary of a configured subnet: one bit around the boundary flipped, host bits all-0/all-1/random) × request (reference-built plain/NTS v3/v4/v5 polls, non-client modes, malformed, mutated, raw bytes); oracle = decision table of the statement with reference subnet arithmetic and reference decoding of the answer; non-trivial = the address is on exactly one of the lists or a deny list is configured");
server_prop!(C16, "C16", Which::C16, 60_000, 3_000_000, 3,
    "all request kinds of the server world: (a) Server::handle with the daemon's request-sized buffer; (b) one case in eight additionally end to end: the same datagrams are sent over loopback UDP to the daemon's real ServerTask (timestamped socket; the loopback client is served in half of the cases and otherwise on the deny list, outside the allow list or refused for lack of NTS, all with action deny; NTPv3-5 accepted), plus, for every datagram whose unrestricted answer (library twin with a 4 KiB buffer) would outgrow it, variants lengthened to end 1..4 bytes short of that answer; every reply is matched to its datagram by the echoed identifier; oracle = reply length ≤ request length; non-trivial = an answered request longer than the bare 48-byte header");
server_prop!(C17, "C17", Which::C17, 200_000, 12_000_000, 3,
    "differential: same datagram handled with a request-sized buffer and with a 4 KiB buffer on twin servers; oracle = large answers ⇒ small answers with the same kind, no InternalError statistics entry; non-trivial = answered request with ≥1 extension field");
server_prop!(C18, "C18", Which::C18, 200_000, 13_000_000, 3,
    "requests with extension-field soup (UIDs, unknown types, cookies, placeholders, ref-id requests, padding) in untrusted/authenticated/encrypted position and random server state; oracle = reference decoding of the answer: mode/version/identifier/poll echo, receive+transmit timestamps, stratum/leap/refid/root delay from the state, kiss answers without time, answer fields ⊆ {request UIDs, bloom-filter bytes, draft id, padding, encrypted cookies}, 8-byte canaries from non-echoable request fields absent; non-trivial = answered request that carried ≥1 canary");
server_prop!(C19, "C19", Which::C19, 200_000, 10_000_000, 3,
    "NTS requests: cookie under current/old/expired/foreign/tampered key, 0..10 placeholders of assorted lengths, cookies in the encrypted part, wrong-direction or unrelated AEAD key, corrupted authenticator, both AEADs, v4/v5, key rotations between requests; oracle = auth failure ⇒ no time; time answer authenticates under s2c (reference AES-SIV), fresh cookies only encrypted, ≤ #cookie+placeholder fields, ≤ 8, none larger than the field it replaces, each decoding under the current keys to the request's session keys; non-trivial = authenticated request with ≥2 cookie/placeholder fields");
server_prop!(C21, "C21", Which::C21, 200_000, 6_400_000, 4,
    "all request kinds and configurations; oracle = exactly one statistics entry per datagram whose kind equals the observed action (reference-decoded answer), NTS flag false for parseable requests without authenticator and true for answered NTS requests, then the daemon's ServerStats counters fed with the entries equal the tally of observed actions; non-trivial = every handled datagram");
server_prop!(C22, "C22", Which::C22, 400_000, 9_700_000, 4,
    "raw byte strings 0..1024, reference-built NTS layouts with valid cookies and arbitrary trailing data, authenticated requests with 0..=24 undersized unique-identifier fields (answer authenticator squeezed against the end of the buffer), plain requests with undersized fields and legacy MACs of every accepted length, bit-flipped/truncated/extended valid requests, random configurations, synchronisation states (variance terms 0/huge/slightly negative) and key histories; oracle = Server::handle returns (no panic); non-trivial = every handled datagram");

// ---------------------------------------------------------------------------
// C15 (b): the access policy end to end: what matters here is the address the daemon looks up

/// One client on the IPv4 or IPv6 loopback address, deny/allow lists drawn from subnets around the loopback
/// addresses (also their IPv4-compatible / mapped look-alikes), both actions. A plain conformant request is
/// sent (up to three times); the reference subnet arithmetic on the client's real address decides what it must get.
pub fn udp_policy(sel: u64) -> Result<&'static str, Failure> {
    use ntp_proto::{FilterAction, FilterList, KeySetProvider, Server};
    use ntpd::verif_hook::{DaemonServerConfig, ServerStats, ServerTask};
    use std::net::{IpAddr, Ipv4Addr, Ipv6Addr, SocketAddr};
    use std::sync::{Arc, RwLock};
    use std::time::Duration;
    const POOL: [&str; 12] = [
        "127.0.0.1/32", "127.0.0.0/8", "::1/128", "::/127", "0.0.0.1/32", "0.0.0.0/8", "::ffff:127.0.0.1/128", "10.0.0.0/8", "::/0", "0.0.0.0/0",
        "::/96", "127.0.0.2/31",
    ];
    let v6 = sel & 1 != 0;
    let pick = |k: u64| -> Vec<String> {
        let mut v = Vec::new();
        for j in 0..(k % 3) {
            v.push(POOL[((k / 3 + j * 5) % POOL.len() as u64) as usize].to_string());
        }
        v
    };
    let deny = pick(sel >> 1);
    let mut allow = pick(sel >> 9);
    if (sel >> 17) & 1 == 0 {
        allow = vec!["0.0.0.0/0".into(), "::/0".into()];
    }
    let deny_is_deny = (sel >> 18) & 1 != 0;
    let allow_is_deny = (sel >> 19) & 1 != 0;
    let client_ip: IpAddr = if v6 { IpAddr::V6(Ipv6Addr::LOCALHOST) } else { IpAddr::V4(Ipv4Addr::LOCALHOST) };
    // a port that is free right now (asked from the kernel, released again for the server task)
    let Some(port) = std::net::UdpSocket::bind(SocketAddr::new(client_ip, 0)).ok().and_then(|s| s.local_addr().ok()).map(|a| a.port()) else {
        return Ok("e2e-policy-unavailable");
    };
    let listen = SocketAddr::new(client_ip, port);
    let cfg = CfgSpec { deny: deny.clone(), deny_is_deny, allow: allow.clone(), allow_is_deny, require_nts: None, accepted: 7 };
    // expectation from the statement and reference subnet arithmetic on the client's real address
    let denied = ref_member(&parse_subnets(&deny), client_ip);
    let allowed = ref_member(&parse_subnets(&allow), client_ip);
    #[derive(PartialEq, Debug)]
    enum Want {
        Time,
        DenyKiss,
        Nothing,
    }
    let want = if denied {
        if deny_is_deny { Want::DenyKiss } else { Want::Nothing }
    } else if !allowed {
        if allow_is_deny { Want::DenyKiss } else { Want::Nothing }
    } else {
        Want::Time
    };
    crate::rt::run_real(async move {
        let text = server_table_toml(&cfg, &listen.to_string(), 0, 0).expect("pool subnets parse");
        let dcfg: DaemonServerConfig = toml::from_str(&text).map_err(|e| Failure { signature: "harness/server-table-rejected".into(), what: format!("{e}: {text}") })?;
        let provider = KeySetProvider::dangerous_new_deterministic(1);
        let (_tx, rx) = tokio::sync::watch::channel(provider.get());
        let info = Arc::new(RwLock::new(make_info(&StateSpec { stratum: 2, leap: 0, refid: 7, root_delay: 0, var_base: 0.0, var_linear: 0.0, var_quadratic: 0.0, var_cubic: 0.0, var_base_time: 0, precision_exp: -20, bloom_ids: 0 }, 1)));
        let now = Arc::new(std::sync::atomic::AtomicU64::new(0x1234_5678_0000_0000));
        let server = Server::new_internal(dcfg.clone().into(), FixedClock(now), info, provider.get());
        let handle = ServerTask::spawn(server, dcfg, ServerStats::default(), rx, Duration::from_millis(5));
        let res = async {
            let bind: SocketAddr = SocketAddr::new(client_ip, 0);
            let Ok(sock) = tokio::net::UdpSocket::bind(bind).await else { return Ok("e2e-policy-unavailable") };
            if sock.connect(listen).await.is_err() {
                return Ok("e2e-policy-unavailable");
            }
            let mut probe = [0u8; 48];
            probe[0] = 0x23;
            let mut buf = [0u8; 2048];
            let mut got_time = false;
            let mut got_deny = false;
            let mut got_other = false;
            // the server task needs a moment to open its socket; a request that must be served is retried
            for attempt in 0..100u64 {
                probe[40..48].copy_from_slice(&(0x504f_4c49_4359_0000u64 | attempt).to_be_bytes());
                let _ = sock.send(&probe).await;
                let wait = if want == Want::Time { 50 } else { 20 };
                if let Ok(Ok(n)) = tokio::time::timeout(Duration::from_millis(wait), sock.recv(&mut buf)).await {
                    if n >= 48 && buf[24..30] == probe[40..46] {
                        if buf[1] != 0 {
                            got_time = true;
                        } else if &buf[12..16] == b"DENY" {
                            got_deny = true;
                        } else {
                            got_other = true;
                        }
                        break;
                    }
                }
                if want != Want::Time && attempt >= 5 {
                    break;
                }
            }
            let ctx = || format!("client {client_ip}, deny list {deny:?} (action deny: {deny_is_deny}), allow list {allow:?} (action deny: {allow_is_deny})");
            match want {
                Want::Time => {
                    if !got_time && !got_deny && !got_other && std::net::UdpSocket::bind(listen).is_ok() {
                        // the server task never got its socket open (the port is still free): nothing was tested
                        return Ok("e2e-policy-unavailable");
                    }
                    if !got_time {
                        return Err(Failure { signature: "e2e-allowed-client-not-served".into(), what: format!("{}: no time answer (deny kiss: {got_deny})", ctx()) });
                    }
                    Ok("e2e-policy-served")
                }
                Want::DenyKiss => {
                    if got_time || got_other {
                        return Err(Failure { signature: "e2e-denied-client-served".into(), what: format!("{}: got a time answer", ctx()) });
                    }
                    Ok(if got_deny { "e2e-policy-deny-kiss" } else { "e2e-policy-deny-unanswered" })
                }
                Want::Nothing => {
                    if got_time || got_deny || got_other {
                        return Err(Failure { signature: "e2e-ignored-client-answered".into(), what: format!("{}: got an answer (time: {got_time}, deny: {got_deny})", ctx()) });
                    }
                    Ok("e2e-policy-ignored")
                }
            }
        }
        .await;
        handle.abort();
        let _ = handle.await;
        res
    })
}

// ---------------------------------------------------------------------------
// C16 (b): end to end through the daemon's ServerTask on a loopback UDP socket

/// identifier a reply echoes: v3/v4 transmit timestamp -> origin field, v5 client cookie
fn request_ident(req: &[u8]) -> Option<[u8; 8]> {
    if req.len() < 48 {
        return None;
    }
    let v = (req[0] >> 3) & 7;
    let r = if v == 5 { &req[24..32] } else { &req[40..48] };
    Some(r.try_into().unwrap())
}

/// Sends the case's datagrams to a real `ServerTask` bound to a loopback port and checks every
/// reply against the request it echoes. Returns (sent, answered).
pub fn udp_exchange(case: &ServerCase) -> Result<(usize, usize, usize), Failure> {
    use ntp_proto::{FilterAction, FilterList, KeySetProvider, Server};
    use ntpd::verif_hook::{DaemonServerConfig, ServerStats, ServerTask};
    use std::sync::{Arc, RwLock};
    use std::time::Duration;
    // a port that is free right now (asked from the kernel, released again for the server task)
    let port = std::net::UdpSocket::bind("127.0.0.1:0").ok().and_then(|s| s.local_addr().ok()).map(|a| a.port()).unwrap_or(20000 + (std::process::id() % 20000) as u16);
    let listen: std::net::SocketAddr = ([127, 0, 0, 1], port).into();
    crate::rt::run_real(async move {
        // policy for the (loopback) client: served, on a deny list, outside the allow list, or NTS required
        // (the last three answered with DENY kisses, whose size the protocol layer does not cap by itself)
        let policy = (case.key_seed / 8) % 6;
        let everyone: Vec<ntp_proto::IpSubnet> = vec!["0.0.0.0/0".parse().unwrap(), "::/0".parse().unwrap()];
        let dcfg = DaemonServerConfig {
            listen,
            denylist: FilterList { filter: if policy == 3 { vec!["127.0.0.0/8".parse().unwrap()] } else { vec![] }, action: FilterAction::Deny },
            allowlist: FilterList { filter: if policy == 4 { vec!["10.0.0.0/8".parse().unwrap()] } else { everyone }, action: FilterAction::Deny },
            rate_limiting_cache_size: 0,
            rate_limiting_cutoff: Duration::ZERO,
            require_nts: if policy == 5 { Some(FilterAction::Deny) } else { None },
            accept_ntp_versions: versions(7),
        };
        let provider = KeySetProvider::dangerous_new_deterministic(case.history as usize);
        let keysets = vec![provider.get()];
        let foreign = KeySetProvider::new(0).get();
        let (_tx, rx) = tokio::sync::watch::channel(provider.get());
        let info = Arc::new(RwLock::new(make_info(&case.state, case.key_seed)));
        let now = Arc::new(std::sync::atomic::AtomicU64::new(0x1234_5678_0000_0000));
        // library-level twin with an unrestricted buffer: tells how long the full answer to a datagram would be
        let mut twin = Server::new_internal(dcfg.clone().into(), FixedClock(now.clone()), info.clone(), provider.get());
        let server = Server::new_internal(dcfg.clone().into(), FixedClock(now), info, provider.get());
        let handle = ServerTask::spawn(server, dcfg, ServerStats::default(), rx, Duration::from_millis(5));
        let res = async {
            let sock = tokio::net::UdpSocket::bind("127.0.0.1:0").await.map_err(|e| Failure { signature: "harness/udp-bind".into(), what: e.to_string() })?;
            let _ = sock.connect(listen).await;
            // wait until the server answers a plain poll
            let mut probe = [0u8; 48];
            probe[0] = 0x23;
            probe[40..48].copy_from_slice(&0x5052_4f42_4550_5245u64.to_be_bytes());
            let mut buf = [0u8; 2048];
            let mut up = false;
            for _ in 0..200 {
                let _ = sock.send(&probe).await;
                if let Ok(Ok(n)) = tokio::time::timeout(Duration::from_millis(5), sock.recv(&mut buf)).await {
                    if n >= 48 && buf[24..32] == probe[40..48] {
                        up = true;
                        break;
                    }
                }
            }
            if !up {
                // sockets not available in this environment: the library-level clause still stands
                return Ok((0usize, 0usize, 0usize));
            }
            let jar = CookieJar { keysets: &keysets, foreign: &foreign };
            let mut sent: Vec<([u8; 8], usize)> = Vec::new();
            let mut answered = 0usize;
            let mut variants = 0usize;
            let judge = |reply: &[u8], sent: &[([u8; 8], usize)]| -> Result<bool, Failure> {
                if reply.len() < 48 {
                    return Err(Failure { signature: "e2e-reply-shorter-than-a-header".into(), what: format!("{} bytes", reply.len()) });
                }
                let id: [u8; 8] = reply[24..32].try_into().unwrap();
                if id == 0x5052_4f42_4550_5245u64.to_be_bytes() {
                    return Ok(false); // late probe answer
                }
                let longest = sent.iter().filter(|s| s.0 == id).map(|s| s.1).max();
                match longest {
                    None => Ok(false),
                    Some(l) if reply.len() > l => Err(Failure {
                        signature: "e2e-reply-longer-than-request".into(),
                        what: format!("the daemon sent a {} byte reply to a {} byte request over UDP", reply.len(), l),
                    }),
                    Some(_) => Ok(true),
                }
            };
            for (i, item) in case.reqs.iter().enumerate() {
                let b = build_request(&item.req, &jar, case.key_seed.wrapping_add(i as u64 * 7919)).bytes;
                if b.is_empty() || b.len() > 1024 {
                    continue;
                }
                let Some(id) = request_ident(&b) else {
                    let _ = sock.send(&b).await;
                    continue;
                };
                sent.push((id, b.len()));
                let _ = sock.send(&b).await;
                if let Ok(Ok(n)) = tokio::time::timeout(Duration::from_millis(12), sock.recv(&mut buf)).await {
                    if judge(&buf[..n], &sent)? {
                        answered += 1;
                    }
                }
                // boundary-directed variants: when the unrestricted answer would outgrow the datagram,
                // lengthen the datagram's tail so that it ends 1..3 bytes (and 4) short of that answer
                let mut big = [0u8; 4096];
                let mut st = crate::w_server::RecStats::default();
                let full = match twin.handle(std::net::IpAddr::from([127, 0, 0, 1]), nh::time::timestamp_from_raw(1), &b, &mut big, &mut st) {
                    ntp_proto::ServerAction::Respond { message } => message.len(),
                    ntp_proto::ServerAction::Ignore => 0,
                };
                if full > b.len() && full - b.len() <= 28 {
                    for short in 1..=4usize {
                        if full - short <= b.len() {
                            continue;
                        }
                        let mut v = b.clone();
                        v.resize(full - short, 0x55);
                        // own identifier so that the reply is matched to this variant only
                        let at = if (v[0] >> 3) & 7 == 5 { 24 } else { 40 };
                        let tag = 0x5641_5200_0000_0000u64 | ((i as u64) << 8) | short as u64;
                        v[at..at + 8].copy_from_slice(&tag.to_be_bytes());
                        sent.push((tag.to_be_bytes(), v.len()));
                        variants += 1;
                        let _ = sock.send(&v).await;
                        if let Ok(Ok(n)) = tokio::time::timeout(Duration::from_millis(6), sock.recv(&mut buf)).await {
                            if judge(&buf[..n], &sent)? {
                                answered += 1;
                            }
                        }
                    }
                }
            }
            // two fixed datagrams whose full-size answer would outgrow them (the known C17 classes):
            // a correct daemon drops them, a daemon that hands out a larger buffer answers too long
            let mut grow_v4 = vec![0u8; 48];
            grow_v4[0] = 0x23;
            grow_v4[40..48].copy_from_slice(&0x4752_4f57_5f56_3434u64.to_be_bytes());
            for _ in 0..2 {
                grow_v4.extend_from_slice(&[0x01, 0x04, 0x00, 0x08, 0xAA, 0xBB, 0xCC, 0xDD]);
            }
            grow_v4.extend_from_slice(&[0u8; 20]);
            for b in [grow_v4] {
                sent.push((request_ident(&b).unwrap(), b.len()));
                let _ = sock.send(&b).await;
                if let Ok(Ok(n)) = tokio::time::timeout(Duration::from_millis(12), sock.recv(&mut buf)).await {
                    if judge(&buf[..n], &sent)? {
                        answered += 1;
                    }
                }
            }
            // drain late replies
            while let Ok(Ok(n)) = tokio::time::timeout(Duration::from_millis(3), sock.recv(&mut buf)).await {
                if judge(&buf[..n], &sent)? {
                    answered += 1;
                }
            }
            Ok((sent.len(), answered, variants))
        }
        .await;
        handle.abort();
        let _ = handle.await;
        res
    })
}
