//! C30 — NTS-KE records, requests and responses are parsed totally, boundedly (≤ 4096 bytes of a
//! message) and round-trip.
//!
//! Oracle (all independent of the parser's own logic):
//! * totality: the parse future, polled once over an always-ready reader, completes (no panic —
//!   caught by the engine — and no stall);
//! * bound: the counting reader handed out ≤ 4096 bytes to a request/response parse, and
//!   ≤ 4 + declared body length to a record parse;
//! * round trip: an accepted value serialises (without error) to bytes that parse back to an equal
//!   value (records: `PartialEq`; requests/responses: field-by-field view) and re-serialise to
//!   the same bytes;
//! * fragmentation independence: delivering the same stream in small chunks gives the same verdict
//!   and value ("parsing a byte stream" is a function of the bytes, not of read boundaries).
use crate::engine::*;
use crate::w_ntske::*;
use ntp_proto::{KeyExchangeRequest, KeyExchangeResponse, NtsRecord};
use proptest::prelude::*;
use serde::{Deserialize, Serialize};

pub struct C30;

pub const MAX_MESSAGE: usize = 4096;

#[derive(Debug, Clone, Serialize, Deserialize)]
pub struct Case {
    /// 0 = record, 1 = request, 2 = response (mod 3)
    pub sel: u8,
    /// bytes handed out per read (0 = as many as asked for)
    pub chunk: u16,
    #[serde(with = "hexser")]
    pub stream: Vec<u8>,
}

const CHUNKS: [u16; 8] = [0, 1, 2, 3, 5, 7, 64, 511];

// ---------------------------------------------------------------------------
// generator

#[derive(Debug, Clone)]
struct GRec {
    tw: u16,
    body: Vec<u8>,
    /// declared length = body length + delta (0 for well-framed records)
    delta: i16,
}

impl GRec {
    fn new(tw: u16, body: Vec<u8>) -> Self {
        GRec { tw, body, delta: 0 }
    }
    fn bytes(&self) -> Vec<u8> {
        let mut v = rec(self.tw, &self.body);
        let l = (self.body.len() as i32 + self.delta as i32).clamp(0, 65535) as u16;
        v[2..4].copy_from_slice(&l.to_be_bytes());
        v
    }
}

fn proto_id() -> BoxedStrategy<u16> {
    prop_oneof![
        6 => prop::sample::select(vec![PROTO_V4, PROTO_V5]),
        2 => prop::sample::select(vec![1u16, 2, 0x8000, 0x8002, 0x7fff, 0xffff]),
        1 => any::<u16>(),
    ]
    .boxed()
}

fn alg_id() -> BoxedStrategy<u16> {
    prop_oneof![
        6 => prop::sample::select(vec![ALG_256, ALG_512]),
        2 => prop::sample::select(vec![0u16, 1, 14, 16, 18, 30, 0xffff]),
        1 => any::<u16>(),
    ]
    .boxed()
}

fn name() -> BoxedStrategy<String> {
    prop::collection::vec(
        prop::sample::select("abcdefghijklmnopqrstuvwxyz0123456789.-_ ".chars().collect::<Vec<_>>()),
        0..24,
    )
    .prop_map(|v| v.into_iter().collect())
    .boxed()
}

fn string_body() -> BoxedStrategy<Vec<u8>> {
    prop_oneof![
        8 => name().prop_map(|s| s.into_bytes()),
        1 => name().prop_map(|s| format!("ü{s}€\u{10348}").into_bytes()),
        // invalid UTF-8
        1 => (name(), prop::sample::select(vec![0xffu8, 0xc0, 0x80, 0xe2, 0xf5])).prop_map(|(s, b)| {
            let mut v = s.into_bytes();
            v.push(b);
            v
        }),
    ]
    .boxed()
}

fn u16_list_body(ids: BoxedStrategy<u16>) -> BoxedStrategy<Vec<u8>> {
    (prop::collection::vec(ids, 0..6), prop::option::weighted(0.1, any::<u8>()))
        .prop_map(|(ids, stray)| {
            let mut b = u16s(&ids);
            b.extend(stray);
            b
        })
        .boxed()
}

fn key_body() -> BoxedStrategy<Vec<u8>> {
    prop_oneof![
        4 => any::<u8>().prop_map(|s| (0..64u8).map(|i| i.wrapping_add(s)).collect::<Vec<u8>>()),
        4 => any::<u8>().prop_map(|s| (0..128u8).map(|i| i.wrapping_mul(3).wrapping_add(s)).collect::<Vec<u8>>()),
        2 => prop::collection::vec(any::<u8>(), 0..140),
    ]
    .boxed()
}

fn crit(canonical: bool) -> BoxedStrategy<bool> {
    prop::bool::weighted(0.85).prop_map(move |keep| if keep { canonical } else { !canonical }).boxed()
}

fn typed(ty: u16, canonical_crit: bool, body: BoxedStrategy<Vec<u8>>) -> BoxedStrategy<GRec> {
    (crit(canonical_crit), body, prop_oneof![20 => Just(0i16), 1 => -3i16..=3, 1 => Just(2000i16)])
        .prop_map(move |(c, body, delta)| GRec {
            tw: ty | if c { CRIT } else { 0 },
            body,
            delta,
        })
        .boxed()
}

fn empty_or_junk() -> BoxedStrategy<Vec<u8>> {
    prop_oneof![9 => Just(vec![]), 1 => prop::collection::vec(any::<u8>(), 1..600)].boxed()
}

fn code_body() -> BoxedStrategy<Vec<u8>> {
    prop_oneof![
        6 => (0u16..4).prop_map(|c| c.to_be_bytes().to_vec()),
        2 => any::<u16>().prop_map(|c| c.to_be_bytes().to_vec()),
        1 => prop::collection::vec(any::<u8>(), 0..5),
    ]
    .boxed()
}

fn any_rec() -> BoxedStrategy<GRec> {
    prop_oneof![
        1 => typed(T_EOM, true, empty_or_junk()),
        3 => typed(T_NEXT_PROTO, true, u16_list_body(proto_id())),
        1 => typed(T_ERROR, true, code_body()),
        1 => typed(T_WARNING, true, code_body()),
        3 => typed(T_AEAD, true, u16_list_body(alg_id())),
        3 => typed(T_COOKIE, false, prop::collection::vec(any::<u8>(), 0..300).boxed()),
        2 => typed(T_SERVER, true, string_body()),
        2 => typed(T_PORT, true, code_body()),
        2 => typed(T_KEEP_ALIVE, false, empty_or_junk()),
        2 => typed(T_SUPP_PROTO, true, u16_list_body(proto_id())),
        2 => typed(T_SUPP_ALG, true, prop::collection::vec((alg_id(), prop::sample::select(vec![32u16, 64, 0, 16])), 0..4)
            .prop_map(|v| v.into_iter().flat_map(|(a, k)| [a.to_be_bytes(), k.to_be_bytes()].concat()).collect::<Vec<u8>>())
            .boxed()),
        2 => typed(T_FIXED_KEY, true, key_body()),
        2 => typed(T_DENY, false, string_body()),
        2 => typed(T_AUTH, false, string_body()),
        // unknown types
        2 => (prop::sample::select(vec![11u16, 15, 16, 100, 0x0400, 0x7fff]), any::<bool>(), prop::collection::vec(any::<u8>(), 0..40))
            .prop_map(|(t, c, b)| GRec::new(t | if c { CRIT } else { 0 }, b)),
        1 => (any::<u16>(), prop::collection::vec(any::<u8>(), 0..40)).prop_map(|(t, b)| GRec::new(t, b)),
    ]
    .boxed()
}

fn ignored_rec() -> BoxedStrategy<GRec> {
    prop_oneof![
        typed(T_SERVER, true, string_body()),
        typed(T_PORT, true, code_body()),
        typed(T_AUTH, false, string_body()),
        prop::collection::vec(any::<u8>(), 0..40).prop_map(|b| GRec::new(0x0400, b)),
    ]
    .boxed()
}

/// (preferred parser, records without the end-of-message record)
fn template() -> BoxedStrategy<(u8, Vec<GRec>)> {
    let ke_request = (
        prop::collection::vec(proto_id(), 0..4),
        prop::collection::vec(alg_id(), 0..4),
        prop::collection::vec(name(), 0..3),
        prop::collection::vec(ignored_rec(), 0..2),
    )
        .prop_map(|(p, a, denied, extra)| {
            let mut v = vec![GRec::new(T_NEXT_PROTO | CRIT, u16s(&p)), GRec::new(T_AEAD | CRIT, u16s(&a))];
            v.extend(denied.into_iter().map(|d| GRec::new(T_DENY, d.into_bytes())));
            v.extend(extra);
            (1u8, v)
        });
    let fixed_key = (
        name(),
        prop_oneof![4 => Just(ALG_256), 4 => Just(ALG_512), 1 => alg_id()],
        prop::bool::weighted(0.85),
        proto_id(),
        any::<bool>(),
        any::<u8>(),
    )
        .prop_map(|(token, alg, right_len, proto, ka, seed)| {
            let mut n = tls::key_len(alg).unwrap_or(32);
            if !right_len {
                n = if n == 32 { 64 } else { 32 };
            }
            let keys: Vec<u8> = (0..2 * n).map(|i| (i as u8).wrapping_add(seed)).collect();
            let mut v = vec![
                GRec::new(T_AUTH, token.into_bytes()),
                GRec::new(T_FIXED_KEY | CRIT, keys),
                GRec::new(T_NEXT_PROTO | CRIT, u16s(&[proto])),
                GRec::new(T_AEAD | CRIT, u16s(&[alg])),
            ];
            if ka {
                v.push(GRec::new(T_KEEP_ALIVE, vec![]));
            }
            (1u8, v)
        });
    let support = (
        name(),
        any::<bool>(),
        any::<bool>(),
        any::<bool>(),
        u16_list_body(proto_id()),
    )
        .prop_map(|(token, wp, wa, ka, content)| {
            let mut v = vec![GRec::new(T_AUTH, token.into_bytes())];
            if wp {
                v.push(GRec::new(T_SUPP_PROTO | CRIT, content.clone()));
            }
            if wa {
                v.push(GRec::new(T_SUPP_ALG | CRIT, vec![]));
            }
            if ka {
                v.push(GRec::new(T_KEEP_ALIVE, vec![]));
            }
            (1u8, v)
        });
    let response = (
        proto_id(),
        alg_id(),
        prop::collection::vec(prop::collection::vec(any::<u8>(), 0..120), 0..11),
        prop::option::of(name()),
        prop::option::of(prop_oneof![2 => any::<u16>(), 2 => prop::sample::select(vec![123u16, 4460, 0, 1, 122, 124, 65535])]),
        any::<bool>(),
        prop::collection::vec(ignored_rec(), 0..2),
    )
        .prop_map(|(p, a, cookies, server, port, ka, extra)| {
            let mut v = vec![GRec::new(T_NEXT_PROTO | CRIT, u16s(&[p])), GRec::new(T_AEAD | CRIT, u16s(&[a]))];
            v.extend(cookies.into_iter().map(|c| GRec::new(T_COOKIE, c)));
            if let Some(s) = server {
                v.push(GRec::new(T_SERVER | CRIT, s.into_bytes()));
            }
            if let Some(p) = port {
                v.push(GRec::new(T_PORT | CRIT, p.to_be_bytes().to_vec()));
            }
            if ka {
                v.push(GRec::new(T_KEEP_ALIVE, vec![]));
            }
            v.extend(extra.into_iter().filter(|r| r.tw & 0x7fff != T_SERVER && r.tw & 0x7fff != T_PORT));
            (2u8, v)
        });
    let soup = (0u8..3, prop::collection::vec(any_rec(), 0..10)).prop_map(|(s, v)| (s, v));
    let single = any_rec().prop_map(|r| (0u8, vec![r]));
    prop_oneof![
        3 => ke_request,
        2 => fixed_key,
        2 => support,
        4 => response,
        3 => soup,
        3 => single,
    ]
    .boxed()
}

#[derive(Debug, Clone)]
struct Shape {
    sel_pref: u8,
    recs: Vec<GRec>,
    /// use the preferred parser (else `sel_other`)
    use_pref: bool,
    sel_other: u8,
    /// duplicate record `dup` (index) once
    dup: Option<u16>,
    rot: u16,
    /// pad so that the message (incl. end-of-message) has exactly this many bytes
    pad_to: Option<u16>,
    filler_cookie: bool,
    /// 0 critical, 1 non-critical, 2 with body, 3 absent
    eom: u8,
    eom_body: Vec<u8>,
    trailing: Vec<u8>,
    repeat_message: bool,
    trunc: Option<u16>,
    flips: Vec<(u16, u8)>,
    chunk: u16,
}

fn assemble(s: Shape) -> Case {
    let mut recs = s.recs.clone();
    if let Some(d) = s.dup {
        if !recs.is_empty() {
            let i = idx(d, recs.len());
            let r = recs[i].clone();
            recs.push(r);
        }
    }
    if !recs.is_empty() {
        let r = idx(s.rot, recs.len());
        recs.rotate_left(r);
    }
    let single_record = s.sel_pref == 0 && s.use_pref;
    let mut bytes: Vec<u8> = recs.iter().flat_map(|r| r.bytes()).collect();
    let eom_bytes = match s.eom {
        0 => rec(T_EOM | CRIT, &[]),
        1 => rec(T_EOM, &[]),
        2 => rec(T_EOM | CRIT, &s.eom_body),
        _ => vec![],
    };
    if let Some(target) = s.pad_to {
        let have = bytes.len() + eom_bytes.len() + 4;
        if (target as usize) >= have && !single_record {
            let l = target as usize - have;
            let ty = if s.filler_cookie { T_COOKIE } else { 0x0400 };
            bytes.extend(rec(ty, &vec![0xA5; l]));
        }
    }
    if !single_record {
        bytes.extend(eom_bytes);
    }
    let msg_len = bytes.len();
    if s.repeat_message {
        let copy = bytes.clone();
        bytes.extend(copy);
    }
    bytes.extend(&s.trailing);
    if let Some(t) = s.trunc {
        let n = idx(t, msg_len + 1);
        bytes.truncate(n);
    }
    for (i, x) in &s.flips {
        if !bytes.is_empty() {
            let n = bytes.len();
            bytes[idx(*i, n)] ^= *x;
        }
    }
    Case {
        sel: if s.use_pref { s.sel_pref } else { s.sel_other },
        chunk: s.chunk,
        stream: bytes,
    }
}

fn shape() -> BoxedStrategy<Shape> {
    (
        template(),
        (prop::bool::weighted(0.85), 0u8..3),
        (prop::option::weighted(0.12, any::<u16>()), prop_oneof![3 => Just(0u16), 1 => any::<u16>()]),
        (
            prop::option::weighted(
                0.3,
                prop_oneof![
                    6 => 4088u16..=4104,
                    1 => prop::sample::select(vec![2048u16, 4500, 5000, 8192, 12000]),
                ],
            ),
            any::<bool>(),
        ),
        (
            prop_oneof![10 => Just(0u8), 2 => Just(1u8), 2 => Just(2u8), 1 => Just(3u8)],
            prop::collection::vec(any::<u8>(), 1..20),
        ),
        (
            prop_oneof![4 => Just(vec![]), 1 => prop::collection::vec(any::<u8>(), 1..30)],
            prop::bool::weighted(0.1),
        ),
        prop::option::weighted(0.12, any::<u16>()),
        prop_oneof![6 => Just(vec![]), 1 => prop::collection::vec((any::<u16>(), 1u8..=255), 1..3)],
        prop::sample::select(CHUNKS.to_vec()),
    )
        .prop_map(
            |((sel_pref, recs), (use_pref, sel_other), (dup, rot), (pad_to, filler_cookie), (eom, eom_body), (trailing, repeat_message), trunc, flips, chunk)| Shape {
                sel_pref,
                recs,
                use_pref,
                sel_other,
                dup,
                rot,
                pad_to,
                filler_cookie,
                eom,
                eom_body,
                trailing,
                repeat_message,
                trunc,
                flips,
                chunk,
            },
        )
        .boxed()
}

// ---------------------------------------------------------------------------
// checks

fn size_labels(l: &mut Labels, stream: &[u8], consumed: usize) {
    l.add_if(stream.len() > MAX_MESSAGE, "stream>4096");
    l.add_if(stream.len() == MAX_MESSAGE, "stream=4096");
    l.add_if(consumed == MAX_MESSAGE, "consumed=4096");
    l.add_if(consumed > 2048 && consumed < MAX_MESSAGE, "consumed>2048");
    match split_message(stream) {
        Some((_, used)) if used == MAX_MESSAGE => l.add("framed-message=4096"),
        Some((_, used)) if used > MAX_MESSAGE => l.add("framed-message>4096"),
        Some(_) => l.add("framed-message<4096"),
        None => l.add("no-framed-message"),
    }
}

fn check_record(case: &Case, l: &mut Labels) -> Result<bool, (String, String)> {
    let stream = &case.stream;
    let mut rd = CountingReader::new(stream, case.chunk as usize);
    let Some(res) = poll_now(NtsRecord::parse(&mut rd)) else {
        return Err(("record/stall".into(), "record parse future returned Pending on an always-ready reader".into()));
    };
    let consumed = rd.pos;
    let declared = if stream.len() >= 4 {
        4 + u16::from_be_bytes([stream[2], stream[3]]) as usize
    } else {
        stream.len()
    };
    if consumed > declared {
        return Err((
            "record/overread".into(),
            format!("record parse consumed {consumed} bytes, record is {declared} bytes"),
        ));
    }
    if case.chunk != 0 {
        let mut rd0 = CountingReader::new(stream, 0);
        let res0 = poll_now(NtsRecord::parse(&mut rd0)).ok_or_else(|| ("record/stall".to_string(), "stall".to_string()))?;
        let same = match (&res, &res0) {
            (Ok(a), Ok(b)) => a == b,
            (Err(_), Err(_)) => true,
            _ => false,
        };
        if !same {
            return Err((
                "record/chunk-dependent".into(),
                format!("chunked ({}) parse gave {res:?}, unchunked {res0:?}", case.chunk),
            ));
        }
    }
    match res {
        Err(e) => {
            l.add(match e.kind() {
                std::io::ErrorKind::UnexpectedEof => "record-err-eof",
                std::io::ErrorKind::InvalidData => "record-err-invalid-data",
                _ => "record-err-other",
            });
            Ok(false)
        }
        Ok(r) => {
            l.add("record-accepted");
            l.add(match &r {
                NtsRecord::EndOfMessage => "rec:eom",
                NtsRecord::NextProtocol { .. } => "rec:next-protocol",
                NtsRecord::Error { .. } => "rec:error",
                NtsRecord::Warning { .. } => "rec:warning",
                NtsRecord::AeadAlgorithm { .. } => "rec:aead",
                NtsRecord::NewCookie { .. } => "rec:cookie",
                NtsRecord::Server { .. } => "rec:server",
                NtsRecord::Port { .. } => "rec:port",
                NtsRecord::Unknown { .. } => "rec:unknown",
                NtsRecord::KeepAlive => "rec:keep-alive",
                NtsRecord::SupportedNextProtocolList { .. } => "rec:supported-protocols",
                NtsRecord::SupportedAlgorithmList { .. } => "rec:supported-algorithms",
                NtsRecord::FixedKeyRequest { .. } => "rec:fixed-key",
                NtsRecord::NtpServerDeny { .. } => "rec:deny",
                NtsRecord::Authentication { .. } => "rec:authentication",
            });
            let mut s1 = Vec::new();
            match poll_now(r.serialize(&mut s1)) {
                Some(Ok(())) => {}
                Some(Err(e)) => {
                    return Err(("record/serialize-error".into(), format!("accepted record {r:?} does not serialise: {e}")));
                }
                None => return Err(("record/stall".into(), "serialize stalled".into())),
            }
            // content preservation (bytes -> value -> bytes): same record type, same body (end of
            // message / keep-alive may drop a body they ignore), and for record types the parser
            // does not know the critical bit survives too
            {
                let tw_in = u16::from_be_bytes([stream[0], stream[1]]);
                let body_in = &stream[4..declared];
                let tw_out = u16::from_be_bytes([s1[0], s1[1]]);
                let body_out = &s1[4..];
                let ty = tw_in & 0x7fff;
                let known = ty <= 14 && ty != 11;
                let body_ok = body_out == body_in || ((ty == T_EOM || ty == T_KEEP_ALIVE) && body_out.is_empty());
                if (tw_out & 0x7fff) != ty || !body_ok || (!known && tw_out != tw_in) {
                    return Err((
                        "record/content-not-preserved".into(),
                        format!("{:02x?} parsed as {r:?} which serialises to {s1:02x?}", &stream[..declared]),
                    ));
                }
            }
            let mut rd2 = CountingReader::new(&s1, 0);
            let r2 = match poll_now(NtsRecord::parse(&mut rd2)) {
                Some(Ok(r2)) => r2,
                Some(Err(e)) => {
                    return Err((
                        "record/reparse-error".into(),
                        format!("record {r:?} serialised to {s1:02x?} which does not parse: {e}"),
                    ));
                }
                None => return Err(("record/stall".into(), "reparse stalled".into())),
            };
            if r2 != r {
                return Err(("record/roundtrip-mismatch".into(), format!("{r:?} -> {s1:02x?} -> {r2:?}")));
            }
            if rd2.pos != s1.len() {
                return Err((
                    "record/roundtrip-leftover".into(),
                    format!("{r:?} serialised to {} bytes but reparse consumed {}", s1.len(), rd2.pos),
                ));
            }
            let mut s2 = Vec::new();
            if !matches!(poll_now(r2.serialize(&mut s2)), Some(Ok(()))) || s2 != s1 {
                return Err(("record/serialize-unstable".into(), format!("{s1:02x?} vs {s2:02x?}")));
            }
            Ok(true)
        }
    }
}

fn ser_req(r: KeyExchangeRequest<'_>) -> Result<Vec<u8>, (String, String)> {
    let mut out = Vec::new();
    match poll_now(r.serialize(&mut out)) {
        Some(Ok(())) => Ok(out),
        Some(Err(e)) => Err(("request/serialize-error".into(), format!("accepted request does not serialise: {e}"))),
        None => Err(("request/stall".into(), "serialize stalled".into())),
    }
}

fn check_request(case: &Case, l: &mut Labels) -> Result<bool, (String, String)> {
    let stream = &case.stream;
    let mut rd = CountingReader::new(stream, case.chunk as usize);
    let Some(res) = poll_now(KeyExchangeRequest::parse(&mut rd)) else {
        return Err(("request/stall".into(), "request parse future returned Pending on an always-ready reader".into()));
    };
    let consumed = rd.pos;
    size_labels(l, stream, consumed);
    if consumed > MAX_MESSAGE {
        return Err((
            "request/consumed>4096".into(),
            format!("request parse consumed {consumed} bytes of a {}-byte stream", stream.len()),
        ));
    }
    if case.chunk != 0 {
        let mut rd0 = CountingReader::new(stream, 0);
        let res0 = poll_now(KeyExchangeRequest::parse(&mut rd0)).ok_or_else(|| ("request/stall".to_string(), "stall".to_string()))?;
        let same = match (&res, &res0) {
            (Ok(a), Ok(b)) => req_view(a) == req_view(b) && rd0.pos == consumed,
            (Err(_), Err(_)) => true,
            _ => false,
        };
        if !same {
            return Err((
                "request/chunk-dependent".into(),
                format!("chunked ({}) and unchunked parse disagree", case.chunk),
            ));
        }
    }
    match res {
        Err(e) => {
            l.add(err_class(&e));
            Ok(consumed == MAX_MESSAGE)
        }
        Ok(r) => {
            l.add("request-accepted");
            let v1 = req_view(&r);
            l.add(match &v1 {
                ReqView::KeyExchange { .. } => "req:key-exchange",
                ReqView::FixedKey { .. } => "req:fixed-key",
                ReqView::Support { .. } => "req:support",
            });
            let s1 = ser_req(r)?;
            let mut rd2 = CountingReader::new(&s1, 0);
            let r2 = match poll_now(KeyExchangeRequest::parse(&mut rd2)) {
                Some(Ok(r2)) => r2,
                Some(Err(e)) => {
                    return Err((
                        "request/reparse-error".into(),
                        format!("{v1:?} serialised to {} bytes which do not parse: {e}", s1.len()),
                    ));
                }
                None => return Err(("request/stall".into(), "reparse stalled".into())),
            };
            let v2 = req_view(&r2);
            if v2 != v1 {
                return Err(("request/roundtrip-mismatch".into(), format!("{v1:?} -> {s1:02x?} -> {v2:?}")));
            }
            if rd2.pos != s1.len() {
                return Err(("request/roundtrip-leftover".into(), format!("{} of {} bytes", rd2.pos, s1.len())));
            }
            let s2 = ser_req(r2)?;
            if s2 != s1 {
                return Err(("request/serialize-unstable".into(), format!("{s1:02x?} vs {s2:02x?}")));
            }
            Ok(true)
        }
    }
}

fn ser_resp(r: KeyExchangeResponse<'_>) -> Result<Vec<u8>, (String, String)> {
    let mut out = Vec::new();
    match poll_now(r.serialize(&mut out)) {
        Some(Ok(())) => Ok(out),
        Some(Err(e)) => Err(("response/serialize-error".into(), format!("accepted response does not serialise: {e}"))),
        None => Err(("response/stall".into(), "serialize stalled".into())),
    }
}

fn check_response(case: &Case, l: &mut Labels) -> Result<bool, (String, String)> {
    let stream = &case.stream;
    let mut rd = CountingReader::new(stream, case.chunk as usize);
    let Some(res) = poll_now(KeyExchangeResponse::parse(&mut rd)) else {
        return Err(("response/stall".into(), "response parse future returned Pending on an always-ready reader".into()));
    };
    let consumed = rd.pos;
    size_labels(l, stream, consumed);
    if consumed > MAX_MESSAGE {
        return Err((
            "response/consumed>4096".into(),
            format!("response parse consumed {consumed} bytes of a {}-byte stream", stream.len()),
        ));
    }
    if case.chunk != 0 {
        let mut rd0 = CountingReader::new(stream, 0);
        let res0 = poll_now(KeyExchangeResponse::parse(&mut rd0)).ok_or_else(|| ("response/stall".to_string(), "stall".to_string()))?;
        let same = match (&res, &res0) {
            (Ok(a), Ok(b)) => resp_view(a) == resp_view(b) && rd0.pos == consumed,
            (Err(_), Err(_)) => true,
            _ => false,
        };
        if !same {
            return Err((
                "response/chunk-dependent".into(),
                format!("chunked ({}) and unchunked parse disagree", case.chunk),
            ));
        }
    }
    match res {
        Err(e) => {
            l.add(err_class(&e));
            Ok(consumed == MAX_MESSAGE)
        }
        Ok(r) => {
            l.add("response-accepted");
            let v1 = resp_view(&r);
            l.add_if(v1.cookies.len() == 8, "resp:8-cookies");
            l.add_if(v1.cookies.is_empty(), "resp:0-cookies");
            l.add_if(v1.server.is_some() || v1.port.is_some(), "resp:server/port");
            let s1 = ser_resp(r)?;
            let mut rd2 = CountingReader::new(&s1, 0);
            let r2 = match poll_now(KeyExchangeResponse::parse(&mut rd2)) {
                Some(Ok(r2)) => r2,
                Some(Err(e)) => {
                    return Err((
                        "response/reparse-error".into(),
                        format!("{v1:?} serialised to {} bytes which do not parse: {e}", s1.len()),
                    ));
                }
                None => return Err(("response/stall".into(), "reparse stalled".into())),
            };
            let v2 = resp_view(&r2);
            if v2 != v1 {
                return Err(("response/roundtrip-mismatch".into(), format!("{v1:?} -> {s1:02x?} -> {v2:?}")));
            }
            if rd2.pos != s1.len() {
                return Err(("response/roundtrip-leftover".into(), format!("{} of {} bytes", rd2.pos, s1.len())));
            }
            let s2 = ser_resp(r2)?;
            if s2 != s1 {
                return Err(("response/serialize-unstable".into(), format!("{s1:02x?} vs {s2:02x?}")));
            }
            Ok(true)
        }
    }
}

fn padded_message(head: Vec<u8>, total: usize, filler_ty: u16) -> Vec<u8> {
    let mut b = head;
    let l = total - b.len() - 8;
    b.extend(rec(filler_ty, &vec![0x5A; l]));
    b.extend(rec(T_EOM | CRIT, &[]));
    assert_eq!(b.len(), total);
    b
}

impl Property for C30 {
    type Case = Case;
    const ID: &'static str = "C30";
    const RULE: &'static str = "byte streams built from an independent NTS-KE record codec: templates (key-exchange / fixed-key / support requests, responses with 0..10 cookies, record soup, single records) with optional duplicated record, rotation, filler to land the end-of-message at 4088..4104 / 8192 bytes, end-of-message variants (critical, non-critical, with body, absent), trailing bytes or a second message, truncation, byte flips; fed to the record, request or response parser through a counting reader with chunk sizes {all,1,2,3,5,7,64,511}. NON-TRIVIAL: the parser accepted the stream (the round trip was executed) or it read up to the 4096-byte cap.";
    const ASSUMPTIONS: &'static [&'static str] = &[
        "the reader is always ready (Pending is never returned); totality under an arbitrarily slow peer is the caller's timeout",
        "round trip for requests/responses compares all public fields (keys via Cipher::key_bytes)",
        "records additionally: type, body and (for unknown types) critical bit survive parse→serialise (information preservation; added after a lossy-parser mutant survived the value round trip)",
    ];
    const QUICK_CASES: u32 = 1_000_000;
    const THOROUGH_CASES: u32 = 66_000_000;

    fn strategy(_tier: Tier) -> BoxedStrategy<Case> {
        shape().prop_map(assemble).boxed()
    }

    fn enumerate(_tier: Tier) -> Vec<Case> {
        let mut v = Vec::new();
        let ke_head = [rec(T_NEXT_PROTO | CRIT, &u16s(&[PROTO_V4])), rec(T_AEAD | CRIT, &u16s(&[ALG_256]))].concat();
        for total in [4095usize, 4096, 4097, 4100, 8192] {
            for (sel, filler) in [(1u8, 0x0400u16), (2, 0x0400), (2, T_COOKIE), (1, T_DENY)] {
                for chunk in [0u16, 7] {
                    v.push(Case {
                        sel,
                        chunk,
                        stream: padded_message(ke_head.clone(), total, filler),
                    });
                }
            }
        }
        // endless non-critical records (no end of message), 3 × 4096 bytes
        let mut endless = ke_head.clone();
        while endless.len() < 3 * 4096 {
            endless.extend(rec(0x0400, &[0; 60]));
        }
        for sel in [1u8, 2] {
            v.push(Case { sel, chunk: 0, stream: endless.clone() });
            v.push(Case { sel, chunk: 511, stream: endless.clone() });
        }
        // one record claiming 65535 bytes
        for ty in [T_EOM, T_COOKIE, T_SERVER, T_KEEP_ALIVE, 0x0400, T_FIXED_KEY, T_NEXT_PROTO, T_SUPP_ALG] {
            let big = rec(ty, &vec![0x41; 65535]);
            for sel in [0u8, 1, 2] {
                v.push(Case { sel, chunk: 0, stream: big.clone() });
            }
        }
        for sel in [0u8, 1, 2] {
            v.push(Case { sel, chunk: 0, stream: vec![] });
            v.push(Case { sel, chunk: 1, stream: vec![0x80] });
        }
        v
    }

    fn enumeration_note() -> Option<&'static str> {
        Some("boundary cases: well-formed request/response whose end-of-message ends at 4095/4096/4097/4100/8192 bytes (filler: unknown record, cookie, deny), endless non-critical records, single records declaring 65535 bytes, empty/one-byte streams")
    }

    fn check(case: &Case) -> Outcome {
        let mut l = Labels::default();
        let (name, r) = match case.sel % 3 {
            0 => ("sel:record", check_record(case, &mut l)),
            1 => ("sel:request", check_request(case, &mut l)),
            _ => ("sel:response", check_response(case, &mut l)),
        };
        l.add(name);
        l.add_if(case.chunk != 0, "chunked");
        match r {
            Ok(nontrivial) => Outcome::pass(nontrivial).labels(l.0),
            Err((sig, what)) => Outcome::fail(sig, what).labels(l.0),
        }
    }

    fn from_bytes(data: &[u8]) -> Option<Case> {
        let (&b, rest) = data.split_first()?;
        Some(Case {
            sel: b % 3,
            chunk: CHUNKS[(b as usize / 3) % CHUNKS.len()],
            stream: rest.to_vec(),
        })
    }
}
