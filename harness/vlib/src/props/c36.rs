//! C36 — spawn pacing (at most one spawn attempt per 1 s network wait period, and it keeps attempting
//! at that pace while incomplete) and removal reasons of the standard single-server spawner
//! (never respawns a demobilised source, re-resolves after an unreachable removal).
//!
//! Everything runs under the REAL `spawner_task` on a paused tokio clock. The spawner is wrapped in
//! the recording wrapper `w_spawn::Rec` (pure delegation), the harness plays the system.
//!
//! Mode `Nts` runs the real NTS single-server spawner against a scripted NTS-KE server on a loopback TCP
//! port (`w_ntsked`: real TCP + TLS; virtual time stands still while a spawn attempt runs and moves only by
//! the scripted per-exchange delays), and checks the same pacing rules plus: no respawn (not even a new key
//! exchange) after a Demobilized removal, a new resolution + key exchange after an Unreachable removal.
use std::net::{IpAddr, Ipv4Addr, SocketAddr};
use std::time::Duration;

use crate::engine::*;
use crate::w_dns::{self, Answer};
use crate::w_ntsked::{self, KeAnswer, KeDns, NDns, Reply};
use crate::w_spawn::{Kind, LogEv, Rec, pacing_oracle};
use ntp_proto::{ClockId, ProtocolVersion, SourceConfig};
use ntpd::verif_hook::spawn_hook as sh;
use proptest::prelude::*;
use serde::{Deserialize, Serialize};
use sh::Spawner;
use tokio::sync::mpsc;
use tokio::time::Instant;

pub struct C36;

pub const HOST: &str = "c36-standard.verif.test";
const PORT: u16 = 123;

// ---------------------------------------------------------------------------------------------
// case

#[derive(Debug, Clone, Serialize, Deserialize)]
pub enum Case {
    Mock(MockCase),
    Standard(StdCase),
    PoolTask(PoolTaskCase),
    Nts(NtsCase),
}

#[derive(Debug, Clone, Copy, Serialize, Deserialize, PartialEq, Eq)]
pub struct Attempt {
    /// virtual time the attempt takes (0 = returns without awaiting anything)
    pub dur_us: u32,
    /// sources gained by the attempt (0 = the attempt failed, spawner stays as incomplete as before)
    pub gain: u8,
    /// the attempt returns `Err` (ends the spawner task)
    pub err: bool,
}

#[derive(Debug, Clone, Copy, Serialize, Deserialize, PartialEq, Eq)]
pub enum Ev {
    /// only let time pass
    Nothing,
    Registered,
    /// reason: 0 NetworkIssue, 1 Unreachable, 2 Demobilized
    Removed(u8),
    Idle,
}

#[derive(Debug, Clone, Copy, Serialize, Deserialize, PartialEq, Eq)]
pub struct Step {
    pub sleep_ms: u32,
    /// sub-millisecond clock jitter added after the sleep (0..1000 us)
    pub jitter_us: u16,
    pub ev: Ev,
}

#[derive(Debug, Clone, Serialize, Deserialize)]
pub struct MockCase {
    /// sources the mock wants (1000 = never complete)
    pub want: u32,
    pub have: u32,
    /// attempt k behaves like `attempts[k % len]`
    pub attempts: Vec<Attempt>,
    pub sched: Vec<Step>,
    /// how long the task is kept running after the last step
    pub tail_ms: u32,
}

#[derive(Debug, Clone, Serialize, Deserialize, PartialEq, Eq)]
pub enum Dns {
    /// last octets of 127.0.0.x, in this order
    Addrs(Vec<u8>),
    NoName,
    Again,
}

/// how the "system" treats the n-th source the spawner creates
#[derive(Debug, Clone, Copy, Serialize, Deserialize, PartialEq, Eq)]
pub struct React {
    /// send SourceRegistered this long after the create event
    pub reg_ms: Option<u32>,
    /// send SourceRemoved(reason) this long after the create event (not before the registration)
    pub rem: Option<(u32, u8)>,
}

#[derive(Debug, Clone, Serialize, Deserialize)]
pub struct StdCase {
    pub answers: Vec<Dns>,
    pub reacts: Vec<React>,
    /// Idle notifications at these cumulative delays
    pub idles: Vec<u32>,
    pub start_jitter_us: u16,
    pub run_ms: u32,
}

fn reason(r: u8) -> sh::SourceRemovalReason {
    match r % 3 {
        0 => sh::SourceRemovalReason::NetworkIssue,
        1 => sh::SourceRemovalReason::Unreachable,
        _ => sh::SourceRemovalReason::Demobilized,
    }
}

fn ms_strategy(max: u32) -> BoxedStrategy<u32> {
    prop_oneof![
        3 => 0u32..=5,
        3 => prop::sample::select(vec![1u32, 499, 500, 998, 999, 1000, 1001, 1002, 1999, 2000, 2001]),
        3 => 0u32..=max,
    ]
    .boxed()
}

fn attempt_strategy() -> impl Strategy<Value = Attempt> {
    (
        prop_oneof![
            3 => Just(0u32),
            2 => (1u32..20).prop_map(|m| m * 1000),
            2 => prop::sample::select(vec![999_000u32, 1_000_000, 1_001_000, 5_000_000]),
            2 => 0u32..4_000_000,
        ],
        prop_oneof![3 => Just(0u8), 3 => Just(1u8), 1 => Just(2u8)],
        prop_oneof![30 => Just(false), 1 => Just(true)],
    )
        .prop_map(|(dur_us, gain, err)| Attempt { dur_us, gain, err })
}

fn ev_strategy() -> impl Strategy<Value = Ev> {
    prop_oneof![
        2 => Just(Ev::Nothing),
        2 => Just(Ev::Registered),
        5 => (0u8..3).prop_map(Ev::Removed),
        2 => Just(Ev::Idle),
    ]
}

fn step_strategy() -> impl Strategy<Value = Step> {
    (ms_strategy(3000), prop_oneof![3 => Just(0u16), 1 => 1u16..1000], ev_strategy())
        .prop_map(|(sleep_ms, jitter_us, ev)| Step { sleep_ms, jitter_us, ev })
}

fn mock_strategy(tier: Tier) -> impl Strategy<Value = MockCase> {
    let n = tier.pick(30usize, 60usize);
    (
        prop_oneof![1 => Just(0u32), 4 => 1u32..=3, 2 => Just(1000u32)],
        0u32..=3,
        prop::collection::vec(attempt_strategy(), 1..6),
        prop::collection::vec(step_strategy(), 0..n),
        ms_strategy(5000),
    )
        .prop_map(|(want, have, attempts, sched, tail_ms)| MockCase { want, have, attempts, sched, tail_ms })
}

fn std_strategy(tier: Tier) -> impl Strategy<Value = StdCase> {
    let n = tier.pick(8usize, 16usize);
    let dns = prop_oneof![
        6 => prop::collection::vec(1u8..=6, 1..4).prop_map(Dns::Addrs),
        1 => Just(Dns::NoName),
        1 => Just(Dns::Again),
    ];
    let react = (
        prop::option::weighted(0.7, ms_strategy(1500)),
        prop::option::weighted(0.9, (ms_strategy(2500), 0u8..3)),
    )
        .prop_map(|(reg_ms, rem)| React { reg_ms, rem });
    (
        prop::collection::vec(dns, 1..5),
        prop::collection::vec(react, 0..n),
        prop::collection::vec(ms_strategy(3000), 0..5),
        prop_oneof![2 => Just(0u16), 1 => 1u16..1000],
        prop_oneof![1 => 0u32..3000, 3 => 3000u32..30_000],
    )
        .prop_map(|(answers, reacts, idles, start_jitter_us, run_ms)| StdCase { answers, reacts, idles, start_jitter_us, run_ms })
}

// ---------------------------------------------------------------------------------------------
// mock spawner

#[derive(Debug)]
pub struct MockError;
impl std::fmt::Display for MockError {
    fn fmt(&self, f: &mut std::fmt::Formatter<'_>) -> std::fmt::Result {
        write!(f, "scripted spawn error")
    }
}
impl std::error::Error for MockError {}

struct Mock {
    id: sh::SpawnerId,
    want: u32,
    have: u32,
    attempts: Vec<Attempt>,
    k: usize,
}

impl sh::Spawner for Mock {
    type Error = MockError;

    async fn try_spawn(&mut self, _action_tx: &mpsc::Sender<sh::SpawnEvent>) -> Result<(), MockError> {
        let a = self.attempts[self.k % self.attempts.len()];
        self.k += 1;
        if a.dur_us > 0 {
            tokio::time::sleep(Duration::from_micros(a.dur_us as u64)).await;
        }
        if a.err {
            return Err(MockError);
        }
        self.have = self.have.saturating_add(a.gain as u32);
        Ok(())
    }

    fn is_complete(&self) -> bool {
        self.have >= self.want
    }

    async fn handle_source_removed(&mut self, event: sh::SourceRemovedEvent) -> Result<(), MockError> {
        // bookkeeping only: a demobilised source is not replaced, any other removal is
        if event.reason != sh::SourceRemovalReason::Demobilized {
            self.have = self.have.saturating_sub(1);
        }
        Ok(())
    }

    fn get_id(&self) -> sh::SpawnerId {
        self.id
    }
    fn get_addr_description(&self) -> String {
        "mock".into()
    }
    fn get_description(&self) -> &'static str {
        "mock"
    }
}

fn sock_params() -> sh::SourceCreateParameters {
    sh::SourceCreateParameters::Sock(ntpd::verif_hook::spawn_hook::SockSourceCreateParameters {
        id: ClockId::new(),
        path: "/nonexistent/c36".into(),
        config: SourceConfig::default(),
        precision: 1e-3,
        accuracy: 1e-3,
    })
}

fn us(t0: Instant) -> u64 {
    Instant::now().duration_since(t0).as_micros() as u64
}

async fn run_mock(c: &MockCase) -> Outcome {
    let mut labels = Labels::default();
    let t0 = Instant::now();
    let mock = Mock {
        id: sh::SpawnerId::new(),
        want: c.want,
        have: c.have,
        attempts: c.attempts.clone(),
        k: 0,
    };
    let (rec, log) = Rec::new(mock, t0, None);
    let initially_complete = rec.is_complete();
    let (action_tx, _action_rx) = mpsc::channel::<sh::SpawnEvent>(sh::MESSAGE_BUFFER_SIZE);
    let (notify_tx, notify_rx) = mpsc::channel::<sh::SystemEvent>(sh::MESSAGE_BUFFER_SIZE);
    let task = tokio::spawn(sh::spawner_task(rec, action_tx, notify_rx));

    let mut sent = 0usize;
    'sched: for s in &c.sched {
        if s.sleep_ms > 0 {
            tokio::time::sleep(Duration::from_millis(s.sleep_ms as u64)).await;
        }
        if s.jitter_us > 0 {
            tokio::time::advance(Duration::from_micros(s.jitter_us as u64)).await;
        }
        let ev = match s.ev {
            Ev::Nothing => {
                tokio::task::yield_now().await;
                continue;
            }
            Ev::Registered => sh::SystemEvent::SourceRegistered(sock_params()),
            Ev::Removed(r) => sh::SystemEvent::source_removed(ClockId::new(), reason(r)),
            Ev::Idle => sh::SystemEvent::Idle,
        };
        if notify_tx.send(ev).await.is_err() {
            // the task has ended (scripted error)
            break 'sched;
        }
        sent += 1;
    }
    if c.tail_ms > 0 {
        tokio::time::sleep(Duration::from_millis(c.tail_ms as u64)).await;
    }
    // let the task consume what is already due at this instant before the channel closes
    tokio::task::yield_now().await;
    let closed_at = us(t0);
    drop(notify_tx);
    let res = match task.await {
        Ok(r) => r,
        Err(e) => std::panic::resume_unwind(e.into_panic()),
    };

    let log = log.lock().unwrap().clone();
    let scripted_err = log.iter().any(|e| matches!(e, LogEv::TryEnd { err: true, .. }));
    let alive_until = if res.is_ok() { Some(closed_at) } else { None };
    let st = match pacing_oracle(&log, initially_complete, alive_until) {
        Ok(st) => st,
        Err((sig, what)) => return Outcome::fail(format!("mock/{sig}"), what),
    };
    let handled = log.iter().filter(|e| matches!(e, LogEv::Handled { .. })).count();
    let _ = sent;
    labels.add("mock");
    labels.add_if(st.attempts == 0, "no-attempt");
    labels.add_if(st.paced_retries > 0, "paced-retry");
    labels.add_if(st.immediate > 0, "immediate-after-event");
    labels.add_if(st.delayed_by_ticket > 0, "event-delayed-by-ticket");
    labels.add_if(scripted_err, "spawner-error-ends-task");
    labels.add_if(c.want >= 1000, "never-complete");
    labels.add_if(
        log.iter().any(|e| matches!(e, LogEv::TryEnd { complete: true, .. })),
        "became-complete",
    );
    labels.add_if(c.attempts.iter().any(|a| a.dur_us >= 1_000_000), "slow-attempt");
    Outcome::pass(st.attempts >= 2 && handled >= 1).labels(labels.0)
}

// ---------------------------------------------------------------------------------------------
// standard spawner with scripted DNS

fn to_answer(d: &Dns) -> Answer {
    match d {
        Dns::Addrs(v) => Answer::Addrs(v.iter().map(|o| IpAddr::V4(Ipv4Addr::new(127, 0, 0, *o))).collect()),
        Dns::NoName => Answer::NoName,
        Dns::Again => Answer::Again,
    }
}

/// Number of spawn attempts of a single-server spawner that turned it from incomplete to complete. Each such
/// attempt must have produced a source: a spawner that reports completion without one is never asked again
/// (nothing can be removed that would reset it), which silently ends the "keeps attempting while incomplete" duty.
fn completing_attempts(log: &[LogEv], initially_complete: bool) -> usize {
    let mut complete = initially_complete;
    let mut before = complete;
    let mut n = 0;
    for ev in log {
        match *ev {
            LogEv::TryStart { .. } => before = complete,
            LogEv::TryEnd { complete: c, .. } => {
                if c && !before {
                    n += 1;
                }
                complete = c;
            }
            LogEv::Handled { complete: c, .. } => complete = c,
        }
    }
    n
}

struct Created<A> {
    t: u64,
    addr: SocketAddr,
    /// protocol version the source was created with (Debug rendering)
    proto: String,
    dns: usize,
    /// caller-defined observation taken when the system received the create event
    aux: A,
}

struct Removal<A> {
    t_sent: u64,
    reason: u8,
    dns_at_send: usize,
    /// index of the removed source in `created`
    source: usize,
    /// caller-defined observation taken when the removal notification was sent
    aux_at_send: A,
}

enum Due {
    Register(sh::SourceCreateParameters),
    Remove { id: ClockId, reason: u8, source: usize },
    Idle,
}

/// what the scripted "system" observed while the real `spawner_task` ran
struct Driven<A> {
    log: Vec<LogEv>,
    created: Vec<Created<A>>,
    removals: Vec<Removal<A>>,
    /// creations / removal notifications in the order the system processed them: (is_create, source index)
    timeline: Vec<(bool, usize)>,
    closed_at: u64,
    initially_complete: bool,
}

/// Run `spawner` under the real `spawner_task` (paused clock) against a scripted system: the n-th created
/// source is registered / removed as `reacts[n]` says, Idle notifications arrive at `idles`, the
/// notification channel is closed after `run_ms`.
async fn drive<S: sh::Spawner + Send + 'static, A>(
    make: impl FnOnce() -> S,
    host: &'static str,
    reacts: &[React],
    idles: &[u32],
    start_jitter_us: u16,
    run_ms: u32,
    tag: &'static str,
    probe: &dyn Fn() -> A,
) -> Result<Driven<A>, Outcome> {
    let t0 = Instant::now();
    if start_jitter_us > 0 {
        tokio::time::advance(Duration::from_micros(start_jitter_us as u64)).await;
    }
    let (rec, log) = Rec::new(make(), t0, Some(host));
    let initially_complete = rec.is_complete();
    let (action_tx, mut action_rx) = mpsc::channel::<sh::SpawnEvent>(sh::MESSAGE_BUFFER_SIZE);
    let (notify_tx, notify_rx) = mpsc::channel::<sh::SystemEvent>(sh::MESSAGE_BUFFER_SIZE);
    let task = tokio::spawn(sh::spawner_task(rec, action_tx, notify_rx));

    // pending notifications ordered by (due time, sequence number)
    let mut pending: Vec<(Instant, u64, Due)> = Vec::new();
    let mut seq = 0u64;
    let start = Instant::now();
    let mut acc = 0u64;
    for d in idles {
        acc += *d as u64;
        pending.push((start + Duration::from_millis(acc), seq, Due::Idle));
        seq += 1;
    }
    let t_end = start + Duration::from_millis(run_ms as u64);

    let mut created: Vec<Created<A>> = Vec::new();
    let mut removals: Vec<Removal<A>> = Vec::new();
    let mut timeline: Vec<(bool, usize)> = Vec::new();
    let mut task_gone = false;

    let on_create = |ev: sh::SpawnEvent,
                     created: &mut Vec<Created<A>>,
                     timeline: &mut Vec<(bool, usize)>,
                     pending: &mut Vec<(Instant, u64, Due)>,
                     seq: &mut u64|
     -> Result<(), Outcome> {
        let sh::SpawnAction::Create(params) = ev.action;
        let sh::SourceCreateParameters::Ntp(p) = &params else {
            return Err(Outcome::fail(format!("{tag}/non-ntp-create"), "unexpected create parameters"));
        };
        let n = created.len();
        created.push(Created { t: us(t0), addr: p.addr, proto: format!("{:?}", p.protocol_version), dns: w_dns::calls(host), aux: probe() });
        timeline.push((true, n));
        let id = p.id;
        let now = Instant::now();
        if let Some(r) = reacts.get(n) {
            let reg = r.reg_ms.map(|m| now + Duration::from_millis(m as u64));
            if let Some((m, reason)) = r.rem {
                let mut due = now + Duration::from_millis(m as u64);
                if let Some(rg) = reg {
                    due = due.max(rg);
                }
                // sequence numbers keep the registration in front of the removal at equal times
                pending.push((due, *seq + 1, Due::Remove { id, reason, source: n }));
            }
            if let Some(rg) = reg {
                pending.push((rg, *seq, Due::Register(params)));
            }
            *seq += 2;
        }
        Ok(())
    };

    loop {
        pending.sort_by_key(|p| (p.0, p.1));
        let next_due = pending.first().map(|p| p.0);
        let now = Instant::now();
        if now >= t_end {
            break;
        }
        if let Some(d) = next_due {
            if d <= now {
                let (_, _, due) = pending.remove(0);
                let ev = match due {
                    Due::Register(p) => sh::SystemEvent::SourceRegistered(p),
                    Due::Remove { id, reason: r, source } => {
                        removals.push(Removal {
                            t_sent: us(t0),
                            reason: r % 3,
                            dns_at_send: w_dns::calls(host),
                            source,
                            aux_at_send: probe(),
                        });
                        timeline.push((false, source));
                        sh::SystemEvent::source_removed(id, reason(r))
                    }
                    Due::Idle => sh::SystemEvent::Idle,
                };
                if notify_tx.send(ev).await.is_err() {
                    task_gone = true;
                    break;
                }
                continue;
            }
        }
        let wake = next_due.map(|d| d.min(t_end)).unwrap_or(t_end);
        tokio::select! {
            biased;
            ev = action_rx.recv() => {
                match ev {
                    Some(ev) => on_create(ev, &mut created, &mut timeline, &mut pending, &mut seq)?,
                    None => { task_gone = true; break; }
                }
            }
            _ = tokio::time::sleep_until(wake) => {}
        }
    }
    tokio::task::yield_now().await;
    let closed_at = us(t0);
    drop(notify_tx);
    let res = match task.await {
        Ok(r) => r.map_err(|e| e.to_string()),
        Err(e) => std::panic::resume_unwind(e.into_panic()),
    };
    // creates that were emitted while the channel was being closed
    while let Ok(ev) = action_rx.try_recv() {
        on_create(ev, &mut created, &mut timeline, &mut pending, &mut seq)?;
    }
    if res.is_err() || task_gone {
        return Err(Outcome::fail(
            format!("{tag}/task-ended-by-itself"),
            format!("spawner_task ended although both channels were open: {res:?}"),
        ));
    }
    let log = log.lock().unwrap().clone();
    Ok(Driven { log, created, removals, timeline, closed_at, initially_complete })
}

async fn run_std(c: &StdCase) -> Outcome {
    let mut labels = Labels::default();
    w_dns::reset();
    w_dns::script(HOST, c.answers.iter().map(to_answer).collect());
    let make = || {
        sh::StandardSpawner::new(
            sh::StandardSource {
                address: sh::NtpAddress(sh::normalized_address(HOST, PORT)),
                ntp_version: ProtocolVersion::V4,
            },
            SourceConfig::default(),
        )
    };
    let d = match drive(make, HOST, &c.reacts, &c.idles, c.start_jitter_us, c.run_ms, "standard", &|| ()).await {
        Ok(d) => d,
        Err(o) => return o,
    };
    let Driven { log, created, removals, closed_at, initially_complete, .. } = d;
    // ---- pacing
    let st = match pacing_oracle(&log, initially_complete, Some(closed_at)) {
        Ok(st) => st,
        Err((sig, what)) => return Outcome::fail(format!("standard/{sig}"), what),
    };
    if completing_attempts(&log, initially_complete) > created.len() {
        return Outcome::fail(
            "standard/complete-without-a-source",
            format!("{} spawn attempts left the spawner complete but only {} sources were created", completing_attempts(&log, initially_complete), created.len()),
        );
    }

    // ---- removal reasons
    // k-th Handled(Removed) in the log belongs to the k-th removal sent (the channel is FIFO)
    let handled_removed: Vec<usize> = log
        .iter()
        .enumerate()
        .filter(|(_, e)| matches!(e, LogEv::Handled { kind: Kind::Removed, .. }))
        .map(|(i, _)| i)
        .collect();
    for (k, rm) in removals.iter().enumerate() {
        let later_creates: Vec<&Created<()>> = created.iter().skip(rm.source + 1).collect();
        match rm.reason {
            2 => {
                labels.add("demobilized");
                if let Some(cr) = later_creates.first() {
                    return Outcome::fail(
                        "standard/respawn-after-demobilize",
                        format!(
                            "source #{} was removed as Demobilized at {} us, but a new source for {} was created at {} us",
                            rm.source, rm.t_sent, cr.addr, cr.t
                        ),
                    );
                }
            }
            1 => {
                labels.add("unreachable");
                // the first completed attempt after the removal was handled must have called the resolver
                if let Some(&hi) = handled_removed.get(k) {
                    let next_end = log[hi..].iter().find_map(|e| match e {
                        LogEv::TryEnd { dns, t, .. } => Some((*dns, *t)),
                        _ => None,
                    });
                    if let Some((dns_after, t)) = next_end {
                        labels.add("attempt-after-unreachable");
                        if dns_after <= rm.dns_at_send {
                            return Outcome::fail(
                                "standard/no-lookup-after-unreachable",
                                format!(
                                    "Unreachable removal sent at {} us ({} lookups so far); the next spawn attempt ended at {t} us \
                                     without a new lookup",
                                    rm.t_sent, rm.dns_at_send
                                ),
                            );
                        }
                    } else {
                        // no attempt at all after the removal: only legal if the task was not run long
                        // enough for the next paced attempt (handled time, previous attempt end + 1 s)
                        let handled_t = match log[hi] {
                            LogEv::Handled { t, .. } => t,
                            _ => unreachable!(),
                        };
                        let prev_end = log[..hi].iter().rev().find_map(|e| match e {
                            LogEv::TryEnd { t, .. } => Some(*t),
                            _ => None,
                        });
                        let deadline = prev_end.map(|e| handled_t.max(e + crate::w_spawn::PERIOD_US)).unwrap_or(handled_t);
                        if closed_at > deadline + crate::w_spawn::TOL_US {
                            return Outcome::fail(
                                "standard/no-attempt-after-unreachable",
                                format!(
                                    "Unreachable removal handled at {handled_t} us, previous attempt ended at {prev_end:?} us; the name was \
                                     never resolved again although the task ran until {closed_at} us"
                                ),
                            );
                        }
                        labels.add("run-ended-before-retry");
                    }
                }
                if let Some(cr) = later_creates.first() {
                    labels.add("respawn-after-unreachable");
                    let fresh = cr.dns > rm.dns_at_send;
                    let from_last_answer = match w_dns::answer_of_call(HOST, cr.dns.saturating_sub(1)) {
                        Some(Answer::Addrs(a)) => a.contains(&cr.addr.ip()),
                        _ => false,
                    };
                    if !fresh || !from_last_answer {
                        return Outcome::fail(
                            "standard/respawn-after-unreachable-uses-stale-address",
                            format!(
                                "Unreachable removal at {} us with {} lookups; next source {} created at {} us with {} lookups \
                                 (address in latest answer: {from_last_answer})",
                                rm.t_sent, rm.dns_at_send, cr.addr, cr.t, cr.dns
                            ),
                        );
                    }
                }
            }
            _ => {
                labels.add("network-issue");
                if let Some(cr) = later_creates.first() {
                    labels.add_if(cr.dns == rm.dns_at_send, "respawn-without-lookup");
                }
            }
        }
    }

    labels.add("standard");
    labels.add_if(created.len() >= 2, "respawned");
    labels.add_if(created.is_empty(), "never-created");
    labels.add_if(st.paced_retries > 0, "paced-retry");
    labels.add_if(st.immediate > 0, "immediate-after-event");
    labels.add_if(st.delayed_by_ticket > 0, "event-delayed-by-ticket");
    labels.add_if(
        log.iter().any(|e| matches!(e, LogEv::TryEnd { complete: false, .. })),
        "failed-lookup-attempt",
    );
    let nontrivial = st.attempts >= 2 && !removals.is_empty() && handled_removed.len() >= 1;
    Outcome::pass(nontrivial).labels(labels.0)
}

// ---------------------------------------------------------------------------------------------
// real pool spawner under the real task (pacing of a multi-source spawner + the C35 invariants)

#[derive(Debug, Clone, Serialize, Deserialize)]
pub struct PoolTaskCase {
    pub count: usize,
    /// ignored addresses (indices into the C35 universe)
    pub ignore: Vec<u8>,
    pub answers: Vec<super::c35::Dns>,
    pub reacts: Vec<React>,
    pub idles: Vec<u32>,
    pub start_jitter_us: u16,
    pub run_ms: u32,
}

fn pool_task_strategy(tier: Tier) -> impl Strategy<Value = PoolTaskCase> {
    let n = tier.pick(12usize, 24usize);
    let dns = prop_oneof![
        8 => prop::collection::vec(0u8..8, 0..6).prop_map(super::c35::Dns::Addrs),
        1 => Just(super::c35::Dns::NoName),
        1 => Just(super::c35::Dns::Again),
    ];
    let react = (
        prop::option::weighted(0.7, ms_strategy(1500)),
        prop::option::weighted(0.8, (ms_strategy(4000), 0u8..3)),
    )
        .prop_map(|(reg_ms, rem)| React { reg_ms, rem });
    (
        1usize..=4,
        prop::collection::vec(0u8..8, 0..3),
        prop::collection::vec(dns, 1..5),
        prop::collection::vec(react, 0..n),
        prop::collection::vec(ms_strategy(3000), 0..4),
        prop_oneof![2 => Just(0u16), 1 => 1u16..1000],
        3000u32..25_000,
    )
        .prop_map(|(count, ignore, answers, reacts, idles, start_jitter_us, run_ms)| PoolTaskCase {
            count,
            ignore,
            answers,
            reacts,
            idles,
            start_jitter_us,
            run_ms,
        })
}

async fn run_pool(c: &PoolTaskCase) -> Outcome {
    use super::c35;
    let mut labels = Labels::default();
    w_dns::reset();
    w_dns::script(c35::HOST, c.answers.iter().map(c35::to_answer).collect());
    let ignore: Vec<IpAddr> = c.ignore.iter().map(|i| c35::universe(*i)).collect();
    let cfg = sh::PoolSourceConfig {
        addr: sh::NtpAddress(sh::normalized_address(c35::HOST, PORT)),
        count: c.count,
        ignore: ignore.clone(),
        ntp_version: ProtocolVersion::V4,
    };
    let make = || sh::PoolSpawner::new(cfg, SourceConfig::default());
    let d = match drive(make, c35::HOST, &c.reacts, &c.idles, c.start_jitter_us, c.run_ms, "pool-task", &|| ()).await {
        Ok(d) => d,
        Err(o) => return o,
    };
    let st = match pacing_oracle(&d.log, d.initially_complete, Some(d.closed_at)) {
        Ok(st) => st,
        Err((sig, what)) => return Outcome::fail(format!("pool-task/{sig}"), what),
    };
    // C35 invariants on the system's view of the active set (a subset of the spawner's own view,
    // because removal notifications are processed by the spawner later than they are sent)
    let mut active: Vec<usize> = Vec::new();
    for (is_create, n) in &d.timeline {
        if !*is_create {
            active.retain(|x| x != n);
            continue;
        }
        let addr = d.created[*n].addr;
        if ignore.contains(&addr.ip()) {
            return Outcome::fail("pool-task/ignored-address-spawned", format!("source for ignored address {addr}"));
        }
        if active.iter().any(|m| d.created[*m].addr == addr) {
            return Outcome::fail("pool-task/duplicate-active-address", format!("two active sources for {addr}"));
        }
        active.push(*n);
        if active.len() > c.count {
            return Outcome::fail(
                "pool-task/more-active-than-count",
                format!("{} active sources, count {}", active.len(), c.count),
            );
        }
        labels.add_if(active.len() == c.count, "pool-full");
    }
    labels.add("pool-task");
    labels.add_if(d.created.len() >= 2, "respawned");
    labels.add_if(d.created.is_empty(), "never-created");
    labels.add_if(st.paced_retries > 0, "paced-retry");
    labels.add_if(st.immediate > 0, "immediate-after-event");
    labels.add_if(st.delayed_by_ticket > 0, "event-delayed-by-ticket");
    labels.add_if(
        d.log.iter().any(|e| matches!(e, LogEv::TryEnd { complete: false, .. })),
        "attempt-left-pool-incomplete",
    );
    Outcome::pass(st.attempts >= 2 && !d.removals.is_empty()).labels(labels.0)
}


// ---------------------------------------------------------------------------------------------
// real NTS single-server spawner under the real task, against the scripted KE server of `w_ntsked`
// (real TCP + TLS on loopback; virtual time stands still during spawn attempts, see `w_ntsked::Spin`)

#[derive(Debug, Clone, Serialize, Deserialize)]
pub struct NtsCase {
    /// resolver answers for the KE host name
    pub ke_dns: Vec<KeDns>,
    /// answer of key exchange k is `ke[k % len]` (`delay_ms`: virtual time the exchange takes)
    pub ke: Vec<KeAnswer>,
    /// resolver answers for the NTP names the KE server hands out
    pub hosts: Vec<Vec<NDns>>,
    pub reacts: Vec<React>,
    pub idles: Vec<u32>,
    pub start_jitter_us: u16,
    pub run_ms: u32,
    /// configured `ntp-version` of the source: 0 = 4, 1 = 5, 2 = auto
    #[serde(default)]
    pub ntp_version: u8,
    /// the key-exchange server picks NTPv4 whenever the client offers it
    #[serde(default)]
    pub ke_prefers_v4: bool,
}

fn nts_strategy(tier: Tier) -> impl Strategy<Value = NtsCase> {
    let n = tier.pick(8usize, 16usize);
    let react = (
        prop::option::weighted(0.7, ms_strategy(1500)),
        prop::option::weighted(0.9, (ms_strategy(2500), 0u8..3)),
    )
        .prop_map(|(reg_ms, rem)| React { reg_ms, rem });
    (
        super::c35::ke_dns_strategy(),
        prop::collection::vec(super::c35::ke_answer_strategy(false, true), 1..5),
        super::c35::hosts_strategy(false),
        prop::collection::vec(react, 0..n),
        prop::collection::vec(ms_strategy(3000), 0..5),
        prop_oneof![2 => Just(0u16), 1 => 1u16..1000],
        prop_oneof![1 => 0u32..3000, 3 => 3000u32..20_000],
    )
        .prop_flat_map(|t| (Just(t), 0u8..3, any::<bool>()))
        .prop_map(|((ke_dns, ke, hosts, reacts, idles, start_jitter_us, run_ms), ntp_version, ke_prefers_v4)| NtsCase {
            ntp_version,
            ke_prefers_v4,
            ke_dns,
            ke,
            hosts,
            reacts,
            idles,
            start_jitter_us,
            run_ms,
        })
}

/// what the scripted system samples when it sees a create event / sends a removal
#[derive(Debug, Clone, Default)]
struct NtsAux {
    /// TCP connections the KE server has accepted so far
    accepted: usize,
    /// resolver calls so far for NTP_NAMES[i]
    name_calls: [usize; w_ntsked::NTP_NAMES.len()],
}

async fn run_nts(c: &NtsCase) -> Outcome {
    let mut labels = Labels::default();
    labels.add("nts");
    w_dns::reset();
    w_ntsked::script_dns(&c.ke_dns, &c.hosts);
    let server = match w_ntsked::start_with(c.ke.clone(), false, Instant::now(), None, c.ke_prefers_v4).await {
        Ok(s) => s,
        Err(_) => {
            // no listening port to be had right now (long campaigns leave tens of thousands of loopback ports in
            // TIME_WAIT): this case is not run; the start-up self-test has shown that the plumbing works as such
            return Outcome::pass(false).label("nts-case-skipped-no-free-port");
        }
    };
    let cfg = sh::NtsSourceConfig {
        address: sh::NtsKeAddress(sh::normalized_address(w_ntsked::KE_HOST, server.port)),
        enable_srv_resolution: false,
        certificate_authorities: w_ntsked::test_cas(),
        ntp_version: match c.ntp_version % 3 {
            0 => ProtocolVersion::V4,
            1 => ProtocolVersion::V5,
            _ => ProtocolVersion::v4_upgrading_to_v5_with_default_tries(),
        },
    };
    labels.add(match c.ntp_version % 3 {
        0 => "nts-cfg-v4",
        1 => "nts-cfg-v5",
        _ => "nts-cfg-auto",
    });
    let spawner = match sh::NtsSpawner::new(cfg, SourceConfig::default()) {
        Ok(s) => w_ntsked::Spin { inner: s },
        Err(e) => return Outcome::fail("nts/spawner-config-rejected", format!("NtsSpawner::new: {e}")),
    };
    let probe = || NtsAux {
        accepted: server.accepted(),
        name_calls: std::array::from_fn(|i| w_dns::calls(w_ntsked::NTP_NAMES[i])),
    };
    let d = match drive(move || spawner, w_ntsked::KE_HOST, &c.reacts, &c.idles, c.start_jitter_us, c.run_ms, "nts", &probe).await {
        Ok(d) => d,
        Err(o) => return o,
    };
    let Driven { log, created, removals, closed_at, initially_complete, .. } = d;
    let exchanges = server.log();

    // ---- pacing (virtual time; a spawn attempt takes exactly the scripted delays / timeouts)
    let st = match pacing_oracle(&log, initially_complete, Some(closed_at)) {
        Ok(st) => st,
        Err((sig, what)) => return Outcome::fail(format!("nts/{sig}"), what),
    };
    if completing_attempts(&log, initially_complete) > created.len() {
        return Outcome::fail(
            "nts/complete-without-a-source",
            format!("{} spawn attempts left the spawner complete but only {} sources were created", completing_attempts(&log, initially_complete), created.len()),
        );
    }

    // ---- every source stems from the key exchange that was accepted last before it was created
    for cr in &created {
        let ok = cr.aux.accepted >= 1
            && matches!(exchanges.get(cr.aux.accepted - 1).map(|e| &e.reply), Some(Reply::Responded { cookies, .. }) if *cookies > 0);
        if !ok {
            return Outcome::fail(
                "nts/source-without-successful-key-exchange",
                format!("source {} created at {} us, but the latest key exchange ({} accepted) did not deliver cookies", cr.addr, cr.t, cr.aux.accepted),
            );
        }
    }

    // ---- an NTS source speaks the NTP version its key exchange negotiated (not the configured preference)
    for cr in &created {
        if let Some(ex) = exchanges.get(cr.aux.accepted.wrapping_sub(1)) {
            let want = match ex.negotiated {
                Some(0) => "V4",
                Some(0x8001) => "V5",
                _ => continue,
            };
            labels.add(if want == "V5" { "nts-negotiated-v5" } else { "nts-negotiated-v4" });
            if cr.proto != want {
                return Outcome::fail(
                    "nts/source-version-differs-from-negotiated",
                    format!("key exchange offered {:x?} and negotiated {:#x}, the source for {} was created with protocol version {}", ex.offered, ex.negotiated.unwrap_or(0), cr.addr, cr.proto),
                );
            }
        }
    }

    // ---- removal reasons
    let handled_removed: Vec<usize> = log
        .iter()
        .enumerate()
        .filter(|(_, e)| matches!(e, LogEv::Handled { kind: Kind::Removed, .. }))
        .map(|(i, _)| i)
        .collect();
    for (k, rm) in removals.iter().enumerate() {
        let later = created.get(rm.source + 1);
        match rm.reason {
            2 => {
                labels.add("nts-demobilized");
                // The statement's demobilisation clause is about the plain (non-NTS) single-server spawner. The NTS
                // spawner of this tree starts a new key exchange after any removal; that is recorded, not judged.
                if later.is_some() {
                    labels.add("nts-new-exchange-after-demobilize (observed, outside the statement)");
                }
                let _ = (&handled_removed, k);
            }
            1 => {
                labels.add("nts-unreachable");
                if let Some(&hi) = handled_removed.get(k) {
                    let next_end = log[hi..].iter().find_map(|e| match e {
                        LogEv::TryEnd { dns, t, .. } => Some((*dns, *t)),
                        _ => None,
                    });
                    if let Some((dns_after, t)) = next_end {
                        labels.add("nts-attempt-after-unreachable");
                        // the KE host name is resolved again by the next attempt
                        if dns_after <= rm.dns_at_send {
                            return Outcome::fail(
                                "nts/no-lookup-after-unreachable",
                                format!(
                                    "Unreachable removal sent at {} us ({} lookups of the KE name so far); the next spawn attempt ended at \
                                     {t} us without a new lookup",
                                    rm.t_sent, rm.dns_at_send
                                ),
                            );
                        }
                    } else {
                        let handled_t = match log[hi] {
                            LogEv::Handled { t, .. } => t,
                            _ => unreachable!(),
                        };
                        let prev_end = log[..hi].iter().rev().find_map(|e| match e {
                            LogEv::TryEnd { t, .. } => Some(*t),
                            _ => None,
                        });
                        let deadline = prev_end.map(|e| handled_t.max(e + crate::w_spawn::PERIOD_US)).unwrap_or(handled_t);
                        if closed_at > deadline + crate::w_spawn::TOL_US {
                            return Outcome::fail(
                                "nts/no-attempt-after-unreachable",
                                format!(
                                    "Unreachable removal handled at {handled_t} us, previous attempt ended at {prev_end:?} us; no new key \
                                     exchange was attempted although the task ran until {closed_at} us"
                                ),
                            );
                        }
                        labels.add("nts-run-ended-before-retry");
                    }
                }
                if let Some(cr) = later {
                    labels.add("nts-respawn-after-unreachable");
                    // the replacement comes from a key exchange made after the removal ...
                    let fresh_ke = cr.aux.accepted > rm.aux_at_send.accepted;
                    // ... and its address from what that exchange named, resolved after the removal
                    let fresh_addr = match exchanges.get(cr.aux.accepted.wrapping_sub(1)).map(|e| &e.reply) {
                        Some(Reply::Responded { server: srv, port, .. }) => {
                            let port_ok = cr.addr.port() == port.unwrap_or(123);
                            let name = srv.clone().unwrap_or_else(|| w_ntsked::KE_HOST.to_string());
                            let ip_ok = if let Ok(lit) = name.parse::<IpAddr>() {
                                cr.addr.ip() == lit
                            } else if name == w_ntsked::KE_HOST {
                                // the KE name itself: resolved (at least) twice more since the removal
                                cr.dns >= rm.dns_at_send + 2
                                    && matches!(w_dns::answer_of_call(w_ntsked::KE_HOST, cr.dns - 1), Some(Answer::Addrs(a)) if a.contains(&cr.addr.ip()))
                            } else {
                                match w_ntsked::NTP_NAMES.iter().position(|n| *n == name) {
                                    Some(i) => {
                                        let calls = cr.aux.name_calls[i];
                                        calls > rm.aux_at_send.name_calls[i]
                                            && matches!(w_dns::answer_of_call(&name, calls - 1), Some(Answer::Addrs(a)) if a.contains(&cr.addr.ip()))
                                    }
                                    None => false,
                                }
                            };
                            port_ok && ip_ok
                        }
                        _ => false,
                    };
                    if !fresh_ke || !fresh_addr {
                        return Outcome::fail(
                            "nts/respawn-after-unreachable-uses-stale-data",
                            format!(
                                "Unreachable removal at {} us with {} key exchanges; next source {} created at {} us with {} key exchanges \
                                 (new exchange: {fresh_ke}, address from that exchange's fresh resolution: {fresh_addr})",
                                rm.t_sent, rm.aux_at_send.accepted, cr.addr, cr.t, cr.aux.accepted
                            ),
                        );
                    }
                }
            }
            _ => {
                labels.add("nts-network-issue");
                labels.add_if(later.is_some(), "respawn-after-network-issue");
            }
        }
    }

    for ex in &exchanges {
        match &ex.reply {
            Reply::Responded { cookies: 0, .. } => labels.add("ke-no-cookies"),
            Reply::Responded { .. } => labels.add("ke-responded"),
            Reply::Error(_) => labels.add("ke-error-record"),
            Reply::Stalled => labels.add("ke-stall"),
            Reply::ClosedAfterRequest | Reply::DroppedTcp => labels.add("ke-connection-closed"),
            Reply::HandshakeFailed | Reply::BadRequest | Reply::Pending => labels.add("ke-handshake-failed"),
        }
    }
    labels.add_if(c.ke.iter().any(|a| matches!(a, KeAnswer::Ok { delay_ms, .. } if *delay_ms >= 1000)), "slow-exchange-scripted");
    labels.add_if(created.len() >= 2, "nts-respawned");
    labels.add_if(created.is_empty(), "nts-never-created");
    labels.add_if(st.paced_retries > 0, "nts-paced-retry");
    labels.add_if(st.immediate > 0, "nts-immediate-after-event");
    labels.add_if(st.delayed_by_ticket > 0, "nts-event-delayed-by-ticket");
    labels.add_if(
        log.iter().any(|e| matches!(e, LogEv::TryEnd { complete: false, .. })),
        "nts-failed-attempt",
    );
    let nontrivial = st.attempts >= 2 && !removals.is_empty() && handled_removed.len() >= 1 && !created.is_empty();
    labels.add_if(nontrivial, "nts-nontrivial");
    Outcome::pass(nontrivial).labels(labels.0)
}

// ---------------------------------------------------------------------------------------------

impl Property for C36 {
    type Case = Case;
    const ID: &'static str = "C36";
    const RULE: &'static str = "Mock: scripted spawner (per-attempt duration 0..5 s, gain 0/1/2 or Err; want 0..3 or never complete) under the real \
        spawner_task on a paused clock with a generated schedule of (sleep ms, sub-ms jitter, Registered|Removed(reason)|Idle|nothing) steps; \
        Standard: the real StandardSpawner with scripted DNS (address lists / NoName / Again per lookup) and a scripted system that registers/removes \
        the n-th created source after generated delays; PoolTask: the real PoolSpawner (count 1..=4, C35 DNS scripts) under the same scripted system, \
        checked for pacing and for the C35 active-set invariants; Nts: the real NtsSpawner against a scripted loopback NTS-KE server (per exchange: \
        server name / IP literal / none, port, 0..9 cookies, virtual delay 0..6 s, error record, close, TCP drop, stall beyond the 5 s exchange timeout; \
        per-lookup DNS answers for the KE name and the four NTP names) under the same scripted system. NON-TRIVIAL = at least two spawn attempts were made \
        and at least one system event was handled by the spawner (Standard/Nts: at least one removal; Nts: also at least one source was created)";
    const ASSUMPTIONS: &'static [&'static str] = &[
        "time is the paused tokio clock; it only moves by auto-advance to the next timer (so no timer fires late by more than the 1 ms timer granularity) plus generated sub-millisecond jitter; a wake-up is therefore < 2 ms late; tolerance for 'at that pace' is 5 ms",
        "spawner event handlers are pure bookkeeping (take no time), try_spawn may take time",
        "'at most once per period' is measured between the starts of consecutive try_spawn calls",
        "the system removes a source only after it was created, once, and registers it before it removes it",
        "scripted addresses are 127.0.0.x, for which the local UDP connect in resolve_single_ntp_server succeeds",
        "Nts: real TCP/TLS on 127.0.0.1 under the paused clock; an always-ready task keeps tokio from auto-advancing the clock while try_spawn runs, so an attempt takes exactly the scripted virtual time (the code under test only reads the tokio clock)",
        "Nts: enable-srv-resolution is off (the SRV path needs a real DNS server); the KE server is reached under the name `localhost` of the repo's test certificate; a source seen by the system stems from the TCP connection the KE server accepted last",
    ];
    const QUICK_CASES: u32 = 24_000;
    const THOROUGH_CASES: u32 = 200_000;

    fn strategy(tier: Tier) -> BoxedStrategy<Case> {
        // debugging aid (sensitivity runs of one driver): VERIF_ONLY_MODE=nts
        if std::env::var("VERIF_ONLY_MODE").ok().as_deref() == Some("nts") {
            return nts_strategy(tier).prop_map(Case::Nts).boxed();
        }
        prop_oneof![
            3 => mock_strategy(tier).prop_map(Case::Mock),
            3 => std_strategy(tier).prop_map(Case::Standard),
            2 => pool_task_strategy(tier).prop_map(Case::PoolTask),
            2 => nts_strategy(tier).prop_map(Case::Nts),
        ]
        .boxed()
    }

    fn enumerate(_tier: Tier) -> Vec<Case> {
        if std::env::var_os("VERIF_NO_ENUM").is_some() {
            return vec![];
        }
        let step = |sleep_ms, ev| Step { sleep_ms, jitter_us: 0, ev };
        vec![
            // never complete, failing attempts: must retry every second
            Case::Mock(MockCase {
                want: 1000,
                have: 0,
                attempts: vec![Attempt { dur_us: 0, gain: 0, err: false }],
                sched: vec![step(300, Ev::Idle), step(300, Ev::Registered), step(300, Ev::Removed(0)), step(300, Ev::Idle)],
                tail_ms: 5000,
            }),
            // complete, then removals at awkward times
            Case::Mock(MockCase {
                want: 1,
                have: 0,
                attempts: vec![Attempt { dur_us: 0, gain: 1, err: false }],
                sched: vec![step(100, Ev::Removed(0)), step(950, Ev::Removed(1)), step(3000, Ev::Removed(0)), step(10, Ev::Removed(0))],
                tail_ms: 3000,
            }),
            // standard: unreachable -> new lookup gives another address; then demobilized
            Case::Standard(StdCase {
                answers: vec![Dns::Addrs(vec![1]), Dns::Addrs(vec![2]), Dns::Addrs(vec![3])],
                reacts: vec![
                    React { reg_ms: Some(0), rem: Some((200, 1)) },
                    React { reg_ms: Some(0), rem: Some((200, 0)) },
                    React { reg_ms: Some(0), rem: Some((200, 2)) },
                ],
                idles: vec![],
                start_jitter_us: 0,
                run_ms: 10_000,
            }),
            // standard: lookups fail for a while
            Case::Standard(StdCase {
                answers: vec![Dns::NoName, Dns::Again, Dns::Addrs(vec![4, 5])],
                reacts: vec![React { reg_ms: None, rem: Some((0, 1)) }, React { reg_ms: None, rem: Some((0, 1)) }],
                idles: vec![500, 500, 500],
                start_jitter_us: 0,
                run_ms: 12_000,
            }),
            // nts: unreachable -> new key exchange names another server; network issue; then demobilized
            Case::Nts(NtsCase {
                ke_dns: vec![KeDns::Listen],
                ke: vec![
                    KeAnswer::Ok { servers: vec![w_ntsked::Srv::Name(0)], port: None, cookies: 8, delay_ms: 0 },
                    KeAnswer::Ok { servers: vec![w_ntsked::Srv::Name(1)], port: Some(4123), cookies: 8, delay_ms: 20 },
                    KeAnswer::Ok { servers: vec![w_ntsked::Srv::Literal(4)], port: Some(123), cookies: 1, delay_ms: 0 },
                ],
                hosts: (0u8..4).map(|i| vec![NDns::Addrs(vec![i])]).collect(),
                reacts: vec![
                    React { reg_ms: Some(0), rem: Some((200, 1)) },
                    React { reg_ms: Some(0), rem: Some((200, 0)) },
                    React { reg_ms: Some(0), rem: Some((200, 2)) },
                ],
                idles: vec![],
                start_jitter_us: 0,
                run_ms: 10_000,
                ntp_version: 2,
                ke_prefers_v4: true,
            }),
            // nts: key exchanges fail in every scripted way before one succeeds; slow exchanges
            Case::Nts(NtsCase {
                ke_dns: vec![KeDns::NoName, KeDns::Dead, KeDns::DeadThenListen, KeDns::Listen],
                ke: vec![
                    KeAnswer::DropTcp,
                    KeAnswer::CloseAfterRequest,
                    KeAnswer::ErrorRecord(1),
                    KeAnswer::Stall,
                    KeAnswer::Ok { servers: vec![w_ntsked::Srv::Name(2)], port: None, cookies: 0, delay_ms: 0 },
                    KeAnswer::Ok { servers: vec![w_ntsked::Srv::Name(2)], port: None, cookies: 2, delay_ms: 1500 },
                ],
                hosts: (0u8..4).map(|i| vec![NDns::Addrs(vec![i])]).collect(),
                reacts: vec![React { reg_ms: None, rem: Some((0, 1)) }, React { reg_ms: None, rem: Some((700, 2)) }],
                idles: vec![500, 500],
                start_jitter_us: 300,
                run_ms: 40_000,
                ntp_version: 2,
                ke_prefers_v4: false,
            }),
        ]
    }

    fn check(case: &Case) -> Outcome {
        super::c35::interposition_selftest();
        match case {
            Case::Mock(c) => crate::rt::run_paused(run_mock(c)),
            Case::Standard(c) => crate::rt::run_paused(run_std(c)),
            Case::PoolTask(c) => crate::rt::run_paused(run_pool(c)),
            Case::Nts(c) => {
                w_ntsked::selftest();
                crate::rt::run_paused(run_nts(c))
            }
        }
    }
}
