//! C41 — PTP messages survive a serialise/parse round trip.
//!
//! Two case kinds:
//!  * `Build`: a plain-data message description is turned into a library `Message` through the
//!    public API, serialised, compared with an independent reference encoder, parsed back and
//!    compared for equality (message and TLV iteration).
//!  * `Parse`: a byte string (random / a mutated reference encoding / fuzzer bytes) is parsed; if the
//!    parser accepts it, the re-serialisation must equal the parsed prefix of the input except at
//!    the bit positions IEEE 1588-2019 marks reserved or the parser does not represent
//!    (messageTypeSpecific, controlField), and must parse to the same message again.
use crate::engine::*;
use crate::w_ptp::*;
use proptest::prelude::*;
use serde::{Deserialize, Serialize};
use statime_wire as sw;

pub struct C41;

#[derive(Debug, Clone, Serialize, Deserialize)]
pub enum Case {
    Build {
        msg: MsgSpec,
        /// bytes appended after the message (a receive buffer may hold padding)
        trailing: u8,
        /// serialise into a buffer this many bytes too short (0 = exact fit or larger)
        short_by: u8,
    },
    Parse {
        bytes: Vec<u8>,
    },
}

macro_rules! ensure {
    ($cond:expr, $sig:expr, $($fmt:tt)*) => {
        if !$cond {
            return Outcome::fail($sig, format!($($fmt)*));
        }
    };
}

fn err_name(e: &sw::Error) -> &'static str {
    match e {
        sw::Error::BufferTooShort => "BufferTooShort",
        sw::Error::Invalid => "Invalid",
    }
}

fn tlv_class(tlvs: &[TlvSpec]) -> Vec<&'static str> {
    let mut l = Vec::new();
    l.push(match tlvs.len() {
        0 => "tlvs-0",
        1 => "tlvs-1",
        _ => "tlvs-2+",
    });
    if tlvs.last().is_some_and(|t| t.value.is_empty()) {
        l.push("last-tlv-empty");
    }
    if tlvs.len() > 1 && tlvs[..tlvs.len() - 1].iter().any(|t| t.value.is_empty()) {
        l.push("inner-tlv-empty");
    }
    l
}

/// collect the TLVs yielded by the iterator as (type, value) and the bytes they stand for
fn iter_tlvs(m: &sw::Message<'_>) -> (Vec<(sw::TlvType, Vec<u8>)>, usize) {
    let mut v = Vec::new();
    let mut n = 0usize;
    for (i, t) in m.suffix.tlvs().enumerate() {
        n += 4 + t.value.len();
        v.push((t.tlv_type, t.value.to_vec()));
        if i > 20_000 {
            break; // an iterator that does not advance would otherwise hang the check
        }
    }
    (v, n)
}

fn check_build(msg: &MsgSpec, trailing: u8, short_by: u8) -> Outcome {
    let mut labels = Labels::default();
    labels.add("build");
    labels.add(msg.body.name());
    for l in tlv_class(&msg.tlvs) {
        labels.add(l);
    }
    let tlv_bytes: usize = msg.tlvs.iter().map(|t| 4 + t.value.len()).sum();
    let mut tlv_buf = vec![0u8; tlv_bytes];
    let reference = ref_encode(msg);

    let lm = match lib_message(msg, &mut tlv_buf) {
        Ok(m) => m,
        Err(e) => {
            // a single TLV value longer than 65535 bytes is the only documented reason
            ensure!(msg.tlvs.iter().any(|t| t.value.len() > 0xffff), "builder-rejects-valid-tlv",
                "TlvSetBuilder::add failed with {} on a TLV that fits", err_name(&e));
            return Outcome::pass(false).label("discard-tlv-too-long");
        }
    };
    let want_len = 34 + ref_encode_body(&msg.body).len() + tlv_bytes;
    ensure!(lm.wire_size() == want_len, "wire-size", "wire_size {} want {want_len}", lm.wire_size());

    // buffer shorter than the message: documented error, never a panic
    if short_by > 0 {
        let mut small = vec![0u8; want_len.saturating_sub(short_by as usize)];
        let r = lm.serialize(&mut small);
        ensure!(r.is_err(), "serialize-into-short-buffer-ok", "serialize into {} bytes returned {:?} for a {want_len} byte message", small.len(), r);
        labels.add("short-buffer");
    }

    let mut buf = vec![0u8; want_len + trailing as usize];
    let n = match lm.serialize(&mut buf) {
        Ok(n) => n,
        Err(e) => {
            ensure!(reference.is_none(), "serialize-rejects-valid-message",
                "serialize failed with {} on a {want_len} byte message", err_name(&e));
            return Outcome::pass(true).labels(labels.0).label("oversize-rejected");
        }
    };
    let Some(reference) = reference else {
        return Outcome::fail("serialize-accepts-oversize", format!("serialize returned {n} for a message of {want_len} bytes"));
    };
    ensure!(n == reference.len(), "serialized-length", "serialize returned {n}, reference length {}", reference.len());
    if buf[..n] != reference[..] {
        let pos = buf[..n].iter().zip(&reference).position(|(a, b)| a != b).unwrap();
        let region = if pos < 34 { "header" } else if pos < 34 + ref_encode_body(&msg.body).len() { "body" } else { "tlv" };
        return Outcome::fail(format!("serialized-bytes-differ-from-reference/{region}/{}", msg.body.name()),
            format!("first difference at byte {pos}: got {:#04x} want {:#04x}", buf[pos], reference[pos]));
    }
    // trailing bytes are untouched by serialize and ignored by parse; make them non-zero
    for (i, b) in buf[n..].iter_mut().enumerate() {
        *b = 0xA5 ^ i as u8;
    }
    labels.add_if(trailing > 0, "trailing-padding");

    let parsed = match sw::Message::deserialize(&buf) {
        Ok(p) => p,
        Err(e) => {
            let last_empty = msg.tlvs.last().is_some_and(|t| t.value.is_empty());
            let sig = if last_empty { "own-output-rejected/last-tlv-empty" } else { "own-output-rejected" };
            return Outcome::fail(sig, format!("deserialize(serialize(m)) = Err({}) for {} with {} TLVs", err_name(&e), msg.body.name(), msg.tlvs.len()));
        }
    };
    ensure!(parsed == lm, "roundtrip-not-equal", "parsed message differs: {parsed:?} vs {lm:?}");
    // the consumer-visible TLV list
    let (got, _) = iter_tlvs(&parsed);
    let want: Vec<(sw::TlvType, Vec<u8>)> = msg.tlvs.iter().map(|t| (tlv_type(t.ty), t.value.clone())).collect();
    if got != want {
        let last_empty = msg.tlvs.last().is_some_and(|t| t.value.is_empty());
        let sig = if got.len() < want.len() && last_empty { "tlv-iteration-incomplete/last-tlv-empty" } else { "tlv-iteration-differs" };
        return Outcome::fail(sig, format!("tlvs() yielded {} TLVs, message was built from {}", got.len(), want.len()));
    }
    // same for the message we built (iterator over builder output)
    let (got2, _) = iter_tlvs(&lm);
    ensure!(got2 == want, "tlv-iteration-differs/built", "tlvs() on the built message yielded {} of {} TLVs", got2.len(), want.len());
    let prop = parsed.suffix.announce_propagate_tlvs().count();
    labels.add_if(prop > 0, "has-propagated-tlv");
    Outcome::pass(true).labels(labels.0)
}

/// Compare re-serialised bytes with the input prefix. Returns the first offending position.
fn compare_modulo_reserved(input: &[u8], out: &[u8]) -> Result<bool, (usize, &'static str)> {
    let ty = input[0] & 0x0f;
    let body = body_len(ty).expect("parser accepted the type");
    let mut masked_differs = false;
    for i in 0..input.len() {
        let (a, b) = (input[i], out[i]);
        // mask = bits that must be preserved
        let mask: u8 = match i {
            6 => 0b0110_0111,
            7 => 0b0111_1111,
            16..=19 => 0, // messageTypeSpecific
            32 => 0,      // controlField (deprecated, ignored by receivers)
            _ if i >= 34 && i < 34 + body => {
                let o = i - 34;
                match ty {
                    0x2 if (10..20).contains(&o) => 0, // PDelayReq reserved
                    0xb if o == 12 => 0,               // Announce reserved
                    0xb if o == 15 => {
                        // clockAccuracy: assigned values are preserved, reserved ones stay reserved
                        if accuracy_is_assigned(a) {
                            0xff
                        } else if accuracy_is_assigned(b) {
                            return Err((i, "body"));
                        } else {
                            0
                        }
                    }
                    0xd if o == 10 => 0, // Management reserved
                    0xd if o == 13 => {
                        // actionField: 0..=4 assigned (whole octet as the parser reads it)
                        if a <= 4 {
                            0xff
                        } else if b <= 4 {
                            return Err((i, "body"));
                        } else {
                            0
                        }
                    }
                    _ => 0xff,
                }
            }
            _ => 0xff,
        };
        if (a ^ b) & mask != 0 {
            let region = if i < 34 { "header" } else if i < 34 + body { "body" } else { "tlv" };
            return Err((i, region));
        }
        if a != b {
            masked_differs = true;
        }
    }
    Ok(masked_differs)
}

fn check_parse(bytes: &[u8]) -> Outcome {
    let mut labels = Labels::default();
    labels.add("parse");
    let parsed = match sw::Message::deserialize(bytes) {
        Ok(p) => p,
        Err(sw::Error::BufferTooShort) => return Outcome::pass(bytes.len() >= 34).labels(labels.0).label("parse-err-short"),
        Err(sw::Error::Invalid) => return Outcome::pass(bytes.len() >= 34).labels(labels.0).label("parse-err-invalid"),
    };
    labels.add("parse-ok");
    ensure!(bytes.len() >= 34, "parsed-without-header", "accepted {} bytes", bytes.len());
    let l = u16::from_be_bytes([bytes[2], bytes[3]]) as usize;
    ensure!((34..=bytes.len()).contains(&l), "parsed-beyond-input", "messageLength {l}, input {}", bytes.len());
    ensure!(body_len(bytes[0] & 0xf).is_some(), "parsed-unassigned-type", "type nibble {:#x}", bytes[0] & 0xf);
    let body = body_len(bytes[0] & 0xf).unwrap();
    ensure!(l >= 34 + body, "parsed-truncated-body", "messageLength {l} shorter than header+body {}", 34 + body);
    ensure!(parsed.wire_size() == l, "parsed-wire-size", "wire_size {} but messageLength {l}", parsed.wire_size());
    labels.add_if(bytes.len() > l, "trailing-padding");

    let mut out = vec![0u8; l + 8];
    let n = match parsed.serialize(&mut out) {
        Ok(n) => n,
        Err(e) => return Outcome::fail("reserialize-error", format!("serialize(parse(b)) = Err({})", err_name(&e))),
    };
    ensure!(n == l, "reserialized-length", "re-serialised {n} bytes, parsed prefix is {l}");
    match compare_modulo_reserved(&bytes[..l], &out[..l]) {
        Ok(d) => labels.add_if(d, "reserved-bits-in-input"),
        Err((pos, region)) => {
            return Outcome::fail(format!("reserialized-bytes-differ/{region}"),
                format!("byte {pos}: input {:#04x} re-serialised {:#04x} (type {:#x})", bytes[pos], out[pos], bytes[0] & 0xf));
        }
    }
    let again = match sw::Message::deserialize(&out[..n]) {
        Ok(p) => p,
        Err(e) => return Outcome::fail("reparse-error", format!("parse(serialize(parse(b))) = Err({})", err_name(&e))),
    };
    ensure!(again == parsed, "reparse-not-equal", "{again:?} vs {parsed:?}");
    // TLV iteration covers the whole suffix, byte for byte
    let (tlvs, covered) = iter_tlvs(&parsed);
    ensure!(covered == l - 34 - body, "tlv-iteration-incomplete", "tlvs() covers {covered} of {} suffix bytes", l - 34 - body);
    let mut re = Vec::new();
    let mut pos = 34 + body;
    for (ty, v) in &tlvs {
        let raw = u16::from_be_bytes([bytes[pos], bytes[pos + 1]]);
        ensure!(tlv_type(raw) == *ty, "tlv-type-mapping", "tlvType {raw:#06x} iterated as {ty:?}");
        re.extend_from_slice(&bytes[pos..pos + 2]);
        re.extend_from_slice(&(v.len() as u16).to_be_bytes());
        re.extend_from_slice(v);
        pos += 4 + v.len();
    }
    ensure!(re[..] == bytes[34 + body..l], "tlv-iteration-differs", "iterated TLVs do not reproduce the suffix bytes");
    labels.add(match tlvs.len() {
        0 => "tlvs-0",
        1 => "tlvs-1",
        _ => "tlvs-2+",
    });
    labels.add_if(tlvs.last().is_some_and(|t| t.1.is_empty()), "last-tlv-empty");
    Outcome::pass(true).labels(labels.0)
}

/// byte strings derived from a reference encoding
fn mutated_bytes() -> BoxedStrategy<Vec<u8>> {
    // raw TLV-like tail chunks: (type, declared length, actual bytes)
    let chunk = (tlv_type_strategy(), prop_oneof![4 => Just(None), 1 => (0u16..40).prop_map(Some), 1 => any::<u16>().prop_map(Some)],
        prop::collection::vec(any::<u8>(), 0..12));
    (
        msg_strategy(3),
        prop::collection::vec(chunk, 0..3),
        prop::collection::vec((any::<u16>(), any::<u8>()), 0..4), // byte overwrites (position index, value)
        prop_oneof![5 => Just(None), 2 => (-6i32..=6).prop_map(Some), 1 => (0i32..70000).prop_map(|v| Some(v - 100_000))], // length field override
        prop_oneof![4 => Just(0i32), 2 => -40i32..0, 2 => 1i32..40], // truncate (<0) / extend (>0)
        any::<bool>(), // set reserved bits
    )
        .prop_filter_map("fits", |(msg, chunks, writes, len_over, resize, reserved)| {
            let mut b = ref_encode(&msg)?;
            for (ty, declared, data) in &chunks {
                b.extend_from_slice(&ty.to_be_bytes());
                let d = declared.unwrap_or((data.len() & !1) as u16);
                b.extend_from_slice(&d.to_be_bytes());
                let take = if declared.is_none() { data.len() & !1 } else { data.len() };
                b.extend_from_slice(&data[..take]);
            }
            if b.len() > 0xffff {
                return None;
            }
            let total = b.len() as u16;
            b[2..4].copy_from_slice(&total.to_be_bytes());
            if reserved {
                b[6] |= 0b1001_1000;
                b[7] |= 0x80;
                b[16..20].copy_from_slice(&[0xde, 0xad, 0xbe, 0xef]);
                b[32] = 0x05;
                match b[0] & 0xf {
                    0x2 => b[34 + 10..34 + 20].fill(0x77),
                    0xb => b[34 + 12] = 0x99,
                    0xd => b[34 + 10] = 0x42,
                    _ => {}
                }
            }
            for (p, v) in &writes {
                let i = idx(*p, b.len());
                b[i] = *v;
            }
            match len_over {
                None => {}
                Some(d) if d > -1000 => {
                    let cur = u16::from_be_bytes([b[2], b[3]]) as i32;
                    b[2..4].copy_from_slice(&((cur + d).clamp(0, 0xffff) as u16).to_be_bytes());
                }
                Some(d) => b[2..4].copy_from_slice(&(((d + 100_000) & 0xffff) as u16).to_be_bytes()),
            }
            if resize < 0 {
                let keep = b.len().saturating_sub((-resize) as usize);
                b.truncate(keep);
            } else {
                for i in 0..resize {
                    b.push(0x5a ^ i as u8);
                }
            }
            b.truncate(4096);
            Some(b)
        })
        .boxed()
}

impl Property for C41 {
    type Case = Case;
    const ID: &'static str = "C41";
    const RULE: &'static str = "Build: header (all fields, 12-bit sdoId, 4-bit versions, 12 flags), one of the ten bodies with boundary-biased fields, 0..6 TLVs (canonical tlvType from all table-52 ranges, even value lengths 0/2/4..32/..1400, empty values frequent, also last), 0..8 trailing bytes, optionally a too-short output buffer, rarely >64 KiB total; serialised bytes must equal an independent IEEE-1588 reference encoder, parse back to an equal message and iterate to the same TLV list. Parse: random byte strings 0..4096, and reference encodings with raw TLV-like tails (declared length ≠ actual, odd lengths), reserved bits set, byte overwrites, messageLength overrides, truncation/extension; accepted inputs must re-serialise to the parsed prefix (modulo reserved/unrepresented bits: flagField reserved bits, messageTypeSpecific, controlField, body reserved octets, reserved clockAccuracy/actionField values stay reserved), re-parse equal, and tlvs() must reproduce the suffix byte for byte. Non-trivial: every Build case; Parse cases of ≥34 bytes (distinct = distinct case data).";
    const ASSUMPTIONS: &'static [&'static str] = &[
        "TLV values have even length (IEEE 1588-2019 14.1.1; TlvSet::wire_size debug-asserts it); odd lengths only occur in Parse inputs",
        "payload-carrying enum variants (TlvType::Reserved/Legacy/Experimental, ClockAccuracy::ProfileSpecific, TimeSource::Reserved/ProfileSpecific) are only built with values of their own range (what from_primitive yields); a non-canonical value such as TimeSource::Reserved(0x10) is outside the domain",
        "serialisation targets are zero-initialised buffers (serialize leaves the reserved octets Announce[12] and Management[10] untouched)",
        "release semantics: debug assertions off",
    ];
    const QUICK_CASES: u32 = 4_000_000;
    const THOROUGH_CASES: u32 = 100_000_000;

    fn strategy(_tier: Tier) -> BoxedStrategy<Case> {
        let build = (msg_strategy(6), prop_oneof![3 => Just(0u8), 1 => 1u8..=8], prop_oneof![4 => Just(0u8), 1 => 1u8..=40])
            .prop_map(|(msg, trailing, short_by)| Case::Build { msg, trailing, short_by });
        // explicit "ends in an empty TLV" class
        let build_last_empty = (msg_strategy(4), tlv_type_strategy())
            .prop_map(|(mut msg, ty)| {
                msg.tlvs.push(TlvSpec { ty, value: vec![] });
                Case::Build { msg, trailing: 0, short_by: 0 }
            });
        // rare: total size beyond 16 bits
        let oversize = (msg_strategy(1), 32_700usize..33_000, tlv_type_strategy()).prop_map(|(mut msg, half, ty)| {
            msg.tlvs.push(TlvSpec { ty, value: vec![0x11; half * 2] });
            msg.tlvs.push(TlvSpec { ty, value: vec![0x22; 40] });
            Case::Build { msg, trailing: 0, short_by: 0 }
        });
        let random = prop_oneof![
            3 => prop::collection::vec(any::<u8>(), 0..120),
            1 => prop::collection::vec(any::<u8>(), 0..4097),
        ]
        .prop_map(|bytes| Case::Parse { bytes });
        // random bytes behind a plausible first 4 bytes (type nibble, version, length = actual)
        let framed = (prop::collection::vec(any::<u8>(), 34..200), any::<bool>()).prop_map(|(mut bytes, exact)| {
            if exact {
                let l = bytes.len() as u16;
                bytes[2..4].copy_from_slice(&l.to_be_bytes());
            } else {
                bytes[2] = 0;
            }
            Case::Parse { bytes }
        });
        prop_oneof![
            40 => build,
            8 => build_last_empty,
            1 => oversize,
            12 => random,
            10 => framed,
            35 => mutated_bytes().prop_map(|bytes| Case::Parse { bytes }),
        ]
        .boxed()
    }

    fn enumerate(_tier: Tier) -> Vec<Case> {
        let h = HeaderSpec { sdo: 0, major: 2, minor: 1, domain: 0, flags: 0, correction: 0, clock_id: [0; 8], port: 0, seq: 0, log_interval: 0 };
        let sync = BodySpec::Sync(TsSpec { secs: 0, nanos: 0 });
        let mk = |tlvs: Vec<TlvSpec>| Case::Build { msg: MsgSpec { header: h, body: sync, tlvs }, trailing: 0, short_by: 0 };
        vec![
            mk(vec![]),
            mk(vec![TlvSpec { ty: 8, value: vec![1, 2] }]),
            mk(vec![TlvSpec { ty: 8, value: vec![] }]),
            mk(vec![TlvSpec { ty: 8, value: vec![1, 2] }, TlvSpec { ty: 8, value: vec![] }]),
            mk(vec![TlvSpec { ty: 0x8008, value: vec![] }, TlvSpec { ty: 8, value: vec![1, 2] }]),
            Case::Parse { bytes: vec![] },
            Case::Parse { bytes: vec![0; 34] },
            Case::Parse { bytes: ref_encode(&MsgSpec { header: h, body: sync, tlvs: vec![TlvSpec { ty: 0x8008, value: vec![] }] }).unwrap() },
        ]
    }

    fn check(case: &Case) -> Outcome {
        match case {
            Case::Build { msg, trailing, short_by } => check_build(msg, *trailing, *short_by),
            Case::Parse { bytes } => check_parse(bytes),
        }
    }

    fn from_bytes(data: &[u8]) -> Option<Case> {
        Some(Case::Parse { bytes: data[..data.len().min(4096)].to_vec() })
    }
}
