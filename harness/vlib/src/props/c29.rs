//! C29 — pool (fixed-key / supported-parameter) requests need a configured token; a connection is
//! kept open only if asked for and a permit was available; plain key exchange is never accepted
//! on a kept-open connection.
//!
//! The real `KeyExchangeServer` (handle_connection, then handle_longterm if a handle is returned)
//! talks over an in-memory TLS 1.3 session to a raw harness client that writes requests built with
//! the reference record codec and decodes the answers with the reference framing.
//! Oracle = small state machine (New / Open / Closed) evaluated by the harness from the case alone.
use std::cell::Cell;

use crate::engine::*;
use crate::w_ntske::*;
use ntp_proto::{KeyExchangeServer, KeySetProvider, NtpVersion, NtsServerConfig};
use proptest::prelude::*;
use serde::{Deserialize, Serialize};
use tokio::io::AsyncWriteExt;

pub struct C29;

#[derive(Debug, Clone, Serialize, Deserialize, PartialEq, Eq)]
pub enum Tok {
    /// the configured token with this (scaled) index; "tok" if none is configured
    Configured(u16),
    /// derived from a configured token: 0 drop last char, 1 append 'x', 2 upper-case, 3 empty string, 4..=10 wrapped in
    /// whitespace / NUL / BOM / no-break space, 11 doubled
    Near(u16, u8),
    Other(String),
    /// no authentication record at all
    Absent,
}

#[derive(Debug, Clone, Serialize, Deserialize)]
pub enum Req {
    FixedKey {
        tok: Tok,
        alg512: bool,
        proto: u16,
        keep_alive: bool,
        seed: u8,
        /// 0 well-formed, 1 key length of the other algorithm, 2 unknown algorithm id
        defect: u8,
        rot: u16,
    },
    Support {
        tok: Tok,
        wants_protocols: bool,
        wants_algorithms: bool,
        keep_alive: bool,
        rot: u16,
    },
    Plain {
        protos: Vec<u16>,
        algs: Vec<u16>,
        keep_alive: bool,
        tok: Option<Tok>,
    },
}

#[derive(Debug, Clone, Serialize, Deserialize)]
pub struct Case {
    pub tokens: Vec<String>,
    /// accepted NTP versions of the server (3, 4, 5)
    pub versions: Vec<u8>,
    /// a long-lived connection slot is available
    pub permit: bool,
    pub first: Req,
    pub later: Vec<Req>,
}

fn tok_string(t: &Tok, tokens: &[String]) -> Option<String> {
    match t {
        Tok::Configured(i) => Some(if tokens.is_empty() {
            "tok".to_string()
        } else {
            tokens[idx(*i, tokens.len())].clone()
        }),
        Tok::Near(i, k) => {
            let base = if tokens.is_empty() {
                "tok".to_string()
            } else {
                tokens[idx(*i, tokens.len())].clone()
            };
            Some(match k % 12 {
                0 => {
                    let mut b = base;
                    b.pop();
                    b
                }
                1 => format!("{base}x"),
                2 => base.to_uppercase(),
                3 => String::new(),
                // the configured token wrapped in characters a lenient comparison might skip
                4 => format!("{base} "),
                5 => format!(" {base}"),
                6 => format!("{base}\n"),
                7 => format!("\t{base}\r\n"),
                8 => format!("{base}\0"),
                9 => format!("\u{feff}{base}"),
                10 => format!("{base}\u{a0}"),
                _ => format!("{base}{base}"),
            })
        }
        Tok::Other(s) => Some(s.clone()),
        Tok::Absent => None,
    }
}

#[derive(Debug, Clone, Copy, PartialEq, Eq)]
enum Kind {
    /// well-formed pool request carrying a token; `ok` = the token is configured
    Pool { ok: bool, fixed: bool, keep_alive: bool },
    /// pool request without authentication record
    PoolNoAuth,
    Plain,
    /// not a request the property talks about (wrong key size, unknown algorithm, support request
    /// asking for nothing): only "no cookies, no handle, closed" is required
    Malformed,
}

fn keys(alg512: bool, defect: u8, seed: u8) -> (Vec<u8>, Vec<u8>) {
    let mut n = if alg512 { 64 } else { 32 };
    if defect == 1 {
        n = 96 - n;
    }
    let c2s = (0..n).map(|i| (i as u8).wrapping_add(seed)).collect();
    let s2c = (0..n).map(|i| (i as u8).wrapping_mul(3).wrapping_add(seed).wrapping_add(1)).collect();
    (c2s, s2c)
}

fn alg_id(alg512: bool, defect: u8) -> u16 {
    if defect == 2 {
        16
    } else if alg512 {
        ALG_512
    } else {
        ALG_256
    }
}

fn classify(r: &Req, tokens: &[String]) -> Kind {
    let tok_ok = |t: &Tok| tok_string(t, tokens).map(|s| tokens.iter().any(|c| *c == s));
    match r {
        Req::FixedKey { defect, .. } if *defect != 0 => Kind::Malformed,
        Req::FixedKey { tok, keep_alive, .. } => match tok_ok(tok) {
            None => Kind::PoolNoAuth,
            Some(ok) => Kind::Pool {
                ok,
                fixed: true,
                keep_alive: *keep_alive,
            },
        },
        Req::Support {
            wants_protocols: false,
            wants_algorithms: false,
            ..
        } => Kind::Malformed,
        Req::Support { tok, keep_alive, .. } => match tok_ok(tok) {
            None => Kind::PoolNoAuth,
            Some(ok) => Kind::Pool {
                ok,
                fixed: false,
                keep_alive: *keep_alive,
            },
        },
        Req::Plain { .. } => Kind::Plain,
    }
}

fn encode(r: &Req, tokens: &[String]) -> Vec<u8> {
    let mut recs: Vec<Vec<u8>> = Vec::new();
    let rot;
    match r {
        Req::FixedKey {
            tok,
            alg512,
            proto,
            keep_alive,
            seed,
            defect,
            rot: r,
        } => {
            rot = *r;
            if let Some(t) = tok_string(tok, tokens) {
                recs.push(rec(T_AUTH, t.as_bytes()));
            }
            let (c2s, s2c) = keys(*alg512, *defect, *seed);
            recs.push(rec(T_FIXED_KEY | CRIT, &[c2s, s2c].concat()));
            recs.push(rec(T_NEXT_PROTO | CRIT, &u16s(&[*proto])));
            recs.push(rec(T_AEAD | CRIT, &u16s(&[alg_id(*alg512, *defect)])));
            if *keep_alive {
                recs.push(rec(T_KEEP_ALIVE, &[]));
            }
        }
        Req::Support {
            tok,
            wants_protocols,
            wants_algorithms,
            keep_alive,
            rot: r,
        } => {
            rot = *r;
            if let Some(t) = tok_string(tok, tokens) {
                recs.push(rec(T_AUTH, t.as_bytes()));
            }
            if *wants_protocols {
                recs.push(rec(T_SUPP_PROTO | CRIT, &[]));
            }
            if *wants_algorithms {
                recs.push(rec(T_SUPP_ALG | CRIT, &[]));
            }
            if *keep_alive {
                recs.push(rec(T_KEEP_ALIVE, &[]));
            }
        }
        Req::Plain {
            protos,
            algs,
            keep_alive,
            tok,
        } => {
            rot = 0;
            recs.push(rec(T_NEXT_PROTO | CRIT, &u16s(protos)));
            recs.push(rec(T_AEAD | CRIT, &u16s(algs)));
            if let Some(t) = tok.as_ref().and_then(|t| tok_string(t, tokens)) {
                recs.push(rec(T_AUTH, t.as_bytes()));
            }
            if *keep_alive {
                recs.push(rec(T_KEEP_ALIVE, &[]));
            }
        }
    }
    if !recs.is_empty() {
        let n = idx(rot, recs.len());
        recs.rotate_left(n);
    }
    recs.push(rec(T_EOM | CRIT, &[]));
    recs.concat()
}

// ---------------------------------------------------------------------------
// strategy

fn tok() -> BoxedStrategy<Tok> {
    prop_oneof![
        5 => any::<u16>().prop_map(Tok::Configured),
        3 => (any::<u16>(), 0u8..12).prop_map(|(i, k)| Tok::Near(i, k)),
        2 => prop::sample::select(vec!["", "tok", "pool-a", "pool-b", "hi", "x", "pool-", "POOL-A"]).prop_map(|s| Tok::Other(s.to_string())),
        1 => Just(Tok::Absent),
    ]
    .boxed()
}

fn req(plain_weight: u32) -> BoxedStrategy<Req> {
    let fixed = (
        tok(),
        any::<bool>(),
        prop::sample::select(vec![PROTO_V4, PROTO_V5, 1u16, 0xffff]),
        any::<bool>(),
        any::<u8>(),
        prop_oneof![12 => Just(0u8), 1 => Just(1u8), 1 => Just(2u8)],
        prop_oneof![2 => Just(0u16), 1 => any::<u16>()],
    )
        .prop_map(|(tok, alg512, proto, keep_alive, seed, defect, rot)| Req::FixedKey {
            tok,
            alg512,
            proto,
            keep_alive,
            seed,
            defect,
            rot,
        });
    let support = (
        tok(),
        prop::bool::weighted(0.7),
        prop::bool::weighted(0.7),
        any::<bool>(),
        prop_oneof![2 => Just(0u16), 1 => any::<u16>()],
    )
        .prop_map(|(tok, wants_protocols, wants_algorithms, keep_alive, rot)| Req::Support {
            tok,
            wants_protocols,
            wants_algorithms,
            keep_alive,
            rot,
        });
    let plain = (
        prop::collection::vec(prop::sample::select(vec![PROTO_V4, PROTO_V5, 1u16]), 0..3),
        prop::collection::vec(prop::sample::select(vec![ALG_256, ALG_512, 16u16]), 0..3),
        any::<bool>(),
        prop::option::of(tok()),
    )
        .prop_map(|(protos, algs, keep_alive, tok)| Req::Plain {
            protos,
            algs,
            keep_alive,
            tok,
        });
    prop_oneof![5 => fixed, 4 => support, plain_weight => plain].boxed()
}

fn case() -> BoxedStrategy<Case> {
    (
        prop::sample::subsequence(vec!["pool-a", "pool-b", "hi", "x", ""], 0..=3),
        prop::sample::select(vec![vec![4u8], vec![5], vec![4, 5], vec![5, 4], vec![3, 4], vec![], vec![3]]),
        prop::bool::weighted(0.7),
        req(1),
        prop::collection::vec(req(3), 0..4),
    )
        .prop_map(|(tokens, versions, permit, first, later)| Case {
            tokens: tokens.into_iter().map(String::from).collect(),
            versions,
            permit,
            first,
            later,
        })
        .boxed()
}

// ---------------------------------------------------------------------------
// execution

#[derive(Debug)]
struct Step {
    /// what the harness read after sending the request
    got: ReadMsg,
    /// after the answer: did the stream close (Some(true)), stay open (Some(false)); None = not probed
    closed_after: Option<bool>,
    /// every cookie of the answer decoded with the server's key set: (algorithm, c2s, s2c)
    cookie_keys: Vec<Option<(u16, Vec<u8>, Vec<u8>)>>,
}

#[derive(Debug)]
struct Obs {
    steps: Vec<Step>,
    handle_returned: bool,
    first_ok: bool,
    permit_calls: u32,
    tls_failed: bool,
}

#[derive(Debug, Clone, Copy, PartialEq, Eq)]
enum St {
    New,
    Open,
    Closed,
}

/// (must the connection be open after this request, per the model)
fn next_state(st: St, k: Kind, permit: bool) -> St {
    match (st, k) {
        (St::New, Kind::Pool { ok: true, keep_alive, .. }) => {
            if keep_alive && permit {
                St::Open
            } else {
                St::Closed
            }
        }
        (St::Open, Kind::Pool { keep_alive, .. }) => {
            if keep_alive {
                St::Open
            } else {
                St::Closed
            }
        }
        _ => St::Closed,
    }
}

fn run(case: &Case) -> Obs {
    let reqs: Vec<&Req> = std::iter::once(&case.first).chain(case.later.iter()).collect();
    crate::rt::run_paused(async {
        let (c_io, s_io) = tls::duplex();
        let kex = KeyExchangeServer::new(NtsServerConfig {
            certificate_chain: tls::server_chain(),
            private_key: tls::server_key(),
            accepted_versions: case
                .versions
                .iter()
                .map(|v| NtpVersion::try_from(*v).expect("version"))
                .collect(),
            server: None,
            port: None,
            pool_authentication_tokens: case.tokens.clone(),
        })
        .expect("server config");
        let keyset = KeySetProvider::new(1).get();
        let permit_calls = Cell::new(0u32);
        let permit = case.permit;

        let server = async {
            let r = kex
                .handle_connection(s_io, &keyset, || {
                    permit_calls.set(permit_calls.get() + 1);
                    if permit { Some(()) } else { None }
                })
                .await;
            match r {
                Ok(Some(((), io))) => {
                    let _ = kex.handle_longterm(io, || keyset.clone()).await;
                    (true, true)
                }
                Ok(None) => (false, true),
                Err(_) => (false, false),
            }
        };

        let client = async {
            let mut steps = Vec::new();
            let Ok(mut io) = tls::connector().connect(tls::localhost(), c_io).await else {
                return (steps, true);
            };
            let mut st = St::New;
            for r in &reqs {
                let bytes = encode(r, &case.tokens);
                if io.write_all(&bytes).await.is_err() || io.flush().await.is_err() {
                    steps.push(Step {
                        got: ReadMsg::Closed { partial: false },
                        closed_after: Some(true),
                        cookie_keys: vec![],
                    });
                    break;
                }
                let got = read_message(&mut io).await;
                let k = classify(r, &case.tokens);
                st = next_state(st, k, case.permit);
                let answered = matches!(got, ReadMsg::Message(_));
                let mut step = Step { got, closed_after: None, cookie_keys: vec![] };
                if !answered {
                    step.closed_after = Some(matches!(step.got, ReadMsg::Closed { .. }));
                    steps.push(step);
                    break;
                }
                if st == St::Closed {
                    // the model says the server must have closed: probe
                    step.closed_after = Some(match read_message(&mut io).await {
                        ReadMsg::Closed { partial: false } => true,
                        _ => false,
                    });
                    steps.push(step);
                    break;
                }
                steps.push(step);
            }
            let _ = io.shutdown().await;
            drop(io);
            (steps, false)
        };

        let ((handle_returned, first_ok), (mut steps, tls_failed)) = tokio::join!(server, client);
        for s in &mut steps {
            if let ReadMsg::Message(recs) = &s.got {
                s.cookie_keys = summarize(recs)
                    .cookies
                    .iter()
                    .map(|c| {
                        keyset
                            .decode_cookie_pub(c)
                            .ok()
                            .map(|d| (cookie_algorithm(&d), d.c2s.key_bytes().to_vec(), d.s2c.key_bytes().to_vec()))
                    })
                    .collect();
            }
        }
        Obs {
            steps,
            handle_returned,
            first_ok,
            permit_calls: permit_calls.get(),
            tls_failed,
        }
    })
}

fn fail(sig: &str, what: String, l: Labels) -> Outcome {
    Outcome::fail(format!("c29/{sig}"), what).labels(l.0)
}

impl Property for C29 {
    type Case = Case;
    const ID: &'static str = "C29";
    const RULE: &'static str = "server config (0..3 tokens out of {pool-a,pool-b,hi,x,\"\"}, accepted versions, keep-alive permit available or not) × a first request and 0..3 follow-up requests (fixed-key / support / plain key exchange; token = configured, near-miss (truncated, extended, upper-cased, empty, wrapped in blanks / newline / tab / NUL / BOM / no-break space, doubled), foreign or absent; keep-alive flag; record order rotated; a few malformed variants), sent by a raw TLS client over an in-memory connection to handle_connection + handle_longterm. NON-TRIVIAL: the first request is a fixed-key or support request (token decision exercised); classes: token ok / wrong / empty / absent × keep-alive × permit, and plain key exchange on a kept-open connection.";
    const ASSUMPTIONS: &'static [&'static str] = &[
        "positive direction (configured token ⇒ served; asked ∧ permit ⇒ kept open) is checked as well, grounded in the crate's own tests; the statement itself is 'only if'",
        "on a kept-open connection the token of follow-up pool requests is not judged (statement scopes the token rule to new connections)",
        "malformed pool requests (wrong key size, unknown AEAD id, support request asking for nothing) only need: no cookies, no handle, connection closed",
        "virtual-time timeout (paused tokio clock) distinguishes 'connection left open' from 'closed'",
    ];
    const QUICK_CASES: u32 = 120_000;
    const THOROUGH_CASES: u32 = 2_500_000;

    fn strategy(_tier: Tier) -> BoxedStrategy<Case> {
        case()
    }

    fn enumerate(_tier: Tier) -> Vec<Case> {
        let mut v = Vec::new();
        let fixed = |tok: Tok, keep_alive: bool| Req::FixedKey {
            tok,
            alg512: false,
            proto: PROTO_V4,
            keep_alive,
            seed: 0,
            defect: 0,
            rot: 0,
        };
        let support = |tok: Tok, keep_alive: bool| Req::Support {
            tok,
            wants_protocols: true,
            wants_algorithms: true,
            keep_alive,
            rot: 0,
        };
        let plain = Req::Plain {
            protos: vec![PROTO_V4],
            algs: vec![ALG_256],
            keep_alive: true,
            tok: Some(Tok::Configured(0)),
        };
        for tokens in [vec![], vec!["hi".to_string()], vec!["pool-a".to_string(), "".to_string()]] {
            for permit in [false, true] {
                for ka in [false, true] {
                    for t in [Tok::Configured(0), Tok::Near(0, 0), Tok::Near(0, 3), Tok::Other("nope".into()), Tok::Absent] {
                        for mk in [0, 1] {
                            let first = if mk == 0 { fixed(t.clone(), ka) } else { support(t.clone(), ka) };
                            v.push(Case {
                                tokens: tokens.clone(),
                                versions: vec![4, 5],
                                permit,
                                first,
                                later: vec![support(Tok::Configured(0), true), plain.clone(), fixed(Tok::Configured(0), true)],
                            });
                        }
                    }
                }
            }
        }
        v
    }

    fn enumeration_note() -> Option<&'static str> {
        Some("token list {none, one, two incl. empty string} × permit × keep-alive × token {configured, truncated, empty, foreign, absent} × {fixed-key, support} first request, followed by support(keep-alive), plain key exchange, fixed-key")
    }

    fn check(case: &Case) -> Outcome {
        let obs = run(case);
        let mut l = Labels::default();
        if obs.tls_failed {
            return fail("tls-handshake-failed", "harness TLS client could not connect".into(), l);
        }
        let reqs: Vec<&Req> = std::iter::once(&case.first).chain(case.later.iter()).collect();
        let first_kind = classify(&case.first, &case.tokens);
        let nontrivial = matches!(first_kind, Kind::Pool { .. } | Kind::PoolNoAuth);

        // --- handle (kept-open) rule
        let expect_handle = matches!(first_kind, Kind::Pool { ok: true, keep_alive: true, .. }) && case.permit;
        l.add(match first_kind {
            Kind::Pool { ok: true, fixed: true, .. } => "first:fixed-key/token-ok",
            Kind::Pool { ok: true, fixed: false, .. } => "first:support/token-ok",
            Kind::Pool { ok: false, fixed: true, .. } => "first:fixed-key/token-wrong",
            Kind::Pool { ok: false, fixed: false, .. } => "first:support/token-wrong",
            Kind::PoolNoAuth => "first:pool/no-auth-record",
            Kind::Plain => "first:plain",
            Kind::Malformed => "first:malformed",
        });
        if let Kind::Pool { keep_alive, .. } = first_kind {
            l.add(match (keep_alive, case.permit) {
                (true, true) => "asked+permit",
                (true, false) => "asked+no-permit",
                (false, true) => "not-asked+permit",
                (false, false) => "not-asked+no-permit",
            });
        }
        l.add_if(case.tokens.is_empty(), "no-tokens-configured");
        l.add_if(case.tokens.iter().any(|t| t.is_empty()), "empty-token-configured");
        if obs.handle_returned && !expect_handle {
            let why = match first_kind {
                Kind::Pool { ok: false, .. } | Kind::PoolNoAuth => "handle/without-token",
                Kind::Pool { keep_alive: false, .. } => "handle/not-asked",
                Kind::Pool { .. } => "handle/no-permit",
                Kind::Plain => "handle/plain-request",
                Kind::Malformed => "handle/malformed-request",
            };
            return fail(why, format!("long-lived handle returned although not allowed: first={:?} permit={}", case.first, case.permit), l);
        }
        if !obs.handle_returned && expect_handle {
            return fail(
                "handle/missing",
                format!("authenticated request asked for keep-alive and a permit was available, but no handle was returned: {:?}", case.first),
                l,
            );
        }
        l.add_if(obs.handle_returned, "kept-open");

        // --- per-request rules
        let mut st = St::New;
        for (i, step) in obs.steps.iter().enumerate() {
            let r = reqs[i];
            let k = classify(r, &case.tokens);
            let was = st;
            st = next_state(st, k, case.permit);
            let where_ = if was == St::New { "new" } else { "open" };
            let summary = match &step.got {
                ReadMsg::Message(recs) => Some(summarize(recs)),
                _ => None,
            };
            let issued = summary
                .as_ref()
                .map(|s| !s.cookies.is_empty() || !s.supported_algorithms.is_empty() || !s.supported_protocols.is_empty())
                .unwrap_or(false);
            let bad_request = summary.as_ref().map(|s| s.errors == vec![1u16]).unwrap_or(false);

            // what must the answer be?
            enum Want {
                Served,
                BadRequest,
                NothingIssued,
                Unconstrained,
            }
            let want = match (was, k) {
                (St::New, Kind::Pool { ok: true, .. }) => Want::Served,
                (St::New, Kind::Pool { ok: false, .. }) | (St::New, Kind::PoolNoAuth) => Want::BadRequest,
                (St::New, Kind::Plain) => Want::Unconstrained,
                (St::Open, Kind::Pool { .. }) => Want::Served,
                (St::Open, Kind::PoolNoAuth) => Want::BadRequest,
                (St::Open, Kind::Plain) => Want::BadRequest,
                (_, Kind::Malformed) => Want::NothingIssued,
                (St::Closed, _) => unreachable!("client stops after the model says closed"),
            };
            if was == St::Open {
                l.add(match k {
                    Kind::Plain => "open:plain",
                    Kind::Pool { ok: true, .. } => "open:pool/token-ok",
                    Kind::Pool { ok: false, .. } => "open:pool/token-wrong",
                    Kind::PoolNoAuth => "open:pool/no-auth-record",
                    Kind::Malformed => "open:malformed",
                });
            }
            match want {
                Want::Served => {
                    let Some(s) = &summary else {
                        return fail(
                            &format!("{where_}/pool-ok/no-answer"),
                            format!("request #{i} {r:?} got no complete answer: {:?}", step.got),
                            l,
                        );
                    };
                    if !s.errors.is_empty() {
                        return fail(
                            &format!("{where_}/pool-ok/error"),
                            format!("request #{i} {r:?} was answered with error {:?}", s.errors),
                            l,
                        );
                    }
                    match r {
                        Req::FixedKey { alg512, proto, seed, defect, .. } => {
                            let (c2s, s2c) = keys(*alg512, *defect, *seed);
                            if s.cookies.is_empty() {
                                return fail(&format!("{where_}/fixed-key/no-cookies"), format!("request #{i} {r:?}: {s:?}"), l);
                            }
                            if s.next_protocols != vec![vec![*proto]] || s.aead != vec![vec![alg_id(*alg512, 0)]] {
                                return fail(
                                    &format!("{where_}/fixed-key/wrong-parameters"),
                                    format!("request #{i} {r:?}: answer names {:?}/{:?}", s.next_protocols, s.aead),
                                    l,
                                );
                            }
                            // cookies must carry exactly the supplied keys
                            let want = Some((alg_id(*alg512, 0), c2s, s2c));
                            if step.cookie_keys.iter().any(|k| *k != want) {
                                return fail(
                                    &format!("{where_}/fixed-key/cookie-keys"),
                                    format!("request #{i} {r:?}: a cookie does not decode to the supplied keys: {:?}", step.cookie_keys),
                                    l,
                                );
                            }
                        }
                        Req::Support {
                            wants_protocols,
                            wants_algorithms,
                            ..
                        } => {
                            if !s.cookies.is_empty() {
                                return fail(&format!("{where_}/support/cookies"), format!("request #{i} {r:?}: {s:?}"), l);
                            }
                            if (s.supported_protocols.len() == 1) != *wants_protocols
                                || (s.supported_algorithms.len() == 1) != *wants_algorithms
                                || s.supported_protocols.len() > 1
                                || s.supported_algorithms.len() > 1
                            {
                                return fail(
                                    &format!("{where_}/support/wrong-lists"),
                                    format!("request #{i} {r:?}: {s:?}"),
                                    l,
                                );
                            }
                        }
                        Req::Plain { .. } => unreachable!(),
                    }
                    // keep-alive announced on the first answer must match the handle
                    if was == St::New && s.keep_alive != obs.handle_returned {
                        return fail(
                            "new/keep-alive-record-vs-handle",
                            format!("first answer keep-alive record = {}, handle returned = {}", s.keep_alive, obs.handle_returned),
                            l,
                        );
                    }
                }
                Want::BadRequest => {
                    if issued {
                        let sig = match k {
                            Kind::Plain => "open/plain/served".to_string(),
                            _ => format!("{where_}/pool-denied/served"),
                        };
                        return fail(&sig, format!("request #{i} {r:?} must be refused but the answer issues cookies/lists: {summary:?}"), l);
                    }
                    if !bad_request {
                        let sig = match k {
                            Kind::Plain => "open/plain/no-bad-request".to_string(),
                            _ => format!("{where_}/pool-denied/no-bad-request"),
                        };
                        return fail(&sig, format!("request #{i} {r:?} must be answered with a bad-request error, got {:?}", step.got), l);
                    }
                }
                Want::NothingIssued => {
                    if issued {
                        return fail(&format!("{where_}/malformed/served"), format!("request #{i} {r:?}: {summary:?}"), l);
                    }
                }
                Want::Unconstrained => {}
            }
            // closed / open afterwards
            match (st, step.closed_after) {
                (St::Closed, Some(false)) => {
                    let sig = match (was, k) {
                        (St::Open, Kind::Plain) => "open/plain/not-closed".to_string(),
                        (_, Kind::Pool { ok: false, .. }) | (_, Kind::PoolNoAuth) => format!("{where_}/pool-denied/not-closed"),
                        (_, Kind::Pool { .. }) => format!("{where_}/pool-ok/not-closed"),
                        _ => format!("{where_}/other/not-closed"),
                    };
                    return fail(&sig, format!("after request #{i} {r:?} the connection must be closed but stayed open / sent more data"), l);
                }
                (St::Open, Some(true)) => {
                    return fail(
                        &format!("{where_}/pool-ok/closed-early"),
                        format!("after request #{i} {r:?} the connection should stay open but was closed"),
                        l,
                    );
                }
                _ => {}
            }
        }
        if obs.steps.is_empty() {
            return fail("no-steps", "nothing was exchanged".into(), l);
        }
        l.add_if(obs.permit_calls > 0, "permit-requested");
        let _ = obs.first_ok;
        Outcome::pass(nontrivial).labels(l.0)
    }
}
