//! C07–C13 — oracles over the source world (one real NtpSource + scripted server).
use std::collections::VecDeque;
use std::time::Duration;

use crate::engine::*;
use crate::refwire::*;
use crate::w_source::*;
use ntp_proto::ProtocolVersion;
use proptest::prelude::*;

macro_rules! bail {
    ($sig:expr, $($fmt:tt)*) => {
        return Err(Failure { signature: $sig.to_string(), what: format!($($fmt)*) })
    };
}

#[derive(Clone, Copy, PartialEq, Eq, Debug)]
pub enum Which {
    C07,
    C08,
    C09,
    C10,
    C11,
    C12,
    C13,
}

// ---------------------------------------------------------------------------
// reference model of the association (written from the property statements)

#[derive(Clone, Copy, PartialEq, Eq, Debug)]
enum Ver {
    V4,
    Auto(u8),
    Upgraded,
    V5,
}

#[derive(Clone, Copy, PartialEq, Eq, Debug)]
enum Class {
    Ignored,
    Accepted,
    Rate,
    DenyRstr,
    Ntsn,
    UnknownKiss,
    /// matching answer that is dropped late (stratum > 16 or not server mode)
    MatchingUnusable,
}

struct Model {
    nts: bool,
    ver: Ver,
    pending: Option<(usize, Duration)>,
    reach: u8,
    tries: usize,
    deny: bool,
    remote_min: i8,
    last_poll: i8,
    max_requested: i8,
    stash: VecDeque<Vec<u8>>,
    poll_min: i8,
    poll_max: i8,
    /// set when the trace went through behaviour the statements leave open; later steps are not judged
    tainted: bool,
}

fn expects(ver: Ver, wire_version: u8) -> bool {
    match ver {
        Ver::V4 => wire_version == 4 || wire_version == 3,
        Ver::Auto(_) => wire_version == 4,
        Ver::Upgraded | Ver::V5 => wire_version == 5,
    }
}

impl Model {
    fn new(case: &SourceCase, initial_cookies: &[Vec<u8>]) -> Model {
        let mut stash = VecDeque::new();
        for c in initial_cookies {
            stash.push_back(c.clone());
            if stash.len() > 8 {
                stash.pop_front();
            }
        }
        Model {
            nts: case.nts.is_some(),
            ver: match (case.proto, case.nts.is_some()) {
                (1, _) => Ver::V5,
                (2, false) => Ver::Auto(8),
                _ => Ver::V4,
            },
            pending: None,
            reach: 0,
            tries: 0,
            deny: false,
            remote_min: case.poll_min,
            last_poll: case.poll_min,
            max_requested: i8::MIN,
            stash,
            poll_min: case.poll_min,
            poll_max: case.poll_max,
            tainted: false,
        }
    }

    /// how the association must treat this datagram (before any state change)
    fn classify(&mut self, d: &Delivery, req_has_uid: bool, now: Duration) -> Class {
        let Some(r) = &d.resp else { return Class::Ignored };
        let Some(p) = decode_packet(&d.bytes, None) else { return Class::Ignored };
        // NTS: a present but invalid authenticator makes the whole datagram undecodable
        if self.nts && p.auth_offset.is_some() && !d.proper_auth {
            return Class::Ignored;
        }
        if d.version == 5 && r.mode != 3 && r.mode != 4 {
            return Class::Ignored; // NTPv5 has no other modes: undecodable
        }
        if !expects(self.ver, d.version) {
            return Class::Ignored;
        }
        let Some((idx, deadline)) = self.pending else { return Class::Ignored };
        if now > deadline || d.for_req != Some(idx) || !d.origin_ok {
            return Class::Ignored;
        }
        let (stratum, poll, authnak, refid) = match p.hdr {
            Hdr::V34(h) => (h.stratum, h.poll, false, h.refid),
            Hdr::V5(h) => (h.stratum, h.poll, h.flags & V5_FLAG_AUTHNAK != 0, 0),
        };
        let v5 = matches!(p.hdr, Hdr::V5(_));
        let is_kiss = stratum == 0;
        let is_ntsn = is_kiss && if v5 { authnak } else { refid == KISS_NTSN };
        let is_rate = is_kiss && if v5 { (poll as i8) > self.last_poll && poll != 127 } else { refid == KISS_RATE };
        let is_deny = is_kiss && if v5 { poll == 127 } else { refid == KISS_DENY || refid == KISS_RSTR };
        let mut via_nak_exception = false;
        if req_has_uid {
            if r.uid == UidSel::Wrong && d.proper_auth && d.uid_trusted {
                return Class::Ignored;
            }
            if !d.uid_trusted {
                // unauthenticated identifiers are only good enough for an NTS NAK
                if !(is_ntsn && d.uid_present_untrusted && r.uid != UidSel::Wrong) {
                    return Class::Ignored;
                }
                via_nak_exception = true;
            }
            if r.uid == UidSel::Wrong {
                return Class::Ignored;
            }
        }
        let _ = via_nak_exception;
        if is_ntsn {
            // a NAK is only ever a NAK (an unauthenticated datagram is accepted for nothing else)
            return Class::Ntsn;
        }
        if is_rate {
            Class::Rate
        } else if is_deny {
            Class::DenyRstr
        } else if is_ntsn {
            Class::Ntsn
        } else if is_kiss {
            Class::UnknownKiss
        } else if stratum > 16 || r.mode != 4 {
            Class::MatchingUnusable
        } else {
            Class::Accepted
        }
    }

    fn on_matching(&mut self, d: &Delivery) {
        // version negotiation reacts to every matching answer
        match self.ver {
            Ver::Auto(t) => {
                let marked = decode_packet(&d.bytes, None).is_some_and(|p| matches!(p.hdr, Hdr::V34(h) if h.vn == 4 && h.ref_ts == UPGRADE_TS));
                if marked {
                    self.ver = Ver::Upgraded;
                } else if t <= 1 {
                    self.ver = Ver::V4;
                } else {
                    self.ver = Ver::Auto(t - 1);
                }
            }
            Ver::Upgraded => self.ver = Ver::V5,
            _ => {}
        }
    }
}

fn count_measurements(ev: &[CtlEvent]) -> usize {
    ev.iter().filter(|e| matches!(e, CtlEvent::Measurement { .. })).count()
}

/// trace abstraction used by the twin-run (metamorphic) oracles
fn abstract_trace(t: &Trace, keep: &dyn Fn(usize) -> bool) -> Vec<String> {
    let mut out = Vec::new();
    for s in &t.steps {
        if !keep(s.op) {
            continue;
        }
        let acts: Vec<String> = s
            .actions
            .iter()
            .map(|a| match a {
                Act::Send(n) => format!("send{n}"),
                Act::SetTimer(d) => format!("timer~{}", (d.as_secs_f64() / 1.03).log2().round() as i64),
                Act::Reset => "reset".into(),
                Act::Demobilize => "demobilize".into(),
            })
            .collect();
        let sent = s.sent.map(|i| {
            let p = &t.sent[i];
            format!("v{} poll{} upg{} cookie{:?} ph{:?}", p.version, p.poll, p.upgrade_request, p.cookie.as_ref().map(|c| crate::engine::truncate_json(serde_json::json!(c), 40)), p.placeholders)
        });
        let ev: Vec<String> = s
            .events
            .iter()
            .map(|e| match e {
                CtlEvent::Measurement { outgoing, sender_ts, receiver_ts, .. } => format!("m{outgoing}:{sender_ts:x}:{receiver_ts:x}"),
                CtlEvent::Usable(b) => format!("u{b}"),
            })
            .collect();
        out.push(format!(
            "{acts:?} {sent:?} {ev:?} un{} pi{} ck{:?} ver{:?} rmin{} deny{}",
            s.obs.unanswered_polls, s.obs.poll_interval, s.obs.nts_cookies, s.state.protocol_version, s.state.remote_min_poll_interval, s.state.have_deny_rstr_response
        ));
    }
    out
}

fn first_diff(a: &[String], b: &[String]) -> String {
    for (i, (x, y)) in a.iter().zip(b.iter()).enumerate() {
        if x != y {
            return format!("step {i}: with the datagram(s): {x} | without: {y}");
        }
    }
    format!("length {} vs {}", a.len(), b.len())
}

fn judge(case: &SourceCase, t: &Trace, which: Which, labels: &mut Labels, nontrivial: &mut bool) -> Result<(), Failure> {
    use Which::*;
    let mut m = Model::new(case, &t.initial_cookies);
    let mut measured_for: std::collections::HashSet<usize> = Default::default();
    let mut sent_cookies: Vec<Vec<u8>> = Vec::new();
    let mut polls = 0usize;
    let mut interval_changes = 0usize;
    let mut last_sent_poll: Option<u8> = None;
    // ops whose delivery is "not authentic" (C07) or an NTSN/unknown kiss (C09)
    let mut remove_c07: Vec<usize> = Vec::new();
    let mut remove_c09: Vec<usize> = Vec::new();
    let mut rate_pending: Option<(i8 /*last poll*/, i8 /*remote_min before*/)> = None;

    for (si, s) in t.steps.iter().enumerate() {
        let op = &case.ops[s.op];
        let n_meas = count_measurements(&s.events);
        let judged = !m.tainted;
        match op {
            Op::Timer => {
                // ------------------------------------------------ predictions
                let expect_stop = m.reach == 0 && m.tries >= 3;
                let acted_reset = s.actions.contains(&Act::Reset);
                let acted_demob = s.actions.contains(&Act::Demobilize);
                let sent_now = s.sent.map(|i| &t.sent[i]);
                if expect_stop {
                    labels.add("predicted-reset-or-demobilize");
                    if which == C11 && judged {
                        *nontrivial = true;
                        if sent_now.is_some() {
                            bail!("unreachable-source-keeps-polling", "step {si}: model reach 0 after {} polls, but a packet was sent", m.tries);
                        }
                        if m.deny && !acted_demob {
                            bail!("denied-unreachable-source-not-demobilised", "step {si}: actions {:?}", s.actions);
                        }
                        if !m.deny && !acted_reset {
                            bail!("unreachable-source-not-reset", "step {si}: actions {:?}", s.actions);
                        }
                    }
                    break;
                }
                // upgraded association that misses two polls falls back
                if m.ver == Ver::Upgraded && m.reach.trailing_zeros() >= 2 {
                    m.ver = Ver::V4;
                    labels.add("fallback-after-missed-v5-polls");
                }
                let Some(p) = sent_now else {
                    // NTS sources may ask for a reset when they cannot build a request (no cookie / too large)
                    if m.nts && acted_reset {
                        labels.add("nts-reset-no-cookie");
                        if which == C13 && judged && !m.stash.is_empty() {
                            let c = m.stash.front().unwrap();
                            if c.len() <= 724 {
                                bail!("reset-although-cookie-available", "step {si}: {} cookies held, first has {} bytes", m.stash.len(), c.len());
                            }
                        }
                        break;
                    }
                    if which == C11 && judged {
                        bail!("responsive-source-stopped", "step {si}: model reach {:#010b} tries {} but actions {:?}", m.reach, m.tries, s.actions);
                    }
                    break;
                };
                polls += 1;
                if last_sent_poll.is_some_and(|l| l != p.poll) {
                    interval_changes += 1;
                }
                last_sent_poll = Some(p.poll);
                m.reach <<= 1;
                m.tries += 1;
                // ------------------------------------------------ C12: version of the request
                if which == C12 && judged {
                    let ok = match m.ver {
                        Ver::V4 => p.version == 4 && !p.upgrade_request,
                        Ver::Auto(_) => p.version == 4 && (p.upgrade_request || m.nts),
                        Ver::Upgraded | Ver::V5 => p.version == 5 && p.draft_id,
                    };
                    if !ok {
                        bail!("request-version-differs-from-negotiation-state", "step {si}: model {:?}, sent v{} upgrade-marker {}", m.ver, p.version, p.upgrade_request);
                    }
                    if p.mode != 3 {
                        bail!("request-not-client-mode", "mode {}", p.mode);
                    }
                }
                // ------------------------------------------------ C10: poll bounds + timer
                if which == C10 && judged {
                    let pb = p.poll as i8;
                    let upper = m.poll_max.max(m.max_requested);
                    if pb < m.poll_min || pb > upper {
                        bail!("poll-exponent-out-of-bounds", "step {si}: poll {pb} not in [{}, max({}, requested {})]", m.poll_min, m.poll_max, m.max_requested);
                    }
                    let Some(Act::SetTimer(d)) = s.actions.iter().find(|a| matches!(a, Act::SetTimer(_))) else {
                        bail!("poll-without-timer", "step {si}: actions {:?}", s.actions);
                    };
                    let base = (1u64 << (pb.clamp(0, 31) as u32)) as f64;
                    let secs = d.as_secs_f64();
                    if secs < base * 1.01 - 1e-6 || secs > base * 1.05 + 1e-6 {
                        bail!("next-poll-not-within-1.01-1.05-intervals", "step {si}: poll {pb} timer {secs}s");
                    }
                    if polls >= 3 && interval_changes >= 1 {
                        *nontrivial = true;
                    }
                }
                // ------------------------------------------------ C09: after a valid RATE
                if let Some((prev_poll, rmin_before)) = rate_pending.take() {
                    if which == C09 && judged {
                        let pb = p.poll as i8;
                        if pb < prev_poll {
                            bail!("polls-faster-after-rate", "step {si}: poll {pb} < previous {prev_poll}");
                        }
                        let want = (rmin_before.saturating_add(1)).min(m.poll_max);
                        if s.desired <= rmin_before && pb < want && pb < m.poll_max {
                            bail!("rate-did-not-lengthen-interval", "step {si}: poll {pb}, remote minimum before {rmin_before}, configured max {}", m.poll_max);
                        }
                    }
                }
                // ------------------------------------------------ C13: cookie use
                if m.nts {
                    let expected = m.stash.pop_front();
                    if which == C13 && judged {
                        if p.cookie.is_none() || !p.has_auth || !p.authenticated {
                            bail!("nts-request-without-cookie-or-authenticator", "step {si}: cookie {:?} auth {} ok {}", p.cookie.as_ref().map(|c| c.len()), p.has_auth, p.authenticated);
                        }
                        let c = p.cookie.clone().unwrap();
                        let same = expected.as_ref().is_some_and(|e| {
                            c.len() >= e.len() && c.len() < e.len() + 16 && c[..e.len()] == e[..] && c[e.len()..].iter().all(|b| *b == 0)
                        });
                        if !same {
                            bail!("cookie-not-oldest-first", "step {si}: sent cookie of {} bytes, model expected {:?} bytes", c.len(), expected.as_ref().map(|c| c.len()));
                        }
                        // (distinct cookies of the case have distinct bytes unless they are empty)
                        let e = expected.clone().unwrap_or_default();
                        if !e.is_empty() && sent_cookies.contains(&e) {
                            bail!("cookie-sent-twice", "step {si}");
                        }
                        let gap = 8 - m.stash.len();
                        let asked = p.placeholders.len() + 1;
                        if asked > gap {
                            bail!("asks-for-more-cookies-than-missing", "step {si}: asked {asked}, missing {gap}");
                        }
                        if asked < gap && gap * c.len().max(1) <= 674 {
                            bail!("asks-for-fewer-cookies-than-missing", "step {si}: asked {asked}, missing {gap}, cookie {} bytes", c.len());
                        }
                        if p.placeholders.iter().any(|l| *l != c.len() && *l != expected.as_ref().map(|e| e.len()).unwrap_or(0)) {
                            bail!("placeholder-size-differs-from-cookie", "step {si}: placeholders {:?} cookie {}", p.placeholders, c.len());
                        }
                        if !p.placeholders.is_empty() || gap > 1 {
                            *nontrivial = true;
                        }
                        sent_cookies.push(e);
                    }
                }
                m.last_poll = p.poll as i8;
                m.pending = Some((s.sent.unwrap(), s.at + Duration::from_secs(5)));
                // the answer window starts when the request is sent (s.at is measured after the op; no time passes inside)
            }
            Op::Advance { .. } | Op::SetDesired(_) => {}
            Op::Garbage(_) | Op::Deliver(_) | Op::DeliverFor { .. } | Op::Replay { .. } => {
                let Some(d) = &s.delivery else { continue };
                let req = d.for_req.map(|i| &t.sent[i]);
                let req_has_uid = req.is_some_and(|r| r.uid.is_some());
                let now = s.at;
                let class = m.classify(d, req_has_uid, now);
                labels.add(match class {
                    Class::Ignored => "delivery-ignored",
                    Class::Accepted => "delivery-accepted",
                    Class::Rate => "kiss-rate",
                    Class::DenyRstr => "kiss-deny-rstr",
                    Class::Ntsn => "kiss-ntsn",
                    Class::UnknownKiss => "kiss-unknown",
                    Class::MatchingUnusable => "matching-unusable",
                });
                labels.add_if(d.is_replay, "replay");
                // C07: authenticity as the harness knows it
                if m.nts {
                    let authentic = d.proper_auth && d.origin_ok && class != Class::Ignored;
                    if !authentic {
                        remove_c07.push(s.op);
                        if m.pending.is_some() {
                            labels.add("non-authentic-while-pending");
                        }
                    }
                }
                if matches!(class, Class::Ntsn | Class::UnknownKiss) {
                    remove_c09.push(s.op);
                }
                // ------------------------------------------------ C08
                if which == C08 {
                    if n_meas > 0 {
                        let Some(r) = &d.resp else { bail!("measurement-from-garbage", "step {si}") };
                        let pend = m.pending.map(|p| p.0);
                        let mut why = Vec::new();
                        if d.for_req != pend || pend.is_none() {
                            why.push("not an answer to the most recent request");
                        }
                        if !d.origin_ok {
                            why.push("origin/client cookie differs");
                        }
                        if req_has_uid && !d.uid_trusted {
                            why.push("unique identifier missing or not authenticated");
                        }
                        if !d.within_window {
                            why.push("outside the poll window");
                        }
                        // expected version: the reference negotiation machine (C12 checks the implementation
                        // against the same machine), not the implementation's own state
                        if !expects(m.ver, d.version) {
                            why.push("unexpected protocol version");
                        }
                        if r.mode != 4 {
                            why.push("not server mode");
                        }
                        match r.kind {
                            RespKind::Time { stratum } if stratum.max(1) <= 16 => {}
                            RespKind::Time { .. } => why.push("stratum above 16"),
                            _ => why.push("kiss code"),
                        }
                        if let Some(i) = d.for_req {
                            if measured_for.contains(&i) {
                                why.push("second measurement for the same request");
                            }
                        }
                        if !why.is_empty() {
                            bail!(format!("measurement-from-unacceptable-answer/{}", why[0].replace(' ', "-")), "step {si}: {:?}", why);
                        }
                        if n_meas != 2 {
                            bail!("measurement-count", "step {si}: {n_meas} measurement events for one answer");
                        }
                        // timestamps
                        let mut ok = false;
                        if let (CtlEvent::Measurement { outgoing: true, sender_ts: a, receiver_ts: b, .. }, CtlEvent::Measurement { outgoing: false, sender_ts: c, receiver_ts: e, .. }) =
                            (&s.events.iter().filter(|e| matches!(e, CtlEvent::Measurement { .. })).next().unwrap(), &s.events.iter().filter(|e| matches!(e, CtlEvent::Measurement { .. })).nth(1).unwrap())
                        {
                            ok = *a == d.send_time && *b == r.t2 && *c == r.t3 && *e == d.recv_time;
                        }
                        if !ok {
                            bail!("measurement-timestamps-differ", "step {si}: events {:?} vs T1 {:#x} T2 {:#x} T3 {:#x} T4 {:#x}", s.events, d.send_time, r.t2, r.t3, d.recv_time);
                        }
                        // leap status as the answer reports it on the wire: NTPv3/4 LI 3 = unsynchronised; NTPv5 carries
                        // "synchronised" as a flag (the scripted server sets it for stratum 1..15) and LI 3 = unknown
                        if let RespKind::Time { stratum } = r.kind {
                            let li = r.li & 3;
                            let want = if d.version == 5 {
                                if stratum != 0 && stratum < 16 { if li == 3 { 3 } else { li } } else { 4 }
                            } else if li == 3 {
                                4
                            } else {
                                li
                            };
                            for e in &s.events {
                                if let CtlEvent::Measurement { leap, .. } = e {
                                    if *leap != want {
                                        bail!("measurement-leap-differs-from-wire", "step {si}: version {} stratum {stratum} LI {li}: measurement says leap code {leap}, the answer says {want} (0 none, 1 +1, 2 -1, 3 unknown, 4 unsynchronised)", d.version);
                                    }
                                }
                            }
                        }
                        if let Some(i) = d.for_req {
                            measured_for.insert(i);
                        }
                    }
                    // a delivery that violates exactly one condition, or a replay of an accepted answer
                    if d.is_replay || (class == Class::Ignored && d.resp.is_some()) {
                        *nontrivial = true;
                    }
                }
                if !judged {
                    // keep the model roughly in sync but do not assert
                }
                // ------------------------------------------------ state update + C09/C11/C12/C13 assertions
                match class {
                    Class::Ignored => {
                        if which == C12 && judged && n_meas > 0 && !expects(m.ver, d.version) {
                            bail!("answer-of-unexpected-version-accepted", "step {si}: model {:?}, answer v{}", m.ver, d.version);
                        }
                    }
                    Class::Accepted => {
                        let before = m.ver;
                        m.on_matching(d);
                        labels.add_if(before != m.ver, "version-transition");
                        m.reach |= 1;
                        m.deny = false;
                        m.pending = None;
                        if let Some(p) = decode_packet(&d.bytes, None) {
                            if let Hdr::V5(h) = p.hdr {
                                m.max_requested = m.max_requested.max(h.poll as i8);
                                if (h.poll as i8) > m.remote_min {
                                    m.remote_min = h.poll as i8;
                                }
                            }
                        }
                        if m.nts {
                            let r = d.resp.as_ref().unwrap();
                            for (i, l) in r.new_cookies.iter().enumerate() {
                                // same derivation as build_response
                                let seed = case.key_seed.wrapping_add(original_op(case, t, s, d) as u64 * 104_729);
                                let c = crate::w_server::seeded_bytes(seed ^ 0x7700 ^ ((i as u64) << 32), *l as usize);
                                m.stash.push_back(c);
                                if m.stash.len() > 8 {
                                    m.stash.pop_front();
                                }
                            }
                            if which == C13 && judged {
                                if s.obs.nts_cookies != Some(m.stash.len()) {
                                    bail!("cookie-count-differs-from-fifo-model", "step {si}: holds {:?}, model {}", s.obs.nts_cookies, m.stash.len());
                                }
                                if r.new_cookies.len() > 8 {
                                    labels.add("overfill");
                                    *nontrivial = true;
                                }
                            }
                        }
                        if which == C11 && judged && n_meas == 0 {
                            bail!("usable-answer-not-used", "step {si}: model accepts this answer but no measurement was produced");
                        }
                        if which == C12 && judged && n_meas == 0 {
                            bail!("matching-answer-of-expected-version-rejected", "step {si}: model {:?}", before);
                        }
                    }
                    Class::Rate => {
                        m.on_matching(d);
                        let before = m.remote_min;
                        m.max_requested = m.max_requested.max(decode_packet(&d.bytes, None).map(|p| p.hdr.poll() as i8).filter(|_| d.version == 5).unwrap_or(i8::MIN));
                        m.remote_min = (m.remote_min.saturating_add(1)).min(m.poll_max).max(m.last_poll);
                        rate_pending = Some((m.last_poll, before));
                        if which == C09 {
                            *nontrivial = true;
                        }
                        if which == C09 && judged && (n_meas > 0 || !s.actions.is_empty()) {
                            bail!("rate-kiss-produced-measurement-or-action", "step {si}: {:?} {:?}", s.events, s.actions);
                        }
                    }
                    Class::DenyRstr => {
                        m.on_matching(d);
                        if which == C09 {
                            *nontrivial = true;
                        }
                        if m.nts {
                            if which == C09 && judged && !s.actions.contains(&Act::Demobilize) {
                                bail!("authenticated-deny-did-not-demobilise", "step {si}: actions {:?}", s.actions);
                            }
                            break;
                        } else {
                            m.deny = true;
                            if which == C09 && judged && !s.actions.is_empty() {
                                bail!("unauthenticated-deny-acted-immediately", "step {si}: actions {:?}", s.actions);
                            }
                        }
                    }
                    Class::Ntsn | Class::UnknownKiss | Class::MatchingUnusable => {
                        m.on_matching(d);
                        if which == C09 && judged && class != Class::MatchingUnusable && (n_meas > 0 || !s.actions.is_empty()) {
                            bail!("ntsn-or-unknown-kiss-had-effect", "step {si}: {:?} {:?}", s.events, s.actions);
                        }
                    }
                }
                if which == C09 && judged && s.actions.contains(&Act::Demobilize) && !(class == Class::DenyRstr && m.nts) {
                    bail!("demobilised-without-valid-authenticated-deny", "step {si}: class {class:?}");
                }
            }
        }
        // ---------------------------------------------------- per-step observations
        if !m.tainted {
            if which == C11 {
                let want = (m.reach.trailing_zeros()).min(8);
                if s.obs.unanswered_polls != want {
                    bail!("missed-poll-count-differs", "step {si}: reported {}, polls since last usable answer (max 8) = {want}", s.obs.unanswered_polls);
                }
                if polls >= 9 {
                    *nontrivial = true;
                }
            }
            if which == C13 && m.nts && s.obs.nts_cookies.is_some_and(|n| n > 8) {
                bail!("more-than-eight-cookies", "step {si}");
            }
            if which == C12 {
                let hook_ver = match s.state.protocol_version {
                    ProtocolVersion::V4 => Ver::V4,
                    ProtocolVersion::V4UpgradingToV5 { tries_left } => Ver::Auto(tries_left),
                    ProtocolVersion::UpgradedToV5 => Ver::Upgraded,
                    ProtocolVersion::V5 => Ver::V5,
                };
                // the fallback check happens lazily at the next timer: compare only what is observable
                let same = hook_ver == m.ver || (hook_ver == Ver::Upgraded && m.ver == Ver::V4) || (hook_ver == Ver::V4 && m.ver == Ver::Upgraded);
                if !same {
                    bail!("negotiation-state-differs-from-reference-machine", "step {si}: implementation {:?}, reference {:?}", s.state.protocol_version, m.ver);
                }
                if matches!(m.ver, Ver::Upgraded | Ver::V5) && case.proto == 2 {
                    *nontrivial = true;
                }
                if case.proto == 2 && m.ver == Ver::V4 {
                    *nontrivial = true;
                }
            }
        } else {
            labels.add("tainted-ambiguous-v5-nak");
        }
    }

    // ------------------------------------------------------------ twin runs
    if which == C07 && case.nts.is_some() && !remove_c07.is_empty() {
        *nontrivial = true;
        let mut twin = case.clone();
        let removed: std::collections::HashSet<usize> = remove_c07.iter().copied().collect();
        twin.skip = removed.iter().copied().collect();
        let t2 = crate::rt::run_paused(run_case(&twin));
        let keep = |op: usize| !removed.contains(&op);
        let a = abstract_trace(t, &keep);
        let b = abstract_trace(&t2, &keep);
        if a != b {
            // name the kind of the first removed delivery that precedes the difference
            let kind = first_effective_removed(case, t, &removed);
            bail!(format!("non-authentic-datagram-had-effect/{kind}"), "{}", first_diff(&a, &b));
        }
    }
    if which == C09 && !remove_c09.is_empty() && !m.tainted {
        let mut twin = case.clone();
        let removed: std::collections::HashSet<usize> = remove_c09.iter().copied().collect();
        twin.skip = removed.iter().copied().collect();
        let t2 = crate::rt::run_paused(run_case(&twin));
        let keep = |op: usize| !removed.contains(&op);
        // version negotiation may legitimately count a matching kiss; compare everything else
        let strip = |v: Vec<String>| -> Vec<String> { v.into_iter().map(|s| s.split(" ver").next().unwrap_or("").to_string() + s.split(" rmin").nth(1).unwrap_or("")).collect() };
        let a = strip(abstract_trace(t, &keep));
        let b = strip(abstract_trace(&t2, &keep));
        if a != b && case.proto != 2 {
            bail!("ntsn-or-unknown-kiss-changed-later-behaviour", "{}", first_diff(&a, &b));
        }
    }
    Ok(())
}

/// op index that produced the bytes of delivery `d` (replays reuse the original op's seed)
fn original_op(case: &SourceCase, t: &Trace, s: &Step, d: &Delivery) -> usize {
    if !d.is_replay {
        return s.op;
    }
    for st in &t.steps {
        if let Some(od) = &st.delivery {
            if !od.is_replay && od.bytes == d.bytes {
                return st.op;
            }
        }
    }
    let _ = case;
    s.op
}

fn first_effective_removed(case: &SourceCase, _t: &Trace, removed: &std::collections::HashSet<usize>) -> String {
    let mut kinds: Vec<String> = Vec::new();
    let mut v: Vec<usize> = removed.iter().copied().collect();
    v.sort();
    for i in v {
        let k = match &case.ops[i] {
            Op::Deliver(r) | Op::DeliverFor { resp: r, .. } => format!(
                "{}-{}",
                match r.kind {
                    RespKind::Time { .. } => "time",
                    RespKind::Rate => "rate",
                    RespKind::Deny => "deny",
                    RespKind::Rstr => "rstr",
                    RespKind::Ntsn => "ntsn",
                    RespKind::UnknownKiss(_) => "unknown-kiss",
                },
                match r.auth {
                    AuthSel::Proper => "proper-auth",
                    AuthSel::Strip => "no-authenticator",
                    AuthSel::WrongKey(_) => "wrong-key",
                    AuthSel::ClientKey => "c2s-key",
                    AuthSel::Corrupt(_) => "corrupt-authenticator",
                    AuthSel::EmptyCiphertext { .. } => "empty-ciphertext",
                }
            ),
            Op::Replay { .. } => "replay".into(),
            Op::Garbage(_) => "garbage".into(),
            _ => "other".into(),
        };
        if !kinds.contains(&k) {
            kinds.push(k);
        }
    }
    kinds.join("+")
}

pub fn check_source(case: &SourceCase, which: Which) -> Outcome {
    let t = crate::rt::run_paused(run_case(case));
    let mut labels = Labels::default();
    let mut nontrivial = false;
    labels.add(if case.nts.is_some() { "nts" } else { "plain" });
    labels.add(match case.proto {
        0 => "cfg-v4",
        1 => "cfg-v5",
        _ => "cfg-auto",
    });
    let r = judge(case, &t, which, &mut labels, &mut nontrivial);
    let mut out = match r {
        Ok(()) => Outcome::pass(nontrivial),
        Err(f) => Outcome { failure: Some(f), labels: vec![], nontrivial: true },
    };
    out.labels = labels.0;
    out
}

/// C12 mixes the general histories with negotiation runs: an automatic-mode association that gets k answers
/// without the upgrade marker (k around the number of tries, some polls unanswered, some answers KISS), then
/// answers with the marker, then arbitrary traffic: the give-up / upgrade decision is taken at every boundary
fn strategy_for(which: Which, max_ops: usize) -> BoxedStrategy<SourceCase> {
    if which != Which::C12 {
        return case_strategy(max_ops);
    }
    let run = (
        case_strategy(12),
        0usize..=12,
        prop::collection::vec(prop_oneof![6 => Just(0u8), 1 => Just(1u8), 1 => Just(2u8)], 13),
        1usize..4,
    )
        .prop_map(|(mut c, k, kinds, marked)| {
            c.nts = None;
            c.proto = 2;
            let mut ops = Vec::new();
            for kind in kinds.iter().take(k) {
                ops.push(Op::Timer);
                match kind {
                    0 => {
                        let mut r = Resp::honest(2);
                        r.upgrade = false;
                        ops.push(Op::Deliver(r));
                    }
                    1 => {} // unanswered poll
                    _ => {
                        let mut r = Resp::honest(2);
                        r.upgrade = false;
                        r.kind = RespKind::Rate;
                        ops.push(Op::Deliver(r));
                    }
                }
            }
            for _ in 0..marked {
                ops.push(Op::Timer);
                let mut r = Resp::honest(2);
                r.upgrade = true;
                ops.push(Op::Deliver(r));
            }
            ops.append(&mut c.ops);
            c.ops = ops;
            c
        });
    prop_oneof![3 => case_strategy(max_ops), 1 => run].boxed()
}

macro_rules! source_prop {
    ($name:ident, $id:literal, $which:expr, $quick:expr, $thorough:expr, $maxops:expr, $rule:literal) => {
        pub struct $name;
        impl Property for $name {
            type Case = SourceCase;
            const ID: &'static str = $id;
            const RULE: &'static str = $rule;
            const ASSUMPTIONS: &'static [&'static str] = &[
                "one real NtpSource created through NtpManager::new_source with a recording SourceController and a paused tokio clock; answers are built by the independent reference codec relative to the request actually sent",
                "the reference association model is written from the property statements; traces that pass through an unauthenticated NTPv5 datagram that is both NAK and RATE/DENY are only judged by C07",
                "release semantics (debug assertions off)",
            ];
            const QUICK_CASES: u32 = $quick;
            const THOROUGH_CASES: u32 = $thorough;
            const MAX_SHRINK_ITERS: u32 = 4000;
            fn strategy(_tier: Tier) -> BoxedStrategy<SourceCase> {
                strategy_for($which, $maxops)
            }
            fn check(case: &SourceCase) -> Outcome {
                check_source(case, $which)
            }
        }
    };
}

source_prop!(C07, "C07", Which::C07, 200_000, 12_000_000, 30,
    "NTS associations (AES-SIV-256/512, v4 and v5) under op sequences biased to hostile deliveries (re-encrypted under wrong/own key, authenticator stripped or corrupted, replays, answers to older requests, identifiers only in the unauthenticated part, cookies in the clear, unauthenticated KISS codes incl. NTPv5 flag combinations) interleaved with genuine traffic; oracle = metamorphic twin run: replacing every non-authentic delivery by a no-op must leave the observable trace (actions, requests incl. cookies/placeholders, measurements, usability, observe(), negotiation and poll state) unchanged; non-trivial = at least one non-authentic delivery");
source_prop!(C08, "C08", Which::C08, 250_000, 11_000_000, 30,
    "plain and NTS associations; deliveries: exact answer, wrong origin, answer to an earlier request, duplicate/replay, late (> 5 s), wrong version, non-server mode, KISS, stratum 17..255; oracle = a measurement is produced only if the datagram satisfies every listed condition (harness ground truth), at most once per request, and carries exactly (send time, T2, T3, receive time); non-trivial = a delivery that must be ignored or a replay");
source_prop!(C09, "C09", Which::C09, 250_000, 15_000_000, 30,
    "interleavings of RATE/DENY/RSTR/NTSN/unknown kisses (matching or not, authenticated or not, v4 and v5 encodings), normal answers and unanswered polls; oracle = after a valid RATE the next poll is not faster and is lengthened unless the own interval is longer; valid DENY/RSTR demobilises NTS immediately and only marks plain sources; NTSN/unknown kisses: twin run without them is trace-equal; non-trivial = at least one valid RATE/DENY/RSTR");
source_prop!(C10, "C10", Which::C10, 60_000, 4_200_000, 60,
    "poll limits 0 ≤ min ≤ desired ≤ max ≤ 17, scripted desired poll, RATE kisses, NTPv5 poll requests 0..255, long histories; oracle = every request's poll exponent within [min, max(max, requested)] and the accompanying timer within [1.01, 1.05]·2^poll; non-trivial = ≥3 polls with ≥1 interval change");
source_prop!(C11, "C11", Which::C11, 250_000, 10_000_000, 60,
    "sequences of timers, usable/unusable answers and denies; oracle = reference model of (8-bit reach register, tries, deny flag): predicts Send vs Reset vs Demobilize at every timer, no send after a reset, usable answers produce measurements, and the reported missed-poll count = polls since the last usable answer (max 8); non-trivial = a predicted reset/demobilise or ≥9 polls");
source_prop!(C12, "C12", Which::C12, 300_000, 12_000_000, 40,
    "plain associations in v4 / v5 / automatic mode and NTS associations with either negotiated version; answers matching or not × version 3/4/5 × upgrade marker × kiss; missed polls; one case in four is a negotiation run (automatic mode: 0..=12 polls answered without the marker / unanswered / answered with RATE, then 1..3 answers with the marker, then arbitrary traffic); oracle = reference negotiation machine written from the statement: version (and upgrade marker) of every request, answers of an unexpected version never accepted, implementation state agrees with the reference machine; non-trivial = automatic mode reaching a decision (upgrade, give-up or fallback)");
source_prop!(C13, "C13", Which::C13, 250_000, 13_000_000, 40,
    "NTS associations with initial stashes of 1..8 cookies of assorted sizes and answers delivering 0..11 cookies; oracle = FIFO model (capacity 8, newest kept): cookie of every request = oldest held, never sent twice, held count = model, requests ask for exactly the missing number unless the code's documented size margin applies (never more); non-trivial = a request with placeholders or an over-full delivery");
