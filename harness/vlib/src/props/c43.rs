//! C43 — the PTP clock controller reports and steers consistently.
//!
//! A `KalmanController<StdKalmanStorage<RecClock>, RecClock>` is driven through its public API by an
//! op sequence. For every `KalmanLink::measurement` the harness first computes the controller's
//! filter state *just before steering* by applying the same two public `LinkFilter` operations
//! (`progress_time`, `measurement`) to a copy of the controller's filter, then lets the controller
//! process the measurement (which steers), and compares the controller's new estimates with
//! "estimate before steering + what the mock clocks were told to do".
use crate::engine::*;
use crate::w_algo::*;
use proptest::prelude::*;
use serde::{Deserialize, Serialize};
use statime_algo::verif_hook as hk;
use statime_algo::{KalmanController, KalmanLink, Measurement, StdKalmanStorage};
use statime_base::{ClockId, DirectedLinkId, Direction, Duration, LeapStatus, LinkId, TAI, Timestamp};
use std::sync::Arc;

pub struct C43;

type St = StdKalmanStorage<RecClock>;
type Ctrl = KalmanController<St, RecClock>;
type Link = KalmanLink<Arc<Ctrl>, St, RecClock>;

#[derive(Debug, Clone, Serialize, Deserialize)]
pub enum Op {
    AddClock { max_freq: Sci, wander: Sci, freq0_permille: i16 },
    AddExternal,
    /// create a link between clocks `a` and `b` (indices into the clocks created so far)
    Link { a: u16, b: u16, tracked: bool, decay: Sci, usable: bool },
    /// one measurement: recv - send = `offset`
    Measure { link: u16, forward: bool, offset: Sci, unc: Sci },
    /// `n` forward/reverse pairs 1 ms apart: forward = offset + delay, reverse = -offset + delay
    Pairs { link: u16, n: u8, offset: Sci, delay: Sci, unc: Sci },
    Advance { millis: u32 },
    ExtData { link: u16, root_delay: Sci, leap: u8, usable: bool },
    DropLink { link: u16 },
    RemoveClock { clock: u16 },
    /// run the controller's steering step on its own (hook)
    Steer,
}

#[derive(Debug, Clone, Serialize, Deserialize)]
pub struct Case {
    pub sys_max_freq: Sci,
    pub sys_wander: Sci,
    pub min_sources: u8,
    pub ops: Vec<Op>,
}

struct World {
    ctrl: Arc<Ctrl>,
    cfg: hk::LinkFilterConfig,
    /// (id, steerable clock or None for external)
    clocks: Vec<(ClockId, Option<RecClock>)>,
    links: Vec<(Link, LinkId)>,
}

fn close(got: f64, want: f64, scale: f64) -> bool {
    if !got.is_finite() || !want.is_finite() {
        return false;
    }
    (got - want).abs() <= 1e-9 * scale.abs().max(got.abs()).max(want.abs()) + 1e-15
}

fn same_f(a: f64, b: f64) -> bool {
    a.to_bits() == b.to_bits() || (a.is_nan() && b.is_nan())
}

impl World {
    fn sys(&self) -> &RecClock {
        self.clocks[0].1.as_ref().unwrap()
    }

    /// clause (a): the public queries agree with the estimator entries of the controller's filter
    fn check_queries(&self) -> Result<(), Outcome> {
        let f = hk::filter_clone(&self.ctrl);
        for (id, clock) in &self.clocks {
            if clock.is_none() {
                continue;
            }
            let (qf, qo) = (self.ctrl.clock_frequency(*id), self.ctrl.clock_offset(*id));
            let (ef, eo) = (f.clock_frequency(*id), f.clock_offset(*id));
            match (qf, ef) {
                (Ok(q), Ok(e)) => {
                    if !(same_f(q.value, e.value) && same_f(q.uncertainty, e.uncertainty)) {
                        return Err(Outcome::fail("clock-frequency-query-is-not-the-frequency-estimate",
                            format!("clock_frequency() = {q:?}, estimator frequency entry = {e:?} (offset entry = {eo:?})")));
                    }
                }
                (Err(_), Err(_)) => {}
                (q, e) => return Err(Outcome::fail("clock-frequency-query-error-mismatch", format!("{q:?} vs {e:?}"))),
            }
            match (qo, eo) {
                (Ok(q), Ok(e)) => {
                    if !(same_f(q.value, e.value) && same_f(q.uncertainty, e.uncertainty)) {
                        return Err(Outcome::fail("clock-offset-query-is-not-the-offset-estimate", format!("clock_offset() = {q:?}, estimator = {e:?}")));
                    }
                }
                (Err(_), Err(_)) => {}
                (q, e) => return Err(Outcome::fail("clock-offset-query-error-mismatch", format!("{q:?} vs {e:?}"))),
            }
        }
        Ok(())
    }

    /// clauses (b) and (c) for one steering round: `pre` = filter just before steering
    fn check_steering(&self, pre: &hk::LinkFilter<St>, labels: &mut Labels) -> Result<(), Outcome> {
        let post = hk::filter_clone(&self.ctrl);
        // Numerical breakdown of the estimator (NaN/inf estimates) makes every clause meaningless;
        // it is reported under one signature of its own, whatever it leads to downstream.
        for (i, (id, clock)) in self.clocks.iter().enumerate() {
            if clock.is_none() {
                continue;
            }
            if let (Ok(o), Ok(f)) = (pre.clock_offset(*id), pre.clock_frequency(*id)) {
                if !o.value.is_finite() || !f.value.is_finite() {
                    return Err(Outcome::fail("estimate-not-finite",
                        format!("clock {i}: estimate before steering is offset {:e}, frequency {:e}", o.value, f.value)));
                }
            }
        }
        for (i, (id, clock)) in self.clocks.iter().enumerate() {
            let Some(clock) = clock else { continue };
            let calls = clock.take_calls();
            let max = clock.max();
            let mut step_sum = 0.0f64;
            let mut freq_change = 0.0f64;
            let (mut stepped, mut freqd) = (false, false);
            for c in &calls {
                match *c {
                    ClockCall::SetFrequency(before, f) => {
                        if !(f.abs() <= max) {
                            return Err(Outcome::fail("set-frequency-beyond-max", format!("set_frequency({f:e}) on a clock with max_frequency {max:e}")));
                        }
                        labels.add_if(f.abs() == max, "freq-clamped");
                        labels.add_if(f.abs() < max && f != before, "freq-unclamped-change");
                        freq_change += f - before;
                        freqd = true;
                    }
                    ClockCall::Step(d) => {
                        step_sum += d.as_seconds();
                        stepped = true;
                        labels.add_if(d != Duration::ZERO, if i == 0 { "step-system-nonzero" } else { "step-other-nonzero" });
                    }
                }
            }
            labels.add_if(freqd, "freq-steer");
            labels.add_if(stepped, "step");
            if stepped {
                let (Ok(a), Ok(b)) = (pre.clock_offset(*id), post.clock_offset(*id)) else {
                    return Err(Outcome::fail("steered-clock-without-estimate", format!("clock {i} was stepped but has no offset estimate")));
                };
                if !close(b.value, a.value + step_sum, step_sum) {
                    let kind = if i == 0 { "system" } else { "other" };
                    return Err(Outcome::fail(format!("offset-estimate-not-moved-by-step/{kind}"),
                        format!("clock {i}: stepped by {step_sum:e}, estimate {:e} -> {:e} (expected {:e})", a.value, b.value, a.value + step_sum)));
                }
            }
            if freqd {
                let (Ok(a), Ok(b)) = (pre.clock_frequency(*id), post.clock_frequency(*id)) else {
                    return Err(Outcome::fail("steered-clock-without-estimate", format!("clock {i} had its frequency changed but has no estimate")));
                };
                if !close(b.value, a.value + freq_change, freq_change) {
                    return Err(Outcome::fail("frequency-estimate-not-moved-by-frequency-change",
                        format!("clock {i}: frequency changed by {freq_change:e}, estimate {:e} -> {:e} (expected {:e})", a.value, b.value, a.value + freq_change)));
                }
            }
        }
        Ok(())
    }

    fn clear_calls(&self) {
        for (_, c) in &self.clocks {
            if let Some(c) = c {
                c.take_calls();
            }
        }
    }

    fn measure(&self, li: usize, dir: Direction, value: f64, unc: f64, labels: &mut Labels) -> Result<(), Outcome> {
        let (link, link_id) = &self.links[li];
        let now = self.sys().time();
        let recv = now;
        let send = now - Duration::from_f64_seconds(value);
        let m = Measurement { send_timestamp: send, recv_timestamp: recv, uncertainty: Duration::from_f64_seconds(unc) };
        // the value the controller derives from the timestamps
        let uv = hk::UncertainValue { value: (recv - send).as_seconds(), uncertainty: m.uncertainty.as_seconds() };
        let before = hk::filter_clone(&self.ctrl);
        let predicted = before
            .progress_time(now)
            .and_then(|f| f.measurement(&self.cfg, DirectedLinkId::new(*link_id, dir), uv));
        self.clear_calls();
        let r = link.measurement(m, dir);
        match (predicted, r) {
            (Ok(pre), Ok(())) => {
                labels.add("measurement-ok");
                labels.add_if(link.active() == Ok(true), "link-active");
                self.check_steering(&pre, labels)?;
            }
            (Err(_), Err(_)) => labels.add("measurement-err"),
            (p, r) => {
                return Err(Outcome::fail("harness-prediction-mismatch",
                    format!("filter-level replay gave {:?} but the controller returned {r:?}", p.map(|_| ()))));
            }
        }
        Ok(())
    }
}

fn ts0() -> Timestamp<TAI> {
    Timestamp::from_seconds_nanos_since_unix_epoch(1_700_000_000, 0)
}

fn run(case: &Case) -> Result<Outcome, Outcome> {
    let mut labels = Labels::default();
    let cfg = hk::LinkFilterConfig {
        select_offset_uncertainty_window: 2.0,
        select_link_uncertainty_window: 2.0,
        select_delay_uncertainty_window: 0.7,
        select_max_window_size: 1.0,
        minimum_agreeing_sources: case.min_sources.max(1) as usize,
    };
    let sys = RecClock::new(ts0(), 0.0, case.sys_max_freq.f());
    let (ctrl, sys_id) = match Ctrl::new(sys.clone(), case.sys_wander.f(), cfg.clone()) {
        Ok(v) => v,
        Err(e) => return Err(Outcome::fail("controller-new-failed", format!("{e:?}"))),
    };
    let mut w = World { ctrl: Arc::new(ctrl), cfg, clocks: vec![(sys_id, Some(sys))], links: vec![] };
    // documented initial state: offset 0 ± 1e18, frequency 0 ± max_frequency
    {
        let f = w.ctrl.clock_frequency(sys_id);
        let ok = matches!(&f, Ok(v) if v.value == 0.0 && v.uncertainty == case.sys_max_freq.f());
        if !ok {
            return Err(Outcome::fail("initial-frequency-query", format!("fresh controller, max_frequency {:e}: clock_frequency() = {f:?}", case.sys_max_freq.f())));
        }
    }
    let mut steer_rounds = 0u32;
    for op in &case.ops {
        match op {
            Op::AddClock { max_freq, wander, freq0_permille } => {
                if w.clocks.len() >= 6 {
                    continue;
                }
                let max = max_freq.f();
                let c = RecClock::new(ts0(), max * (*freq0_permille as f64 / 1000.0), max);
                match w.ctrl.add_clock(c.clone(), wander.f()) {
                    Ok(id) => {
                        let f = w.ctrl.clock_frequency(id);
                        let ok = matches!(&f, Ok(v) if v.value == 0.0 && v.uncertainty == max);
                        if !ok {
                            return Err(Outcome::fail("initial-frequency-query", format!("new clock, max_frequency {max:e}: clock_frequency() = {f:?}")));
                        }
                        w.clocks.push((id, Some(c)));
                        labels.add("multi-clock");
                    }
                    Err(e) => return Err(Outcome::fail("add-clock-failed", format!("{e:?}"))),
                }
            }
            Op::AddExternal => {
                if w.clocks.len() >= 6 {
                    continue;
                }
                match w.ctrl.add_external_clock() {
                    Ok(id) => w.clocks.push((id, None)),
                    Err(e) => return Err(Outcome::fail("add-external-failed", format!("{e:?}"))),
                }
            }
            Op::Link { a, b, tracked, decay, usable } => {
                if w.links.len() >= 6 {
                    continue;
                }
                let (ia, ib) = (idx(*a, w.clocks.len()), idx(*b, w.clocks.len()));
                let (ca, cb) = (w.clocks[ia].0, w.clocks[ib].0);
                let r = if *tracked {
                    Ctrl::create_tracked_link(w.ctrl.clone(), ca, cb, decay.f())
                } else {
                    Ctrl::create_untracked_link(w.ctrl.clone(), ca, cb)
                };
                if let Ok(l) = r {
                    let external = w.clocks[ia].1.is_none() || w.clocks[ib].1.is_none();
                    if external && *usable {
                        let _ = l.external_data_update(Duration::ZERO, None, true);
                    }
                    let id = hk::link_id(&l);
                    w.links.push((l, id));
                    labels.add(if *tracked { "tracked-link" } else { "untracked-link" });
                    labels.add_if(external, "external-link");
                }
            }
            Op::Measure { link, forward, offset, unc } => {
                if w.links.is_empty() {
                    continue;
                }
                let li = idx(*link, w.links.len());
                let dir = if *forward { Direction::Forward } else { Direction::Reverse };
                w.measure(li, dir, offset.f(), unc.f(), &mut labels)?;
                steer_rounds += 1;
            }
            Op::Pairs { link, n, offset, delay, unc } => {
                if w.links.is_empty() {
                    continue;
                }
                let li = idx(*link, w.links.len());
                for _ in 0..*n {
                    w.measure(li, Direction::Forward, offset.f() + delay.f(), unc.f(), &mut labels)?;
                    w.sys().advance(Duration::from_seconds_nanos(0, 1_000_000));
                    w.measure(li, Direction::Reverse, -offset.f() + delay.f(), unc.f(), &mut labels)?;
                    w.sys().advance(Duration::from_seconds_nanos(0, 1_000_000));
                    w.check_queries()?;
                    steer_rounds += 2;
                }
            }
            Op::Advance { millis } => {
                w.sys().advance(Duration::from_seconds_nanos((*millis / 1000) as i64, (*millis % 1000) * 1_000_000));
            }
            Op::ExtData { link, root_delay, leap, usable } => {
                if w.links.is_empty() {
                    continue;
                }
                let li = idx(*link, w.links.len());
                let leap = match leap % 4 {
                    0 => None,
                    1 => Some(LeapStatus::None),
                    2 => Some(LeapStatus::Leap59),
                    _ => Some(LeapStatus::Leap61),
                };
                let _ = w.links[li].0.external_data_update(Duration::from_f64_seconds(root_delay.f()), leap, *usable);
            }
            Op::DropLink { link } => {
                if w.links.is_empty() {
                    continue;
                }
                let li = idx(*link, w.links.len());
                drop(w.links.remove(li));
            }
            Op::RemoveClock { clock } => {
                let ci = idx(*clock, w.clocks.len());
                let (id, c) = w.clocks[ci].clone();
                let r = if c.is_some() { w.ctrl.remove_clock(id) } else { w.ctrl.remove_external_clock(id) };
                if r.is_ok() {
                    // external clocks may be removed while links still reference them (documented FIXME);
                    // drop those links so later ops only use live clocks
                    let mut k = 0;
                    while k < w.links.len() {
                        if w.links[k].1.contains_clock(id) {
                            drop(w.links.remove(k));
                        } else {
                            k += 1;
                        }
                    }
                    w.clocks.remove(ci);
                    labels.add("clock-removed");
                }
            }
            Op::Steer => {
                // steering on its own: the filter before the call is directly observable
                let now = w.sys().time();
                let pre = hk::filter_clone(&w.ctrl);
                let pre = match pre.progress_time(now) {
                    Ok(p) => p,
                    Err(_) => continue,
                };
                w.clear_calls();
                if hk::steer_clocks(&w.ctrl).is_ok() {
                    labels.add("steer-direct");
                    w.check_steering(&pre, &mut labels)?;
                    steer_rounds += 1;
                }
            }
        }
        if std::env::var_os("VERIF_C43_TRACE").is_some() {
            let f = hk::filter_clone(&w.ctrl);
            eprintln!("after {op:?}");
            for (i, (id, c)) in w.clocks.iter().enumerate() {
                if c.is_some() {
                    eprintln!("   clock {i}: offset {:?} freq {:?}", f.clock_offset(*id), f.clock_frequency(*id));
                }
            }
        }
        w.check_queries()?;
    }
    let steered = labels.0.contains(&"freq-steer") || labels.0.iter().any(|l| l.starts_with("step-") && l.ends_with("nonzero"));
    let _ = steer_rounds;
    Ok(Outcome::pass(steered).labels(labels.0))
}

impl Property for C43 {
    type Case = Case;
    const ID: &'static str = "C43";
    const RULE: &'static str = "history = controller creation (system clock max_frequency 1e-7..1e-2, wander 1e-12..1e-6) + ≤40 ops over ≤6 clocks/≤6 links: add steerable/external clock, tracked/untracked link (external links marked usable), single measurements (offset 0 or ±1e-7..1e3 s, uncertainty 1e-9..1 s, both directions), forward/reverse measurement pairs, time progression 0..100 s, external data updates, link drop, clock removal, direct steering. Mock clocks record set_frequency/step_clock and move their time when stepped. Oracles: (a) clock_frequency()/clock_offset() equal the estimator's frequency/offset entry bit for bit, fresh clocks report 0 ± max_frequency; (b) every set_frequency(f) has |f| ≤ max_frequency; (c) estimate after = estimate just before steering + applied step / frequency change, relative tolerance 1e-9 (+1e-15 absolute). Non-trivial: at least one non-zero step or a frequency change was applied.";
    const ASSUMPTIONS: &'static [&'static str] = &[
        "clocks are well behaved: calls never fail, step_clock moves now() by exactly the requested amount, max_frequency is positive and finite",
        "measurement uncertainties are positive (≥ 1 ns); offsets are finite and |offset| ≤ 1e3 s",
        "the estimate 'just before steering' is obtained by applying LinkFilter::progress_time and LinkFilter::measurement (the two operations KalmanLink::measurement performs before steering) to a copy of the controller's filter",
    ];
    const QUICK_CASES: u32 = 1_000_000;
    const THOROUGH_CASES: u32 = 41_000_000;

    fn strategy(_tier: Tier) -> BoxedStrategy<Case> {
        let offset = || prop_oneof![6 => sci_signed(-7, 1), 2 => sci_signed(-7, 3)];
        let unc = || sci_pos(-9, 0);
        let op = prop_oneof![
            2 => (sci_pos(-7, -2), sci_pos(-12, -6), -1000i16..=1000).prop_map(|(max_freq, wander, freq0_permille)| Op::AddClock { max_freq, wander, freq0_permille }),
            2 => Just(Op::AddExternal),
            4 => (any::<u16>(), any::<u16>(), prop::bool::weighted(0.3), sci_pos(-6, -1), prop::bool::weighted(0.9))
                .prop_map(|(a, b, tracked, decay, usable)| Op::Link { a, b, tracked, decay, usable }),
            12 => (any::<u16>(), any::<bool>(), offset(), unc()).prop_map(|(link, forward, offset, unc)| Op::Measure { link, forward, offset, unc }),
            2 => (any::<u16>(), 1u8..6, offset(), sci_pos(-6, -1), unc()).prop_map(|(link, n, offset, delay, unc)| Op::Pairs { link, n, offset, delay, unc }),
            4 => prop_oneof![0u32..2000, 0u32..100_000].prop_map(|millis| Op::Advance { millis }),
            1 => (any::<u16>(), sci_pos(-6, 0), 0u8..4, prop::bool::weighted(0.8)).prop_map(|(link, root_delay, leap, usable)| Op::ExtData { link, root_delay, leap, usable }),
            1 => any::<u16>().prop_map(|link| Op::DropLink { link }),
            1 => any::<u16>().prop_map(|clock| Op::RemoveClock { clock }),
            2 => Just(Op::Steer),
        ];
        // most histories start with a useful topology: an external clock and an untracked usable link to the system clock
        let prefix = prop_oneof![
            3 => Just(vec![Op::AddExternal, Op::Link { a: 0, b: 0xffff, tracked: false, decay: Sci { m: 1, e: -3 }, usable: true }]),
            1 => Just(vec![]),
        ];
        (sci_pos(-7, -2), sci_pos(-12, -6), 1u8..=2, prefix, prop::collection::vec(op, 0..40))
            .prop_map(|(sys_max_freq, sys_wander, min_sources, mut prefix, ops)| {
                prefix.extend(ops);
                Case { sys_max_freq, sys_wander, min_sources, ops: prefix }
            })
            .boxed()
    }

    fn enumerate(_tier: Tier) -> Vec<Case> {
        vec![Case { sys_max_freq: Sci { m: 5, e: -4 }, sys_wander: Sci { m: 1, e: -8 }, min_sources: 1, ops: vec![] }]
    }

    fn check(case: &Case) -> Outcome {
        match run(case) {
            Ok(o) | Err(o) => o,
        }
    }
}
