//! C44 — CSPTP clients survive any server traffic and only use matching answers.
//!
//! `CsptpSource::run` is driven with a scripted mock `ClientSocket` (one per request, as the source
//! creates them), `tokio::time::sleep` under a paused clock, a seeded RNG and a recording
//! `SourceController`. All events (request sent, datagram delivered, measurement handed to the
//! controller) go to one ordered log; the oracle replays the log with an independent decoder.
use crate::engine::*;
use crate::w_ptp::*;
use ntp_proto::{ClockId, Measurement, NtpTimestamp, ObservableSourceTimedata, PollInterval, SourceController, SourceType};
use proptest::prelude::*;
use rand::SeedableRng;
use serde::{Deserialize, Serialize};
use statime_csptp::{ClientRecvResult, ClientSocket, CsptpConfig, CsptpManager, CsptpSource, CsptpSourceConfig, InternalState};
use statime_wire as sw;
use std::cell::RefCell;
use std::sync::{Arc, Mutex};
use std::time::Duration;

pub struct C44;

#[derive(Debug, Clone, Copy, Serialize, Deserialize)]
pub struct Match {
    /// xor-ed onto the request's domain (0 = same domain)
    pub domain_xor: u8,
    /// added to the request's sequence id (0 = same id)
    pub seq_delta: u16,
}

#[derive(Debug, Clone, Serialize, Deserialize)]
pub struct StatusSpec {
    pub prio1: u8,
    pub class: u8,
    pub accuracy: u8,
    pub variance: u16,
    pub prio2: u8,
    pub steps_removed: u16,
    pub utc_offset: i16,
    pub gm: [u8; 8],
}

#[derive(Debug, Clone, Serialize, Deserialize)]
pub enum What {
    Response {
        m: Match,
        two_step: bool,
        ingress: TsSpec,
        req_corr: i64,
        corr: i64,
        origin: TsSpec,
        status: Option<StatusSpec>,
        /// header flag bits 5.. (leap, timescale, traceability) as in `HeaderSpec::flags`
        hdr_flags: u16,
        /// length of the response TLV value (18 = exact)
        tlv_len: u8,
        extra: Vec<TlvSpec>,
    },
    FollowUp { m: Match, ts: TsSpec, corr: i64, two_step_flag: bool },
    /// the request comes back (request TLV)
    RequestEcho { m: Match },
    Msg(MsgSpec),
    Raw(Vec<u8>),
    RecvError,
}

#[derive(Debug, Clone, Serialize, Deserialize)]
pub struct Delivery {
    /// virtual milliseconds after the previous delivery (or the request)
    pub delay_ms: u16,
    pub what: What,
    /// receive timestamp reported by the socket (None: unknown, e.g. general port)
    pub rx: Option<TsSpec>,
}

#[derive(Debug, Clone, Serialize, Deserialize)]
pub struct ReqScript {
    /// transmit timestamp reported by send_event (None: sending fails)
    pub send: Option<TsSpec>,
    pub deliveries: Vec<Delivery>,
}

#[derive(Debug, Clone, Serialize, Deserialize)]
pub struct Case {
    pub domain: u8,
    /// whether the manager treats this source as the active one (status TLVs update the state)
    pub active: bool,
    pub poll_ms: u16,
    pub resp_ms: u16,
    pub rng_seed: u64,
    pub requests: Vec<ReqScript>,
}

fn build(what: &What, domain: u8, seq: u16) -> Option<Vec<u8>> {
    let hdr = |m: &Match, flags: u16, corr: i64| HeaderSpec {
        sdo: 0x300,
        major: 2,
        minor: 1,
        domain: domain ^ m.domain_xor,
        flags,
        correction: corr,
        clock_id: [0; 8],
        port: 0,
        seq: seq.wrapping_add(m.seq_delta),
        log_interval: 0x7f,
    };
    match what {
        What::Response { m, two_step, ingress, req_corr, corr, origin, status, hdr_flags, tlv_len, extra } => {
            let flags = (hdr_flags & !0b111) | 0b100 | if *two_step { 0b10 } else { 0 };
            let mut v = ts_bytes(*ingress).to_vec();
            v.extend_from_slice(&req_corr.to_be_bytes());
            v.resize(*tlv_len as usize & !1, 0);
            let mut tlvs = extra.clone();
            tlvs.push(TlvSpec { ty: TLV_CSPTP_RESPONSE, value: v });
            if let Some(s) = status {
                let mut c = vec![s.prio1, s.class, s.accuracy];
                c.extend_from_slice(&s.variance.to_be_bytes());
                c.push(s.prio2);
                c.extend_from_slice(&s.steps_removed.to_be_bytes());
                c.extend_from_slice(&s.utc_offset.to_be_bytes());
                c.extend_from_slice(&s.gm);
                tlvs.push(TlvSpec { ty: TLV_CSPTP_STATUS, value: c });
            }
            ref_encode(&MsgSpec { header: hdr(m, flags, *corr), body: BodySpec::Sync(*origin), tlvs })
        }
        What::FollowUp { m, ts, corr, two_step_flag } => {
            ref_encode(&MsgSpec { header: hdr(m, 0b100 | if *two_step_flag { 0b10 } else { 0 }, *corr), body: BodySpec::FollowUp(*ts), tlvs: vec![] })
        }
        What::RequestEcho { m } => ref_encode(&MsgSpec {
            header: hdr(m, 0b100, 0),
            body: BodySpec::Sync(TsSpec { secs: 0, nanos: 0 }),
            tlvs: vec![TlvSpec { ty: TLV_CSPTP_REQUEST, value: vec![1, 0, 0, 0] }],
        }),
        What::Msg(m) => ref_encode(m),
        What::Raw(b) => Some(b.clone()),
        What::RecvError => None,
    }
}

#[derive(Debug, Clone)]
enum Ev {
    Sent { bytes: Vec<u8>, ok: bool },
    Delivered { bytes: Vec<u8>, rx: Option<TsSpec> },
    Meas(Measurement),
    Usable(bool),
}

type Log = Arc<Mutex<Vec<Ev>>>;

struct Recorder {
    log: Log,
}

impl SourceController for Recorder {
    fn handle_measurement(&mut self, measurement: Measurement) {
        self.log.lock().unwrap().push(Ev::Meas(measurement));
    }
    fn set_usable(&mut self, usable: bool) {
        self.log.lock().unwrap().push(Ev::Usable(usable));
    }
    fn desired_poll_interval(&self) -> PollInterval {
        PollInterval::default()
    }
    fn observe(&self) -> ObservableSourceTimedata {
        ObservableSourceTimedata::default()
    }
}

struct MockClientSocket {
    log: Log,
    script: ReqScript,
    next: usize,
    /// (domain, seq) of the request sent on this socket, learnt from the request bytes
    ids: Option<(u8, u16)>,
}

impl ClientSocket for MockClientSocket {
    type Error = &'static str;

    async fn recv(&mut self, buf: &mut [u8]) -> Result<ClientRecvResult, &'static str> {
        loop {
            if self.next >= self.script.deliveries.len() {
                // nothing more arrives; the response timeout ends this request
                std::future::pending::<()>().await;
            }
            let d = self.script.deliveries[self.next].clone();
            // cancel safety: the delivery is only consumed once its delay has fully elapsed
            tokio::time::sleep(Duration::from_millis(d.delay_ms as u64)).await;
            self.next += 1;
            let (domain, seq) = self.ids.unwrap_or((0, 0));
            match build(&d.what, domain, seq) {
                None if matches!(d.what, What::RecvError) => return Err("scripted receive error"),
                None => continue, // message does not fit a datagram: nothing arrives
                Some(b) => {
                    let n = b.len().min(buf.len());
                    buf[..n].copy_from_slice(&b[..n]);
                    self.log.lock().unwrap().push(Ev::Delivered { bytes: b[..n].to_vec(), rx: d.rx });
                    return Ok(ClientRecvResult { bytes_read: n, timestamp: d.rx.map(lib_ts) });
                }
            }
        }
    }

    async fn send_event(&mut self, buf: &[u8]) -> Result<sw::Timestamp, &'static str> {
        self.ids = raw_decode(buf).map(|m| (m.domain, m.seq));
        self.log.lock().unwrap().push(Ev::Sent { bytes: buf.to_vec(), ok: self.script.send.is_some() });
        self.script.send.map(lib_ts).ok_or("scripted send error")
    }
}

fn to_ntp(t: TsSpec) -> NtpTimestamp {
    // TAI seconds since 1970 -> UTC-based NTP era seconds (1900 epoch, TAI-UTC = 37 s), modulo 2^32
    const EPOCH_OFFSET: u32 = (70 * 365 + 17) * 86400;
    NtpTimestamp::from_seconds_nanos_since_ntp_era(EPOCH_OFFSET.wrapping_add(t.secs as u32).wrapping_sub(37), t.nanos)
}

macro_rules! ensure {
    ($cond:expr, $sig:expr, $($fmt:tt)*) => {
        if !$cond {
            return Outcome::fail($sig, format!($($fmt)*));
        }
    };
}

fn check_case(case: &Case) -> Outcome {
    let mut labels = Labels::default();
    let manager: CsptpManager<RefCell<InternalState>> = CsptpManager::new(CsptpConfig::default());
    let local = ClockId::SYSTEM;
    let remote = ClockId::new();
    if case.active {
        manager.update_used_sources([(remote, SourceType::Csptp)].into_iter());
    }
    let log: Log = Arc::new(Mutex::new(Vec::new()));
    let config = CsptpSourceConfig {
        poll_interval: Duration::from_millis(case.poll_ms.max(1) as u64),
        response_interval: Duration::from_millis(case.resp_ms.max(1) as u64),
        domain: case.domain,
    };
    let mut source = CsptpSource::new(local, remote, config, &manager, Recorder { log: log.clone() });
    let mut created = 0usize;
    let log2 = log.clone();
    let requests = case.requests.clone();
    let seed = case.rng_seed;
    let mut draws = 0u64;
    let result = crate::rt::run_paused(source.run(
        std::future::pending::<()>(),
        move || {
            // once the script is used up, socket creation fails, which ends `run` (documented behaviour)
            let k = created;
            created += 1;
            requests.get(k).cloned().map(|script| MockClientSocket { log: log2.clone(), script, next: 0, ids: None }).ok_or("script exhausted")
        },
        tokio::time::sleep,
        move || {
            draws += 1;
            rand::rngs::StdRng::seed_from_u64(seed.wrapping_add(draws))
        },
    ));
    ensure!(result == Err("script exhausted"), "run-ended-unexpectedly", "run returned {result:?}");

    // ---- replay the log
    let log = log.lock().unwrap();
    let mut i = 0usize;
    let mut k = 0usize;
    let mut pairs = 0usize;
    while i < log.len() {
        let Ev::Sent { bytes, ok } = &log[i] else {
            return Outcome::fail("event-before-first-request", format!("{:?}", log[i]));
        };
        let Some(req) = raw_decode(bytes) else {
            return Outcome::fail("request-not-decodable", format!("request {k}: {bytes:?}"));
        };
        ensure!(matches!(csptp_kind(&req), Some(CsptpKind::Request { .. })), "request-not-a-csptp-request", "request {k}");
        ensure!(req.domain == case.domain, "request-domain", "configured domain {}, request carries {}", case.domain, req.domain);
        let (d, s) = (req.domain, req.seq);
        let mut j = i + 1;
        while j < log.len() && !matches!(log[j], Ev::Sent { .. }) {
            j += 1;
        }
        let seg = &log[i + 1..j];
        let meas: Vec<(usize, &Measurement)> = seg.iter().enumerate().filter_map(|(p, e)| if let Ev::Meas(m) = e { Some((p, m)) } else { None }).collect();
        ensure!(*ok || seg.iter().all(|e| !matches!(e, Ev::Meas(_) | Ev::Delivered { .. })), "activity-after-failed-send", "request {k} could not be sent but the source went on to use its socket");
        ensure!(meas.is_empty() || meas.len() == 2, "measurement-count-per-request", "request {k} (seq {s}) produced {} measurement records (a measurement is one pair)", meas.len());
        // classify what was delivered (labels)
        for e in seg {
            if let Ev::Delivered { bytes, rx } = e {
                let m = raw_decode(bytes);
                let kind = m.as_ref().and_then(csptp_kind);
                let matching = m.as_ref().is_some_and(|m| m.domain == d && m.seq == s);
                labels.add(match (kind, matching) {
                    (Some(CsptpKind::Response), true) if rx.is_none() => "matching-response-without-rx-timestamp",
                    (Some(CsptpKind::Response), true) if m.as_ref().unwrap().two_step() => "matching-two-step-response",
                    (Some(CsptpKind::Response), true) => "matching-one-step-response",
                    (Some(CsptpKind::Response), false) => "foreign-response",
                    (Some(CsptpKind::FollowUp), true) => "matching-follow-up",
                    (Some(CsptpKind::FollowUp), false) => "foreign-follow-up",
                    (Some(CsptpKind::Request { .. }), _) => "request-echo",
                    (None, _) if m.is_some() => "other-ptp",
                    (None, _) => "garbage",
                });
            }
        }
        if meas.len() == 2 {
            pairs += 1;
            let first = meas[0].0;
            ensure!(meas[1].0 == first + 1, "measurement-pair-interleaved", "request {k}");
            let (m0, m1) = (meas[0].1, meas[1].1);
            ensure!(m0.sender_id == local && m0.receiver_id == remote && m1.sender_id == remote && m1.receiver_id == local,
                "measurement-clock-ids", "request {k}: ({:?}->{:?}), ({:?}->{:?})", m0.sender_id, m0.receiver_id, m1.sender_id, m1.receiver_id);
            let before: Vec<(RawMsg, Option<TsSpec>)> = seg[..first]
                .iter()
                .filter_map(|e| if let Ev::Delivered { bytes, rx } = e { raw_decode(bytes).map(|m| (m, *rx)) } else { None })
                .filter(|(m, _)| m.domain == d && m.seq == s)
                .collect();
            let responses: Vec<&(RawMsg, Option<TsSpec>)> = before.iter().filter(|(m, rx)| csptp_kind(m) == Some(CsptpKind::Response) && rx.is_some()).collect();
            ensure!(!responses.is_empty(), "measurement-without-matching-response",
                "request {k} (domain {d}, seq {s}) produced a measurement but no response with these ids (and a receive timestamp) had been delivered");
            let have_follow_up = before.iter().any(|(m, _)| csptp_kind(m) == Some(CsptpKind::FollowUp));
            // the measurement must be built from such a response: its ingress timestamp and its receive timestamp
            let from: Vec<&&(RawMsg, Option<TsSpec>)> = responses
                .iter()
                .filter(|(m, rx)| {
                    let v = &m.tlvs.iter().find(|t| t.0 == TLV_CSPTP_RESPONSE).unwrap().1;
                    let mut sb = [0u8; 8];
                    sb[2..8].copy_from_slice(&v[0..6]);
                    let ingress = TsSpec { secs: u64::from_be_bytes(sb), nanos: u32::from_be_bytes(v[6..10].try_into().unwrap()) };
                    to_ntp(ingress) == m0.receiver_ts && to_ntp(rx.unwrap()) == m1.receiver_ts
                })
                .collect();
            ensure!(!from.is_empty(), "measurement-not-from-matching-response",
                "request {k}: receiver timestamps {:?}/{:?} do not come from any delivered response with domain {d}, seq {s}", m0.receiver_ts, m1.receiver_ts);
            ensure!(from.iter().any(|(m, _)| !m.two_step() || have_follow_up), "two-step-measurement-without-follow-up",
                "request {k}: two-step response used without a follow-up with domain {d}, seq {s}");
            labels.add(if from.iter().any(|(m, _)| m.two_step()) { "measurement-two-step" } else { "measurement-one-step" });
        } else {
            labels.add_if(*ok, "request-without-measurement");
        }
        labels.add_if(!*ok, "send-failed");
        i = j;
        k += 1;
    }
    ensure!(k == case.requests.len(), "request-count", "script has {} requests, {k} were sent", case.requests.len());
    let st = manager.observe();
    labels.add_if(st.steps_removed != 0, "status-adopted");
    Outcome::pass(pairs > 0 || log.iter().any(|e| matches!(e, Ev::Delivered { .. }))).labels(labels.0)
}

// ---------------------------------------------------------------------------
// strategies

fn match_strategy() -> BoxedStrategy<Match> {
    prop_oneof![
        8 => Just(Match { domain_xor: 0, seq_delta: 0 }),
        1 => (1u8..=255).prop_map(|x| Match { domain_xor: x, seq_delta: 0 }),
        2 => prop_oneof![Just(1u16), Just(0xffffu16), 1u16..=0xffff].prop_map(|x| Match { domain_xor: 0, seq_delta: x }),
        1 => (1u8..=255, 1u16..=0xffff).prop_map(|(a, b)| Match { domain_xor: a, seq_delta: b }),
    ]
    .boxed()
}

fn status_strategy() -> BoxedStrategy<Option<StatusSpec>> {
    prop_oneof![
        1 => Just(None),
        2 => (any::<u8>(), any::<u8>(), canonical_accuracy(), any::<u16>(), any::<u8>(), prop_oneof![Just(0u16), Just(65535u16), Just(65534u16), any::<u16>()], any::<i16>(), any::<[u8; 8]>())
            .prop_map(|(prio1, class, accuracy, variance, prio2, steps_removed, utc_offset, gm)| Some(StatusSpec { prio1, class, accuracy, variance, prio2, steps_removed, utc_offset, gm })),
    ]
    .boxed()
}

fn corr_strategy() -> BoxedStrategy<i64> {
    prop_oneof![3 => Just(0i64), 3 => -(1i64 << 30)..(1i64 << 30), 4 => crate::gens::i64_interesting()].boxed()
}

fn small_tlv() -> BoxedStrategy<TlvSpec> {
    tlv_strategy()
        .prop_map(|mut t| {
            if t.ty == TLV_CSPTP_REQUEST || t.ty == TLV_CSPTP_RESPONSE || t.ty == TLV_CSPTP_STATUS {
                t.ty = 0x8008;
            }
            t.value.truncate(24);
            t
        })
        .boxed()
}

fn what_strategy() -> BoxedStrategy<What> {
    prop_oneof![
        10 => (
            match_strategy(), any::<bool>(), ts_strategy(), corr_strategy(), corr_strategy(), ts_strategy(), status_strategy(), 0u16..0x1000,
            prop_oneof![8 => Just(18u8), 1 => Just(16u8), 1 => Just(20u8)], prop::collection::vec(small_tlv(), 0..2)
        )
            .prop_map(|(m, two_step, ingress, req_corr, corr, origin, status, hdr_flags, tlv_len, extra)| What::Response { m, two_step, ingress, req_corr, corr, origin, status, hdr_flags, tlv_len, extra }),
        6 => (match_strategy(), ts_strategy(), corr_strategy(), any::<bool>()).prop_map(|(m, ts, corr, two_step_flag)| What::FollowUp { m, ts, corr, two_step_flag }),
        1 => match_strategy().prop_map(|m| What::RequestEcho { m }),
        1 => msg_strategy(2).prop_map(What::Msg),
        1 => prop::collection::vec(any::<u8>(), 0..80).prop_map(What::Raw),
        1 => Just(What::RecvError),
    ]
    .boxed()
}

impl Property for C44 {
    type Case = Case;
    const ID: &'static str = "C44";
    const RULE: &'static str = "history = 1..4 requests of one CsptpSource (any domain, poll 50..2000 ms, response timeout 20..1000 ms, source active or not); per request a scripted socket: send timestamp over the full 48-bit range or a send failure, then 0..6 deliveries with virtual delays (some beyond the timeout): responses (one-/two-step, matching / wrong domain / wrong sequence id incl. ±1, ingress and origin timestamps and receive timestamps over the full range or absent, correction fields 0 / small / boundary i64, optional status TLV with steps_removed up to 65535, short/long response TLV, extra TLVs), follow-ups (matching or not, either order, duplicates), echoed requests, other PTP messages, garbage, receive errors. Oracles on the ordered event log with an independent decoder: no panic; per request 0 or 1 measurement pair; a pair requires a previously delivered response with the request's domain+sequence id and a receive timestamp whose ingress/receive timestamps are the pair's receiver timestamps, plus a delivered matching follow-up if that response is two-step; nothing is used after a failed send. Non-trivial: at least one datagram was delivered to the source.";
    const ASSUMPTIONS: &'static [&'static str] = &[
        "socket timestamps are valid PTP timestamps (seconds < 2^48, nanoseconds < 10^9), as the daemon's socket wrappers guarantee",
        "release arithmetic (wrapping on overflow); the tokio clock is paused and auto-advances",
        "the mapping PTP(TAI) -> NTP timestamp used to recognise the source of a measurement is seconds + 2208988800 - 37 modulo 2^32 with nanoseconds scaled to 2^-32 s",
    ];
    const QUICK_CASES: u32 = 600_000;
    const THOROUGH_CASES: u32 = 23_000_000;

    fn strategy(_tier: Tier) -> BoxedStrategy<Case> {
        let delivery = (prop_oneof![6 => 0u16..30, 2 => 0u16..400, 1 => 0u16..2000], what_strategy(), prop_oneof![8 => ts_strategy().prop_map(Some), 1 => Just(None)])
            .prop_map(|(delay_ms, what, rx)| Delivery { delay_ms, what, rx });
        let req = (prop_oneof![9 => ts_strategy().prop_map(Some), 1 => Just(None)], prop::collection::vec(delivery, 0..6)).prop_map(|(send, deliveries)| ReqScript { send, deliveries });
        (any::<u8>(), any::<bool>(), 50u16..2000, 20u16..1000, any::<u64>(), prop::collection::vec(req, 1..4))
            .prop_map(|(domain, active, poll_ms, resp_ms, rng_seed, requests)| Case { domain, active, poll_ms, resp_ms, rng_seed, requests })
            .boxed()
    }

    fn check(case: &Case) -> Outcome {
        check_case(case)
    }
}
