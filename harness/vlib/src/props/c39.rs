//! C39 — configuration loading never crashes and rejects unsafe step thresholds.
//!
//! Documents are generated from a grammar over every section of `ntp.toml` (typed, mostly valid
//! leaves with a small share of hostile ones), rendered to TOML text, written to a file and loaded
//! through `Config::from_args` (the path used by the daemon and by `ntp-ctl validate`), followed by
//! `Config::check`. The oracle reads the step-threshold *literals* back from an independent generic
//! TOML parse of the same text.
use crate::engine::*;
use ntp_proto::verif_hook::time as nt;
use ntp_proto::StepThreshold;
use ntpd::verif_hook as dh;
use proptest::prelude::*;
use serde::{Deserialize, Serialize};

pub struct C39;

#[derive(Debug, Clone, Serialize, Deserialize, PartialEq)]
pub enum V {
    I(i64),
    /// f64 bit pattern (NaN payloads and signs are kept)
    F(u64),
    S(String),
    B(bool),
    A(Vec<V>),
    /// inline table
    T(Vec<(String, V)>),
    /// literal TOML text (dates, hex, underscores, +inf ...)
    Lit(String),
}

#[derive(Debug, Clone, Serialize, Deserialize)]
pub struct Section {
    /// "" = top of the document (before any header)
    pub header: String,
    /// `[[header]]` instead of `[header]`
    pub array: bool,
    pub entries: Vec<(String, V)>,
}

#[derive(Debug, Clone, Serialize, Deserialize)]
pub enum Case {
    Doc(Vec<Section>),
    Raw(Vec<u8>),
}

// ---------------------------------------------------------------------------
// rendering

fn bare(k: &str) -> bool {
    !k.is_empty() && k.bytes().all(|b| b.is_ascii_alphanumeric() || b == b'_' || b == b'-')
}

fn render_str(s: &str, out: &mut String) {
    out.push('"');
    for c in s.chars() {
        match c {
            '"' => out.push_str("\\\""),
            '\\' => out.push_str("\\\\"),
            '\n' => out.push_str("\\n"),
            '\t' => out.push_str("\\t"),
            c if (c as u32) < 0x20 || c as u32 == 0x7f => out.push_str(&format!("\\u{:04X}", c as u32)),
            c => out.push(c),
        }
    }
    out.push('"');
}

fn render_key(k: &str, out: &mut String) {
    // keys of the form a.b with bare segments are emitted as dotted keys
    if !k.is_empty() && k.split('.').all(bare) {
        out.push_str(k);
    } else {
        render_str(k, out);
    }
}

fn render_val(v: &V, out: &mut String) {
    match v {
        V::I(i) => out.push_str(&i.to_string()),
        V::F(bits) => {
            let f = f64::from_bits(*bits);
            if f.is_nan() {
                out.push_str(if f.is_sign_negative() { "-nan" } else { "nan" });
            } else if f.is_infinite() {
                out.push_str(if f < 0.0 { "-inf" } else { "inf" });
            } else {
                out.push_str(&format!("{f:?}"));
            }
        }
        V::S(s) => render_str(s, out),
        V::B(b) => out.push_str(if *b { "true" } else { "false" }),
        V::A(a) => {
            out.push('[');
            for (i, x) in a.iter().enumerate() {
                if i > 0 {
                    out.push_str(", ");
                }
                render_val(x, out);
            }
            out.push(']');
        }
        V::T(t) => {
            out.push_str("{ ");
            for (i, (k, x)) in t.iter().enumerate() {
                if i > 0 {
                    out.push_str(", ");
                }
                render_key(k, out);
                out.push_str(" = ");
                render_val(x, out);
            }
            out.push_str(" }");
        }
        V::Lit(l) => out.push_str(l),
    }
}

pub fn render(doc: &[Section]) -> String {
    let mut out = String::new();
    for s in doc {
        if !s.header.is_empty() {
            out.push_str(if s.array { "[[" } else { "[" });
            render_key(&s.header, &mut out);
            out.push_str(if s.array { "]]\n" } else { "]\n" });
        }
        for (k, v) in &s.entries {
            render_key(k, &mut out);
            out.push_str(" = ");
            render_val(v, &mut out);
            out.push('\n');
        }
        out.push('\n');
    }
    out
}

// ---------------------------------------------------------------------------
// oracle helpers: the literals written for the step thresholds

const THRESHOLD_KEYS: [&str; 2] = ["single-step-panic-threshold", "startup-step-panic-threshold"];
/// certificate files the loader may try to open while deserialising (they do not exist)
const SAFE_CA_PATHS: [&str; 2] = ["/nonexistent-verif/ca.pem", "nonexistent-verif-ca.pem"];

#[derive(Debug, Clone, Copy, PartialEq)]
enum Lit {
    Nan,
    Negative,
    Fine,
}

fn number_class(v: &toml::Value) -> Option<Lit> {
    match v {
        toml::Value::Float(f) if f.is_nan() => Some(Lit::Nan),
        toml::Value::Float(f) if *f < 0.0 => Some(Lit::Negative),
        toml::Value::Integer(i) if *i < 0 => Some(Lit::Negative),
        toml::Value::Float(_) | toml::Value::Integer(_) => Some(Lit::Fine),
        _ => None,
    }
}

struct ThresholdLits {
    /// (key, form, class) for every numeric literal given for a threshold
    found: Vec<(&'static str, &'static str, Lit)>,
}

fn threshold_literals(root: &toml::Value) -> ThresholdLits {
    let mut found = Vec::new();
    if let Some(sync) = root.get("synchronization") {
        for key in THRESHOLD_KEYS {
            match sync.get(key) {
                Some(toml::Value::Table(t)) => {
                    for dir in ["forward", "backward"] {
                        if let Some(c) = t.get(dir).and_then(number_class) {
                            found.push((key, "per-direction", c));
                        }
                    }
                }
                Some(v) => {
                    if let Some(c) = number_class(v) {
                        found.push((key, "single-number", c));
                    }
                }
                None => {}
            }
        }
    }
    ThresholdLits { found }
}

/// does the document ask the loader to open a certificate file other than our non-existing ones?
fn opens_foreign_files(root: &toml::Value) -> bool {
    let Some(toml::Value::Array(sources)) = root.get("source") else { return false };
    sources.iter().any(|s| match s.get("certificate-authority") {
        None => false,
        Some(toml::Value::String(p)) => !SAFE_CA_PATHS.contains(&p.as_str()),
        Some(_) => false, // not a string: rejected before any file access
    })
}

// ---------------------------------------------------------------------------
// generators

fn f(v: f64) -> V {
    V::F(v.to_bits())
}
fn s(v: &str) -> V {
    V::S(v.to_string())
}

/// hostile / surprising leaves
fn chaos() -> BoxedStrategy<V> {
    prop_oneof![
        6 => prop::sample::select(vec![
            f(f64::NAN), V::F(f64::NAN.to_bits() | (1 << 63)), f(f64::INFINITY), f(f64::NEG_INFINITY),
            V::I(-1), f(-1.5), V::I(0), f(-0.0), f(0.0), f(1e300), f(-1e300), f(1e-300), f(-1e-300), f(5e-324),
            V::I(i64::MAX), V::I(i64::MIN), V::I(1), V::I(255), V::I(256), V::I(65536), V::I(4294967296), f(2147483648.0), f(-2147483649.0),
            f(1.8446744073709552e19), f(1e19), f(0.5),
        ]),
        2 => prop::sample::select(vec![s("inf"), s(""), s("x"), s("-1"), s("nan"), V::B(true), V::B(false), V::A(vec![]), V::T(vec![]),
            V::A(vec![V::I(1), V::I(-1)]), V::T(vec![("forward".into(), V::I(1))])]),
        1 => prop::sample::select(vec!["0x10", "0o666", "0b1", "1_000", "+inf", "+nan", "+1", "1979-05-27T07:32:00Z", "07:32:00", "1e1_0", "''", "\"\"\"x\"\"\""])
            .prop_map(|l| V::Lit(l.to_string())),
        1 => any::<i64>().prop_map(V::I),
        1 => any::<u64>().prop_map(V::F),
    ]
    .boxed()
}

/// `valid` most of the time, a hostile leaf in `pct` percent of the cases
fn mostly(valid: BoxedStrategy<V>, pct: u32) -> BoxedStrategy<V> {
    // `pct` is in units of 0.25 %: a document has ~40 leaves and most documents must stay loadable
    prop_oneof![(400 - pct) => valid, pct => chaos()].boxed()
}

fn uint(max: i64) -> BoxedStrategy<V> {
    prop_oneof![3 => (0..=max.min(20)).prop_map(V::I), 1 => (0..=max).prop_map(V::I), 1 => Just(V::I(max))].boxed()
}
fn boolean() -> BoxedStrategy<V> {
    any::<bool>().prop_map(V::B).boxed()
}
fn pos_float() -> BoxedStrategy<V> {
    prop_oneof![
        3 => (1e-9f64..1e3).prop_map(f),
        1 => prop::sample::select(vec![f(1e-6), f(0.25), f(2.0), f(5.0), f(1000.0), f(86400.0), V::I(1), V::I(10), V::I(1000)]),
    ]
    .boxed()
}
fn any_float() -> BoxedStrategy<V> {
    prop_oneof![3 => (-10.0f64..10.0).prop_map(f), 1 => (0.0f64..1.0).prop_map(f), 1 => prop::sample::select(vec![f(0.0), V::I(0), V::I(2), f(1e-8)])].boxed()
}
fn pick_s(items: &[&'static str]) -> BoxedStrategy<V> {
    prop::sample::select(items.to_vec()).prop_map(s).boxed()
}
fn address() -> BoxedStrategy<V> {
    prop_oneof![
        40 => pick_s(&["example.com", "example.com:123", "pool.ntp.org", "1.2.3.4", "1.2.3.4:4460", "[::1]:123", "::1", "fe80::1", "ntp.example:0", "localhost:65535"]),
        1 => pick_s(&["example.com:99999", "a:b:c", "", ":", "host:", "[::1]", "::1:123456", "exa mple", "ü.example"]),
    ]
    .boxed()
}
fn sockaddr() -> BoxedStrategy<V> {
    prop_oneof![
        40 => pick_s(&["0.0.0.0:123", "127.0.0.1:123", "[::]:123", "[::1]:4460", "10.0.0.1:0", "255.255.255.255:65535", "[fe80::1%3]:123"]),
        1 => pick_s(&["0.0.0.0", "localhost:123", "[::1]", "1.2.3.4:70000", ""]),
    ]
    .boxed()
}
fn subnets() -> BoxedStrategy<V> {
    let one = prop_oneof![
        60 => pick_s(&["0.0.0.0/0", "::/0", "192.168.0.0/16", "10.0.0.0/8", "127.0.0.1/32", "fe80::/10", "2001:db8::/32", "1.2.3.4/0", "::1/128"]),
        1 => pick_s(&["1.2.3.4", "1.2.3.4/33", "::/129", "x/8", "/8", "1.2.3.4/-1", "1.2.3.4/ 8"]),
    ];
    prop::collection::vec(one, 0..4).prop_map(V::A).boxed()
}
fn filter_list() -> BoxedStrategy<V> {
    (subnets(), mostly(pick_s(&["deny", "ignore"]), 5), prop::bool::weighted(0.99), prop::bool::weighted(0.99))
        .prop_map(|(f, a, with_f, with_a)| {
            let mut t = vec![];
            if with_f {
                t.push(("filter".to_string(), f));
            }
            if with_a {
                t.push(("action".to_string(), a));
            }
            V::T(t)
        })
        .boxed()
}
fn versions(min: i64) -> BoxedStrategy<V> {
    prop::collection::vec(prop_oneof![60 => (min..=5).prop_map(V::I), 1 => (0i64..8).prop_map(V::I), 1 => chaos()], 0..4).prop_map(V::A).boxed()
}
fn poll() -> BoxedStrategy<V> {
    prop_oneof![30 => (4i64..=17).prop_map(V::I), 4 => (-3i64..=24).prop_map(V::I), 1 => prop::sample::select(vec![V::I(127), V::I(128), V::I(-128), V::I(-129)])].boxed()
}
fn poll_limits() -> BoxedStrategy<V> {
    (opt(mostly(poll(), 2), 96), opt(mostly(poll(), 2), 96))
        .prop_map(|(min, max)| {
            let mut t = vec![];
            if let Some(v) = min {
                t.push(("min".to_string(), v));
            }
            if let Some(v) = max {
                t.push(("max".to_string(), v));
            }
            V::T(t)
        })
        .boxed()
}
fn ntp_version() -> BoxedStrategy<V> {
    prop_oneof![15 => Just(V::I(4)), 10 => Just(V::I(5)), 10 => Just(s("auto")), 1 => prop::sample::select(vec![V::I(3), V::I(6), s("4"), s("AUTO"), f(4.0)])].boxed()
}
fn path() -> BoxedStrategy<V> {
    pick_s(&["/nonexistent-verif/a.sock", "/nonexistent-verif/key.pem", "relative/path", "", "/tmp/verif-does-not-exist/x", "/nonexistent-verif/ünï"]).boxed()
}

fn opt(v: BoxedStrategy<V>, pct: u32) -> BoxedStrategy<Option<V>> {
    prop_oneof![pct => v.prop_map(Some), (100 - pct) => Just(None)].boxed()
}

/// a table body: each key present with its own probability; rarely an unknown or duplicated key
fn body(keys: Vec<(&'static str, BoxedStrategy<V>, u32)>) -> BoxedStrategy<Vec<(String, V)>> {
    let parts: Vec<BoxedStrategy<Option<(String, V)>>> = keys
        .into_iter()
        .map(|(k, v, pct)| opt(v, pct).prop_map(move |o| o.map(|v| (k.to_string(), v))).boxed())
        .collect();
    (parts, prop_oneof![300 => Just(0u8), 1 => Just(1u8), 1 => Just(2u8)], chaos())
        .prop_map(|(parts, extra, cv)| {
            let mut e: Vec<(String, V)> = parts.into_iter().flatten().collect();
            match extra {
                1 => e.push(("bogus-key".to_string(), cv)),
                2 if !e.is_empty() => e.push(e[0].clone()),
                _ => {}
            }
            e
        })
        .boxed()
}

/// one direction of a threshold / a single-number threshold
fn threshold_leaf() -> BoxedStrategy<V> {
    prop_oneof![
        16 => pos_float(),
        4 => Just(s("inf")),
        2 => prop::sample::select(vec![V::I(0), f(0.0), f(-0.0)]),
        4 => prop::sample::select(vec![
            f(f64::NAN), V::F(f64::NAN.to_bits() | (1 << 63)), V::F(0x7ff0_0000_0000_0001), f(f64::NEG_INFINITY), V::I(-1), f(-0.5), f(-1e-300), f(-1e300),
            V::I(i64::MIN), f(-1000.0), V::I(-86400), f(-5e-324),
        ]),
        1 => Just(f(f64::INFINITY)),
        1 => prop::sample::select(vec![f(1e300), f(2147483648.0), V::I(i64::MAX), f(1e-300), f(4294967296.0)]),
        1 => chaos(),
    ]
    .boxed()
}

/// entries for one threshold key: single value, inline table, or dotted keys
fn threshold(key: &'static str) -> BoxedStrategy<Vec<(String, V)>> {
    let map = (opt(threshold_leaf(), 85), opt(threshold_leaf(), 85), prop_oneof![60 => Just(0u8), 1 => Just(1u8), 1 => Just(2u8)], any::<bool>()).prop_map(
        move |(fw, bw, extra, dotted)| {
            let mut t = vec![];
            if let Some(v) = fw {
                t.push(("forward".to_string(), v));
            }
            if let Some(v) = bw {
                t.push(("backward".to_string(), v));
            }
            match extra {
                1 => t.push(("sideways".to_string(), V::I(1))),
                2 if !t.is_empty() => t.push(t[0].clone()),
                _ => {}
            }
            if dotted && !t.is_empty() {
                t.into_iter().map(|(k, v)| (format!("{key}.{k}"), v)).collect()
            } else {
                vec![(key.to_string(), V::T(t))]
            }
        },
    );
    prop_oneof![
        8 => Just(vec![]),
        4 => threshold_leaf().prop_map(move |v| vec![(key.to_string(), v)]),
        6 => map,
    ]
    .boxed()
}

fn source_section() -> BoxedStrategy<Section> {
    let common = || {
        vec![
            ("poll-interval-limits", poll_limits(), 25u32),
            ("initial-poll-interval", mostly(poll(), 4), 25),
            ("ntp-version", mostly(ntp_version(), 3), 40),
        ]
    };
    let with = |mode: &'static str, mut keys: Vec<(&'static str, BoxedStrategy<V>, u32)>, add_common: bool| {
        if add_common {
            keys.extend(common());
        }
        body(keys).prop_map(move |mut e| {
            e.insert(0, ("mode".to_string(), s(mode)));
            e
        })
    };
    let ca = || prop_oneof![1 => Just(s(SAFE_CA_PATHS[0])), 1 => Just(s(SAFE_CA_PATHS[1])), 1 => Just(V::I(1))].boxed();
    let noise = || mostly(pos_float(), 10);
    let entries = prop_oneof![
        12 => with("server", vec![("address", mostly(address(), 3), 99)], true),
        9 => with("pool", vec![("address", mostly(address(), 3), 99), ("count", mostly(uint(64), 5), 50),
            ("ignore", prop::collection::vec(prop_oneof![40 => pick_s(&["1.2.3.4", "::1", "10.0.0.1"]), 1 => pick_s(&["x", "1.2.3.4:1", ""])], 0..3).prop_map(V::A).boxed(), 30)], true),
        6 => with("nts", vec![("address", mostly(address(), 3), 99), ("enable-srv-resolution", mostly(boolean(), 4), 30), ("certificate-authority", ca(), 1)], true),
        6 => with("nts-pool", vec![("address", mostly(address(), 3), 99), ("enable-srv-resolution", mostly(boolean(), 4), 30), ("count", mostly(uint(64), 5), 50),
            ("certificate-authority", ca(), 1)], true),
        9 => with("sock", vec![("path", mostly(path(), 3), 99), ("precision", noise(), 98), ("accuracy", noise(), 40), ("measurement_noise_estimate", noise(), 2)], false),
        6 => with("pps", vec![("path", mostly(path(), 3), 99), ("precision", noise(), 98), ("accuracy", noise(), 40), ("measurement_noise_estimate", noise(), 2),
            ("period", noise(), 40)], false),
        6 => with("csptp", vec![("address", mostly(address(), 3), 99), ("domain", mostly(prop_oneof![30 => (128i64..=239).prop_map(V::I), 1 => (0i64..=255).prop_map(V::I)].boxed(), 5), 50),
            ("poll_interval", noise(), 50), ("response_interval", noise(), 50)], false),
        1 => body(vec![("mode", mostly(pick_s(&["Server", "ntp", "", "sock "]), 20), 80), ("address", address(), 80)]),
    ];
    entries.prop_map(|entries| Section { header: "source".into(), array: true, entries }).boxed()
}

fn server_section() -> BoxedStrategy<Section> {
    body(vec![
        ("listen", mostly(sockaddr(), 3), 99),
        ("rate-limiting-cache-size", mostly(uint(1 << 20), 5), 40),
        ("rate-limiting-cutoff-ms", mostly(uint(100_000), 5), 40),
        ("allowlist", mostly(filter_list(), 3), 40),
        ("denylist", mostly(filter_list(), 3), 40),
        ("require-nts", mostly(prop_oneof![10 => boolean(), 10 => pick_s(&["deny", "ignore"]), 1 => pick_s(&["Deny", "true"])].boxed(), 4), 40),
        ("accept-ntp-versions", mostly(versions(3), 3), 40),
    ])
    .prop_map(|entries| Section { header: "server".into(), array: true, entries })
    .boxed()
}

fn nts_ke_section() -> BoxedStrategy<Section> {
    body(vec![
        ("listen", mostly(sockaddr(), 3), 99),
        ("certificate-chain-path", mostly(path(), 3), 99),
        ("private-key-path", mostly(path(), 3), 99),
        ("key-exchange-timeout-ms", mostly(uint(1 << 40), 5), 40),
        ("concurrent-connections", mostly(uint(1 << 20), 5), 40),
        ("longlived-connections", mostly(uint(1 << 20), 5), 40),
        ("ntp-port", mostly(uint(65535), 5), 40),
        ("ntp-server", mostly(address(), 5), 40),
        ("accept-ntp-versions", mostly(versions(4), 3), 40),
        ("accepted-pool-authentication-tokens", prop::collection::vec(pick_s(&["token", "", "ü"]), 0..3).prop_map(V::A).boxed(), 30),
    ])
    .prop_map(|entries| Section { header: "nts-ke-server".into(), array: true, entries })
    .boxed()
}

fn sync_section() -> BoxedStrategy<Section> {
    (
        body(vec![
            ("minimum-agreeing-sources", mostly(uint(10), 4), 50),
            ("accumulated-step-panic-threshold", mostly(prop_oneof![8 => pos_float(), 1 => Just(V::I(0)), 1 => Just(f(-1.0))].boxed(), 15), 40),
            ("warn-on-jump", mostly(boolean(), 4), 30),
            ("local-stratum", mostly(uint(255), 4), 40),
            ("reference-id", mostly(pick_s(&["GPS", "PPS", "XNON", "", "GOES", "X", "ü", "日本", "GPS", "NIST", "ABCDE"]), 4), 40),
        ]),
        threshold(THRESHOLD_KEYS[0]),
        threshold(THRESHOLD_KEYS[1]),
        any::<bool>(),
    )
        .prop_map(|(mut e, t1, t2, front)| {
            // dotted keys and inline tables may sit anywhere among the other keys
            if front {
                let mut all = t1;
                all.extend(t2);
                all.extend(e);
                e = all;
            } else {
                e.extend(t2);
                e.extend(t1);
            }
            Section { header: "synchronization".into(), array: false, entries: e }
        })
        .boxed()
}

fn algorithm_section() -> BoxedStrategy<Section> {
    let fl = |k: &'static str| (k, mostly(prop_oneof![pos_float(), any_float()].boxed(), 6), 25u32);
    body(vec![
        fl("precision-low-probability"),
        fl("precision-high-probability"),
        ("precision-hysteresis", mostly(uint(64), 6), 25),
        fl("precision-minimum-weight"),
        fl("poll-interval-low-weight"),
        fl("poll-interval-high-weight"),
        ("poll-interval-hysteresis", mostly(prop_oneof![uint(64), (-5i64..5).prop_map(V::I).boxed()].boxed(), 6), 25),
        fl("poll-interval-step-threshold"),
        fl("delay-outlier-threshold"),
        fl("initial-wander"),
        fl("initial-frequency-uncertainty"),
        fl("maximum-source-uncertainty"),
        fl("range-statistical-weight"),
        fl("range-delay-weight"),
        fl("steer-offset-threshold"),
        fl("steer-offset-leftover"),
        fl("steer-frequency-threshold"),
        fl("steer-frequency-leftover"),
        fl("step-threshold"),
        fl("slew-maximum-frequency-offset"),
        fl("slew-minimum-duration"),
        fl("maximum-frequency-steer"),
        ("ignore-server-dispersion", mostly(boolean(), 5), 25),
        ("meddling-threshold", mostly(prop_oneof![pos_float(), any_float()].boxed(), 10), 30),
    ])
    .prop_map(|entries| Section { header: "synchronization.algorithm".into(), array: false, entries })
    .boxed()
}

fn simple_section(header: &'static str, keys: Vec<(&'static str, BoxedStrategy<V>, u32)>) -> BoxedStrategy<Section> {
    body(keys).prop_map(move |entries| Section { header: header.into(), array: false, entries }).boxed()
}

fn document() -> BoxedStrategy<Vec<Section>> {
    let defaults = simple_section("source-defaults", vec![("poll-interval-limits", poll_limits(), 60), ("initial-poll-interval", mostly(poll(), 4), 60)]);
    let observability = simple_section(
        "observability",
        vec![
            ("log-level", mostly(pick_s(&["trace", "debug", "info", "warn", "error"]), 5), 50),
            ("log-path", mostly(path(), 4), 20),
            ("log-path-metrics-exporter", mostly(path(), 4), 20),
            ("ansi-colors", mostly(boolean(), 4), 30),
            ("observation-path", mostly(path(), 4), 50),
            ("observation-permissions", mostly(prop_oneof![uint(0o777), Just(V::Lit("0o666".into())).boxed(), Just(V::Lit("0o7777".into())).boxed()].boxed(), 5), 40),
            ("metrics-exporter-listen", mostly(sockaddr(), 4), 30),
        ],
    );
    let keyset = simple_section(
        "keyset",
        vec![("stale-key-count", mostly(uint(1000), 5), 60), ("key-rotation-interval", mostly(uint(1 << 40), 5), 60), ("key-storage-path", mostly(path(), 5), 40)],
    );
    let csptp = simple_section(
        "csptp",
        vec![
            ("priority_1", mostly(uint(255), 5), 50),
            ("priority_2", mostly(uint(255), 5), 50),
            ("ptp_timescale", mostly(boolean(), 5), 40),
            ("time_traceable", mostly(boolean(), 5), 40),
            ("frequency_traceable", mostly(boolean(), 5), 40),
        ],
    );
    let csptp_server = simple_section("csptp-server", vec![("interface", mostly(pick_s(&["any", "any", "any", "eth0"]), 5), 99)]).prop_map(|mut s| {
        s.array = true;
        s
    });
    // not compiled into the default feature set: must be rejected as an unknown section, never opened
    let clock = simple_section("clock", vec![("timestamp-mode", pick_s(&["software", "kernel-all"]), 80), ("interface", pick_s(&["lo"]), 30)]);
    let top = body(vec![("synchronization.minimum-agreeing-sources", mostly(uint(5), 5), 50), ("bogus", chaos(), 30)])
        .prop_map(|entries| Section { header: String::new(), array: false, entries });

    let o = |st: BoxedStrategy<Section>, pct: u32| prop_oneof![pct => st.prop_map(Some), (100 - pct) => Just(None)].boxed();
    (
        (
            prop::collection::vec(source_section(), 0..4),
            prop::collection::vec(server_section(), 0..3),
            prop::collection::vec(nts_ke_section(), 0..2),
            o(sync_section(), 80),
            o(algorithm_section(), 40),
            o(defaults, 30),
        ),
        (o(observability, 40), o(keyset, 30), o(csptp, 20), o(csptp_server.boxed(), 15), o(clock, 1), o(top.boxed(), 2)),
        any::<u64>(),
    )
        .prop_map(|((sources, servers, kes, sync, alg, defaults), (obs, keyset, csptp, csptp_server, clock, top), order)| {
            let mut rest: Vec<Section> = sources.into_iter().chain(servers).chain(kes).collect();
            rest.extend([sync, alg, defaults, obs, keyset, csptp, csptp_server, clock].into_iter().flatten());
            // deterministic permutation of the sections driven by `order` (array tables keep their relative order irrelevant)
            let mut order = order;
            let mut out: Vec<Section> = Vec::with_capacity(rest.len() + 1);
            while !rest.is_empty() {
                let i = (order % rest.len() as u64) as usize;
                order = order.rotate_left(7) ^ 0x9E37_79B9_7F4A_7C15;
                out.push(rest.remove(i));
            }
            // a synchronization.* dotted key at top level would clash with the [synchronization] header only in some orders; keep it first
            if let Some(t) = top {
                out.insert(0, t);
            }
            out
        })
        .boxed()
}

fn mutated_text() -> BoxedStrategy<Vec<u8>> {
    (document(), prop::collection::vec((any::<u16>(), 0u8..4, any::<u8>()), 1..4))
        .prop_map(|(doc, edits)| {
            let mut b = render(&doc).into_bytes();
            const TOKENS: &[&[u8]] = &[b"nan", b"-", b"inf", b"[", b"]", b"\"", b"=", b"\n", b"{", b"}", b".", b"#", b"e999", b"-nan"];
            for (pos, kind, byte) in edits {
                if b.is_empty() {
                    break;
                }
                let p = idx(pos, b.len());
                match kind {
                    0 => b[p] = byte,
                    1 => {
                        b.remove(p);
                    }
                    2 => {
                        let t = TOKENS[byte as usize % TOKENS.len()];
                        for (i, x) in t.iter().enumerate() {
                            b.insert(p + i, *x);
                        }
                    }
                    _ => b.truncate(p),
                }
            }
            b
        })
        .boxed()
}

// ---------------------------------------------------------------------------

fn parts(t: &StepThreshold) -> [Option<i64>; 2] {
    [t.forward.map(nt::duration_raw), t.backward.map(nt::duration_raw)]
}

fn doc_case(text: &str) -> Case {
    Case::Raw(text.as_bytes().to_vec())
}

impl Property for C39 {
    type Case = Case;
    const ID: &'static str = "C39";
    const RULE: &'static str = "TOML documents generated from a grammar over every configuration section ([[source]] of all seven modes, [[server]], [[nts-ke-server]], [[csptp-server]], [synchronization] incl. both step thresholds in single-number / inline-table / dotted-key form, [synchronization.algorithm], [source-defaults], [observability], [keyset], [csptp], top-level keys), every leaf typed and mostly valid with 0.5–4% hostile leaves (per leaf) from {nan, -nan, ±inf, negatives, ±0, 1e±300, i64 MIN/MAX, 2^8/2^16/2^32 boundaries, strings, booleans, arrays, tables, hex/octal/date literals}, threshold leaves with about one eighth unsafe values (NaN payloads, -nan, negatives down to -5e-324, -inf, i64::MIN); plus byte-level mutations of rendered documents. The text is written to a file and loaded with Config::from_args (daemon and `ntp-ctl validate` path) and with the text half of Config::from_file, then Config::check() is called. Oracle: no panic; file and text path agree; a document whose generic TOML parse shows a NaN or negative numeric literal for single-step-panic-threshold / startup-step-panic-threshold (either form) must be rejected; every accepted configuration has all four threshold parts None or ≥ 0. Non-trivial = the document is well-formed TOML and was either accepted or contains a threshold literal (distinct = distinct document)";
    const ASSUMPTIONS: &'static [&'static str] = &[
        "built with release semantics (debug assertions off): NtpDuration::from_seconds(NaN) does not trip its debug_assert",
        "certificate-authority values are restricted to two non-existing paths (the deserialiser opens the file); other path-valued keys are only stored",
        "the [clock] section is not compiled in (feature hardware-timestamping off), so no device is opened",
        "accumulated-step-panic-threshold (single number only, negative accepted and then trips on the first step) is labelled, not judged: the statement names the two-form thresholds",
    ];
    const QUICK_CASES: u32 = 300_000;
    const THOROUGH_CASES: u32 = 15_000_000;

    fn strategy(_tier: Tier) -> BoxedStrategy<Case> {
        prop_oneof![
            12 => document().prop_map(Case::Doc),
            1 => mutated_text().prop_map(Case::Raw),
        ]
        .boxed()
    }

    fn enumerate(_tier: Tier) -> Vec<Case> {
        let mut v = vec![
            doc_case(""),
            doc_case("[[source]]\nmode = \"server\"\naddress = \"example.com\"\n"),
            doc_case("[synchronization]\nsingle-step-panic-threshold = 5\nstartup-step-panic-threshold = { forward = 10, backward = 20 }\n"),
            doc_case("[synchronization]\nsingle-step-panic-threshold = nan\n"),
            doc_case("[synchronization]\nsingle-step-panic-threshold = -1\n"),
            doc_case("[synchronization]\nstartup-step-panic-threshold = { forward = \"inf\", backward = 86400 }\n"),
        ];
        for key in THRESHOLD_KEYS {
            for lit in ["nan", "-nan", "-1", "-0.5", "-inf", "-1e-300", "-9223372036854775808"] {
                for dir in ["forward", "backward"] {
                    v.push(doc_case(&format!("[synchronization]\n{key} = {{ {dir} = {lit} }}\n")));
                    v.push(doc_case(&format!("[synchronization.{key}]\n{dir} = {lit}\n")));
                }
            }
        }
        v
    }

    fn enumeration_note() -> Option<&'static str> {
        Some("empty document, minimal source, documented threshold examples, and {nan,-nan,-1,-0.5,-inf,-1e-300,i64::MIN} in each direction of each threshold as inline table and as sub-table")
    }

    fn from_bytes(data: &[u8]) -> Option<Case> {
        Some(Case::Raw(data.to_vec()))
    }

    fn check(case: &Case) -> Outcome {
        let bytes = match case {
            Case::Doc(d) => render(d).into_bytes(),
            Case::Raw(b) => b.clone(),
        };
        let text = std::str::from_utf8(&bytes).ok();
        let generic: Option<toml::Value> = text.and_then(|t| toml::from_str::<toml::Value>(t).ok());
        if let Some(root) = &generic {
            if opens_foreign_files(root) {
                return Outcome::pass(false).label("discard-would-open-foreign-file");
            }
        }

        let path = std::env::temp_dir().join(format!("vc39-{}.toml", std::process::id()));
        if std::fs::write(&path, &bytes).is_err() {
            return Outcome::pass(false).label("discard-cannot-write-temp-file");
        }
        let from_file = dh::load_config_file(&path);
        let _ = std::fs::remove_file(&path);

        if let Some(t) = text {
            let from_text = dh::load_config_text(t);
            if from_text.is_ok() != from_file.is_ok() {
                return Outcome::fail(
                    "file-and-text-loading-disagree",
                    format!("file: {:?}, text: {:?}", from_file.as_ref().map(|_| ()).map_err(|e| e.to_string()), from_text.as_ref().map(|_| ()).map_err(|e| e.to_string())),
                );
            }
        }

        let lits = generic.as_ref().map(threshold_literals).unwrap_or(ThresholdLits { found: vec![] });
        let mut labels = Labels::default();
        for (_, form, class) in &lits.found {
            labels.add(match (*form, class) {
                ("single-number", Lit::Nan) => "threshold-single-nan",
                ("single-number", Lit::Negative) => "threshold-single-negative",
                ("single-number", Lit::Fine) => "threshold-single-ok",
                (_, Lit::Nan) => "threshold-per-direction-nan",
                (_, Lit::Negative) => "threshold-per-direction-negative",
                (_, Lit::Fine) => "threshold-per-direction-ok",
            });
        }
        if let Some(root) = &generic {
            for (k, l) in [
                ("source", "sec-source"),
                ("server", "sec-server"),
                ("nts-ke-server", "sec-nts-ke"),
                ("csptp-server", "sec-csptp-server"),
                ("synchronization", "sec-synchronization"),
                ("source-defaults", "sec-source-defaults"),
                ("observability", "sec-observability"),
                ("keyset", "sec-keyset"),
                ("csptp", "sec-csptp"),
            ] {
                labels.add_if(root.get(k).is_some(), l);
            }
            labels.add_if(root.get("synchronization").and_then(|s| s.get("algorithm")).is_some(), "sec-algorithm");
            if let Some(toml::Value::Array(a)) = root.get("source") {
                for s in a {
                    labels.add(match s.get("mode").and_then(|m| m.as_str()) {
                        Some("server") => "mode-server",
                        Some("pool") => "mode-pool",
                        Some("nts") => "mode-nts",
                        Some("nts-pool") => "mode-nts-pool",
                        Some("sock") => "mode-sock",
                        Some("pps") => "mode-pps",
                        Some("csptp") => "mode-csptp",
                        _ => "mode-other",
                    });
                }
            }
        } else {
            labels.add("not-toml");
        }
        labels.add_if(matches!(case, Case::Raw(_)), "raw-text");

        match from_file {
            Err(_) => {
                labels.add("rejected");
                let nontrivial = generic.is_some() && !lits.found.is_empty();
                Outcome::pass(nontrivial).labels(labels.0)
            }
            Ok(cfg) => {
                labels.add("accepted");
                if let Some((key, form, class)) = lits.found.iter().find(|(_, _, c)| *c != Lit::Fine) {
                    let what = if *class == Lit::Nan { "nan" } else { "negative" };
                    return Outcome::fail(
                        format!("unsafe-threshold-accepted/{form}/{what}"),
                        format!("{key} given with a {what} literal ({form} form) was accepted: {:?}", cfg.synchronization.synchronization_base),
                    );
                }
                let base = &cfg.synchronization.synchronization_base;
                for (key, t) in [(THRESHOLD_KEYS[0], &base.single_step_panic_threshold), (THRESHOLD_KEYS[1], &base.startup_step_panic_threshold)] {
                    for (dir, p) in ["forward", "backward"].iter().zip(parts(t)) {
                        if let Some(raw) = p {
                            if raw < 0 {
                                return Outcome::fail(
                                    "accepted-threshold-is-negative",
                                    format!("{key}.{dir} = {raw} units after loading"),
                                );
                            }
                        }
                    }
                }
                labels.add_if(base.accumulated_step_panic_threshold.is_some_and(|d| nt::duration_raw(d) < 0), "accumulated-threshold-negative-accepted");
                // the daemon and ntp-ctl validate both call check() on every accepted configuration
                let looks_good = cfg.check();
                labels.add(if looks_good { "check-ok" } else { "check-warns" });
                Outcome::pass(generic.is_some()).labels(labels.0)
            }
        }
    }

    fn render(case: &Case) -> serde_json::Value {
        let text = match case {
            Case::Doc(d) => render(d),
            Case::Raw(b) => String::from_utf8_lossy(b).into_owned(),
        };
        truncate_json(serde_json::Value::String(text), 3000)
    }
}
