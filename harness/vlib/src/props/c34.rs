//! C34 — NTPv5 Bloom filters are transferred faithfully.
//!
//! Transfer: a model client/server conversation. The harness owns the server filter bytes, the
//! list of requests the client made (offset, cookie) and which one is outstanding; every
//! delivery (correct, stale, duplicate, wrong cookie, wrong size) has a predicted verdict, and
//! whenever `full_filter()` is `Some` it must equal the server filter byte for byte.
//! Server: answer to (offset, len) is exactly filter[offset..offset+len] or nothing — at the
//! library call and through `Server::handle` on the wire (response extension field parsed by hand).
//! Membership: every id added to a filter (directly, via union, via transfer) is reported.
use std::io::Cursor;
use std::sync::{Arc, RwLock};

use crate::engine::*;
use crate::w_keys::bytes as seeded_bytes;
use crate::w_srv;
use ntp_proto::verif_hook::bloom::{
    BloomFilter, NtpClientCookie, ReferenceIdRequest, ReferenceIdResponse, RemoteBloomFilter, ServerId,
};
use ntp_proto::{ExtensionField, NoCipher, NtpPacket, NtpServerInfo, NtpVersion, PollIntervalLimits, ServerAction};
use proptest::prelude::*;
use rand::SeedableRng;
use serde::{Deserialize, Serialize};

pub struct C34;

#[derive(Debug, Clone, Serialize, Deserialize)]
pub struct FilterSpec {
    /// seeds of the server ids added to the filter
    pub ids: Vec<u64>,
    /// additionally OR in seeded random bytes, each byte and-ed `sparse` times (0 = dense random filter)
    pub noise: Option<(u64, u8)>,
}

#[derive(Debug, Clone, Serialize, Deserialize)]
pub enum Ev {
    /// the client polls: `next_request` with a fresh, unique cookie (replaces the outstanding request)
    Poll,
    /// the server's answer to the outstanding request arrives
    Answer,
    /// the answer to an earlier request (superseded or already answered) arrives with its own cookie
    Stale { which: u16 },
    /// right cookie, wrong number of bytes (4*words, words in 0..=128, != chunk size)
    WrongSize { words: u8 },
    /// right bytes, cookie that was never used
    WrongCookie { salt: u32 },
    /// poll and answer (one normal exchange)
    Exchange,
    /// the server's filter changes (its own sources changed); later answers come from the new filter
    ServerChanges { filter: FilterSpec },
}

#[derive(Debug, Clone, Serialize, Deserialize)]
pub enum Case {
    Transfer { chunk_log2: u8, filter: FilterSpec, cookie_salt: u32, events: Vec<Ev>, finish: bool },
    /// server side, library call: request decoded from a payload of `len` bytes with the given offset
    ServerLib { filter: FilterSpec, offset: u16, len: u16 },
    /// server side on the wire through Server::handle; the offset field is patched after encoding
    ServerWire { filter: FilterSpec, words: u8, offset: u16 },
    /// membership: ids added directly / by union of two filters
    Members { a: Vec<u64>, b: Vec<u64>, absent: Vec<u64> },
}

fn server_id(seed: u64) -> ServerId {
    ServerId::new(&mut rand::rngs::StdRng::seed_from_u64(seed))
}

/// BloomFilter has no constructor from bytes: push them through a one-chunk transfer
fn filter_from_bytes(b: &[u8; 512]) -> BloomFilter {
    let mut r = RemoteBloomFilter::new(512).expect("512 is a valid chunk size");
    let c = NtpClientCookie([7; 8]);
    let _ = r.next_request(c);
    r.handle_response(c, &ReferenceIdResponse::new(b).expect("512 bytes is a valid response"))
        .expect("one-chunk transfer");
    *r.full_filter().expect("filled after one 512-byte chunk")
}

impl FilterSpec {
    fn build(&self) -> (BloomFilter, [u8; 512]) {
        let mut f = BloomFilter::new();
        for s in &self.ids {
            f.add_id(&server_id(*s));
        }
        let mut b = *f.as_bytes();
        if let Some((seed, sparse)) = self.noise {
            let mut n = seeded_bytes(seed, 512);
            for k in 0..(sparse % 4) {
                let m = seeded_bytes(seed ^ (k as u64 + 1) << 48, 512);
                for (x, y) in n.iter_mut().zip(m) {
                    *x &= y;
                }
            }
            for (x, y) in b.iter_mut().zip(n) {
                *x |= y;
            }
        }
        (filter_from_bytes(&b), b)
    }
}

fn filterspec() -> BoxedStrategy<FilterSpec> {
    (prop::collection::vec(any::<u64>(), 0..40), prop::option::weighted(0.6, (any::<u64>(), 0u8..4)))
        .prop_map(|(ids, noise)| FilterSpec { ids, noise })
        .boxed()
}

fn ev() -> BoxedStrategy<Ev> {
    prop_oneof![
        8 => Just(Ev::Exchange),
        3 => Just(Ev::Poll),
        3 => Just(Ev::Answer),
        3 => any::<u16>().prop_map(|which| Ev::Stale { which }),
        2 => (0u8..=128).prop_map(|words| Ev::WrongSize { words }),
        2 => any::<u32>().prop_map(|salt| Ev::WrongCookie { salt }),
        1 => filterspec().prop_map(|filter| Ev::ServerChanges { filter }),
    ]
    .boxed()
}

macro_rules! ensure {
    ($cond:expr, $sig:expr, $($fmt:tt)*) => {
        if !$cond {
            return Outcome::fail($sig, format!($($fmt)*));
        }
    };
}

fn cookie(salt: u32, k: u32) -> NtpClientCookie {
    let mut c = [0u8; 8];
    c[..4].copy_from_slice(&salt.to_be_bytes());
    c[4..].copy_from_slice(&k.to_be_bytes());
    NtpClientCookie(c)
}

/// request as it travels: encode the extension field, check its framing by hand, decode the payload
fn over_the_wire(req: &ReferenceIdRequest) -> Result<ReferenceIdRequest, String> {
    let mut w: Vec<u8> = Vec::new();
    req.serialize(&mut w).map_err(|e| format!("request does not serialize: {e}"))?;
    let plen = req.payload_len() as usize;
    if w.len() != 4 + plen || w[0..2] != 0xF503u16.to_be_bytes() || w[2..4] != ((plen + 4) as u16).to_be_bytes() || w[4..6] != req.offset().to_be_bytes() {
        return Err(format!("request EF framing wrong: {} bytes, header {:02x?}", w.len(), &w[..w.len().min(8)]));
    }
    ReferenceIdRequest::decode(&w[4..]).map_err(|_| "request payload does not decode".to_string())
}

fn response_over_the_wire(resp: &ReferenceIdResponse<'_>) -> Result<Vec<u8>, String> {
    let mut w: Vec<u8> = Vec::new();
    resp.serialize(&mut w).map_err(|e| format!("response does not serialize: {e}"))?;
    let plen = resp.bytes().len();
    if w.len() != 4 + plen || w[0..2] != 0xF504u16.to_be_bytes() || w[2..4] != ((plen + 4) as u16).to_be_bytes() {
        return Err(format!("response EF framing wrong: {} bytes for a {plen}-byte chunk", w.len()));
    }
    Ok(w[4..].to_vec())
}

fn check_transfer(chunk_log2: u8, spec: &FilterSpec, salt: u32, events: &[Ev], finish: bool) -> Outcome {
    let mut labels = Labels::default();
    let chunk: usize = 1 << (2 + chunk_log2 % 8); // 4..=512
    let (mut server, mut server_bytes) = spec.build();
    ensure!(server.as_bytes() == &server_bytes, "filter-construction", "filter built through a one-chunk transfer differs from its bytes");
    // what the client was sent last for every byte of the filter (= the server's filter while that never changes)
    let mut told = [0u8; 512];
    let mut current_ids: Vec<u64> = spec.ids.clone();
    let mut changed = false;
    let Some(mut client) = RemoteBloomFilter::new(chunk as u16) else {
        return Outcome::fail("valid-chunk-size-rejected", format!("chunk size {chunk} rejected"));
    };
    labels.add(match chunk { 4 => "chunk-4", 512 => "chunk-512", 16 => "chunk-16", _ => "chunk-other" });

    // model
    let mut sent: Vec<(usize, NtpClientCookie)> = Vec::new(); // every request ever made
    let mut outstanding: Option<usize> = None; // index into sent
    let mut next_offset = 0usize;
    let mut accepted_chunks = 0usize; // accepted answers so far
    let mut polls: u32 = 0;
    let mut rejected = 0;

    // expand Exchange and the optional finishing run (enough clean exchanges to complete a round)
    let mut evs: Vec<Ev> = Vec::new();
    for e in events {
        match e {
            Ev::Exchange => {
                evs.push(Ev::Poll);
                evs.push(Ev::Answer);
            }
            e => evs.push(e.clone()),
        }
    }
    if finish {
        for _ in 0..(512 / chunk) {
            evs.push(Ev::Poll);
            evs.push(Ev::Answer);
        }
    }

    for (k, e) in evs.iter().enumerate() {
        // (cookie, response bytes, expected acceptance, what the model does on acceptance)
        let delivery: Option<(NtpClientCookie, Vec<u8>, bool)> = match e {
            Ev::Exchange => unreachable!(),
            Ev::ServerChanges { filter } => {
                let (f, b) = filter.build();
                server = f;
                server_bytes = b;
                current_ids = filter.ids.clone();
                changed = true;
                labels.add("server-filter-changed");
                None
            }
            Ev::Poll => {
                polls += 1;
                let c = cookie(salt, polls);
                let req = client.next_request(c);
                ensure!(req.offset() as usize == next_offset && req.payload_len() as usize == chunk,
                    "request-for-wrong-chunk", "event #{k}: request (offset {}, len {}) but the next missing chunk is (offset {next_offset}, len {chunk})", req.offset(), req.payload_len());
                sent.push((next_offset, c));
                outstanding = Some(sent.len() - 1);
                None
            }
            Ev::Answer => match outstanding {
                None => None,
                Some(i) => {
                    let (off, c) = sent[i];
                    Some((c, server_bytes[off..off + chunk].to_vec(), true))
                }
            },
            Ev::Stale { which } => {
                // any earlier request except the outstanding one
                let cands: Vec<usize> = (0..sent.len()).filter(|i| Some(*i) != outstanding).collect();
                if cands.is_empty() {
                    None
                } else {
                    let (off, c) = sent[cands[idx(*which, cands.len())]];
                    labels.add(if outstanding.is_some() { "stale-while-waiting" } else { "stale-while-idle" });
                    Some((c, server_bytes[off..off + chunk].to_vec(), false))
                }
            }
            Ev::WrongSize { words } => match outstanding {
                None => None,
                Some(i) => {
                    let (off, c) = sent[i];
                    let mut n = *words as usize * 4;
                    if n == chunk {
                        n = if chunk == 512 { 508 } else { chunk + 4 };
                    }
                    labels.add("wrong-size");
                    let mut b = vec![0xFFu8; n];
                    for (j, x) in b.iter_mut().enumerate() {
                        if off + j < 512 {
                            *x = server_bytes[off + j];
                        }
                    }
                    Some((c, b, false))
                }
            },
            Ev::WrongCookie { salt: s2 } => {
                let off = outstanding.map(|i| sent[i].0).unwrap_or(next_offset);
                // differs from every cookie ever used: other salt (or, if equal, a poll number never reached)
                let c = if *s2 != salt { cookie(*s2, polls) } else { cookie(salt, u32::MAX) };
                labels.add("wrong-cookie");
                Some((c, server_bytes[off..off + chunk].to_vec(), false))
            }
        };
        if let Some((c, body, want_ok)) = delivery {
            // the server side produces the bytes through the real request/response path when this is the true answer
            let body = if want_ok {
                let (off, _) = sent[outstanding.unwrap()];
                let req = match ReferenceIdRequest::new(chunk as u16, off as u16) {
                    Some(r) => r,
                    None => return Outcome::fail("valid-request-rejected", format!("request (len {chunk}, offset {off}) cannot be built")),
                };
                let req = match over_the_wire(&req) {
                    Ok(r) => r,
                    Err(e) => return Outcome::fail("request-wire-format", e),
                };
                let Some(resp) = req.to_response(&server) else {
                    return Outcome::fail("server-does-not-answer-valid-chunk-request", format!("no answer for (offset {off}, len {chunk})"));
                };
                let wire = match response_over_the_wire(&resp) {
                    Ok(w) => w,
                    Err(e) => return Outcome::fail("response-wire-format", e),
                };
                ensure!(wire == body, "server-answer-not-the-requested-bytes", "answer for (offset {off}, len {chunk}) differs from filter[{off}..{}]", off + chunk);
                wire
            } else {
                body
            };
            let resp = ReferenceIdResponse::decode(&body);
            let got = client.handle_response(c, &resp);
            if want_ok {
                ensure!(got.is_ok(), "answer-to-outstanding-request-rejected", "event #{k}: {got:?}");
                let (off, _) = sent[outstanding.unwrap()];
                told[off..off + chunk].copy_from_slice(&server_bytes[off..off + chunk]);
                next_offset = (off + chunk) % 512;
                accepted_chunks += 1;
                outstanding = None;
            } else {
                rejected += 1;
                ensure!(got.is_err(), "chunk-accepted-without-matching-outstanding-request",
                    "event #{k} {e:?}: a {}-byte answer with cookie {:?} was accepted; outstanding = {:?}, chunk size {chunk}", body.len(), c.0, outstanding.map(|i| sent[i]));
            }
        }
        // after every event: a reported filter is the server's filter
        let complete = accepted_chunks >= 512 / chunk;
        match client.full_filter() {
            Some(f) => {
                // the client holds exactly the bytes it was sent last for every chunk; while the server's filter
                // has not changed (or a whole round was fetched since) that is the server's filter
                ensure!(f.as_bytes() == &told, "full-filter-differs-from-server-filter",
                    "after event #{k} ({accepted_chunks} accepted chunks of {chunk}, server filter changed: {changed}): first differing byte {:?}", f.as_bytes().iter().zip(told.iter()).position(|(a, b)| a != b));
                ensure!(complete, "filter-reported-before-all-chunks-arrived", "after event #{k}: only {accepted_chunks} of {} chunks accepted", 512 / chunk);
                if told == server_bytes {
                    for s in &current_ids {
                        ensure!(f.contains_id(&server_id(*s)), "false-negative-after-transfer", "id with seed {s} was added on the server but is not reported by the transferred filter");
                    }
                    labels.add_if(changed, "caught-up-with-changed-filter");
                }
                labels.add("filter-complete");
            }
            None => {
                ensure!(!complete, "all-chunks-answered-but-no-filter", "after event #{k}: {accepted_chunks} chunks of {chunk} accepted, full_filter() is None");
            }
        }
    }
    labels.add_if(accepted_chunks > 512 / chunk, "second-round");
    labels.add_if(rejected > 0, "some-delivery-rejected");
    let mut out = Outcome::pass(accepted_chunks >= 1 && (rejected > 0 || accepted_chunks >= 512 / chunk));
    out.labels = labels.0;
    out
}

fn check_server_lib(spec: &FilterSpec, offset: u16, len: u16) -> Outcome {
    let (server, bytes) = spec.build();
    let len = len as usize % 1024;
    let mut payload = vec![0u8; len];
    if len >= 2 {
        payload[..2].copy_from_slice(&offset.to_be_bytes());
    }
    let req = match ReferenceIdRequest::decode(&payload) {
        Ok(r) => r,
        Err(_) => return Outcome::pass(false).label("server-lib").label("request-undecodable"),
    };
    ensure!(req.offset() == offset && req.payload_len() as usize == len, "request-decoded-wrong", "decoded ({}, {}) from ({offset}, {len})", req.offset(), req.payload_len());
    let in_range = offset as usize + len <= 512;
    match req.to_response(&server) {
        Some(r) => {
            ensure!(in_range && r.bytes() == &bytes[offset as usize..offset as usize + len], "server-answer-not-the-requested-bytes",
                "request (offset {offset}, len {len}) answered with {} bytes", r.bytes().len());
            Outcome::pass(true).label("server-lib").label("answered-exact")
        }
        None => Outcome::pass(true).label("server-lib").label(if in_range { "in-range-unanswered" } else { "out-of-range-unanswered" }),
    }
}

fn check_server_wire(spec: &FilterSpec, words: u8, offset: u16) -> Outcome {
    let (server_filter, bytes) = spec.build();
    let len = ((words as usize % 128) + 1) * 4; // 4..=512
    // a well-formed request first (offset 0), then patch the offset on the wire
    let Some(req) = ReferenceIdRequest::new(len as u16, 0) else {
        return Outcome::fail("valid-request-rejected", format!("request (len {len}, offset 0) cannot be built"));
    };
    let (mut packet, _) = NtpPacket::poll_message_v5(PollIntervalLimits::default().min);
    packet.push_additional(ExtensionField::ReferenceIdRequest(req));
    let mut buf = vec![0u8; 2048];
    let mut cur = Cursor::new(buf.as_mut_slice());
    if let Err(e) = packet.serialize(&mut cur, &NoCipher, None) {
        return Outcome::fail("request-wire-format", format!("v5 request does not serialize: {e}"));
    }
    let n = cur.position() as usize;
    buf.truncate(n);
    // locate EF 0xF503 by walking the TLVs after the 48-byte header
    let mut p = 48;
    let mut patched = false;
    while p + 4 <= buf.len() {
        let ty = u16::from_be_bytes([buf[p], buf[p + 1]]);
        let l = u16::from_be_bytes([buf[p + 2], buf[p + 3]]) as usize;
        if l < 4 {
            break;
        }
        if ty == 0xF503 {
            ensure!(l == len + 4, "request-wire-format", "request EF has length {l} for a {len}-byte chunk");
            buf[p + 4..p + 6].copy_from_slice(&offset.to_be_bytes());
            patched = true;
        }
        p += (l + 3) & !3;
    }
    ensure!(patched, "request-wire-format", "no reference-id request EF in the encoded packet");

    let mut info = NtpServerInfo::default();
    info.ntp_snapshot.bloom_filter = server_filter;
    let mut cfg = w_srv::base_config();
    cfg.accepted_versions = vec![NtpVersion::V4, NtpVersion::V5];
    let mut server = ntp_proto::Server::new_internal(
        cfg,
        w_srv::FixedClock { raw: 0x1234_5678_0000_0000 },
        Arc::new(RwLock::new(info)),
        ntp_proto::KeySetProvider::new(1).get(),
    );
    let mut out = vec![0u8; 2048];
    let mut stats = w_srv::RecStats::default();
    let answer = match server.handle("192.0.2.1".parse().unwrap(), ntp_proto::verif_hook::time::timestamp_from_raw(1 << 40), &buf, &mut out, &mut stats) {
        ServerAction::Ignore => return Outcome::fail("v5-request-ignored", format!("well-formed v5 request ignored: {:?}", stats.entries)),
        ServerAction::Respond { message } => message.to_vec(),
    };
    ensure!(answer.len() >= 48 && (answer[0] >> 3) & 7 == 5, "v5-answer-malformed", "answer of {} bytes", answer.len());
    let mut p = 48;
    let mut chunks: Vec<Vec<u8>> = Vec::new();
    while p + 4 <= answer.len() {
        let ty = u16::from_be_bytes([answer[p], answer[p + 1]]);
        let l = u16::from_be_bytes([answer[p + 2], answer[p + 3]]) as usize;
        if l < 4 || p + l > answer.len() {
            break; // trailing bytes that are not an extension field
        }
        if ty == 0xF504 {
            chunks.push(answer[p + 4..p + l].to_vec());
        }
        p += (l + 3) & !3;
    }
    let in_range = offset as usize + len <= 512;
    match chunks.as_slice() {
        [] => Outcome::pass(true).label("server-wire").label(if in_range { "in-range-unanswered" } else { "out-of-range-unanswered" }),
        [c] => {
            ensure!(in_range && c[..] == bytes[offset as usize..offset as usize + len], "server-answer-not-the-requested-bytes",
                "wire request (offset {offset}, len {len}) answered with {} bytes (in range: {in_range})", c.len());
            Outcome::pass(true).label("server-wire").label("answered-exact")
        }
        more => Outcome::fail("several-chunk-answers", format!("{} reference-id responses to one request", more.len())),
    }
}

fn check_members(a: &[u64], b: &[u64], absent: &[u64]) -> Outcome {
    let mut fa = BloomFilter::new();
    let mut fb = BloomFilter::new();
    for s in a {
        fa.add_id(&server_id(*s));
    }
    for s in b {
        fb.add_id(&server_id(*s));
    }
    for s in a {
        ensure!(fa.contains_id(&server_id(*s)), "false-negative", "id {s} added to the filter is not reported");
    }
    let mut u = fa;
    u.add(&fb);
    let u2 = BloomFilter::union([fa, fb].iter());
    let u3: BloomFilter = [fb, fa].iter().collect();
    for s in a.iter().chain(b) {
        for (name, f) in [("add", &u), ("union", &u2), ("collect", &u3)] {
            ensure!(f.contains_id(&server_id(*s)), "false-negative-after-union", "id {s} missing after {name}");
        }
    }
    // an empty filter reports nothing; sanity only (false positives are allowed in general)
    let empty = BloomFilter::new();
    let mut fp = 0;
    for s in absent {
        ensure!(!empty.contains_id(&server_id(*s)), "empty-filter-reports-member", "empty filter contains id {s}");
        if u.contains_id(&server_id(*s)) {
            fp += 1;
        }
    }
    Outcome::pass(a.len() + b.len() >= 2).label("members").labels((fp > 0).then_some("false-positive-seen"))
}

impl Property for C34 {
    type Case = Case;
    const ID: &'static str = "C34";
    const RULE: &'static str = "60% transfer: chunk size 4<<k (k=0..7), server filter = 0..40 seeded server ids optionally OR-ed with seeded random bytes (dense..sparse), 0..60 events over {poll+answer, poll (replaces the outstanding request, unique cookie), true answer, answer to an earlier request with its own cookie, right cookie with wrong size 0..512, correct bytes with an unused cookie, the server's filter being replaced by another one}, optionally followed by 512/chunk clean exchanges; requests and answers pass through the extension-field encoders/decoders; 15% server library call for any (offset 0..65535, payload 0..1023 bytes); 10% server on the wire via Server::handle (v5 request with a 4..512-byte reference-id request whose offset field is patched to any value, answer EF parsed by hand); 15% membership of ids added directly / by add / union / collect. Non-trivial = transfer with an accepted chunk and (a rejected delivery or a completed filter); any server probe; membership with >= 2 ids (distinct = distinct case)";
    const ASSUMPTIONS: &'static [&'static str] = &[
        "when the server's filter changes during a transfer the client is expected to hold, for every chunk, the bytes it was sent last (it equals the server's filter again once a whole round was fetched after the change)",
        "client cookies of different polls are distinct (the client draws 64 random bits per poll)",
        "an arbitrary filter is built by pushing 512 bytes through a one-chunk RemoteBloomFilter (BloomFilter has no byte constructor); the result is compared with the bytes before use",
        "'or not at all' is accepted for any request; an answer to the client's own (always in-range) chunk request is required",
    ];
    const QUICK_CASES: u32 = 800_000;
    const THOROUGH_CASES: u32 = 46_000_000;

    fn strategy(tier: Tier) -> BoxedStrategy<Case> {
        prop_oneof![
            12 => (0u8..8, filterspec(), any::<u32>(), prop::collection::vec(ev(), 0..tier.pick(60, 200)), any::<bool>())
                .prop_map(|(chunk_log2, filter, cookie_salt, events, finish)| Case::Transfer { chunk_log2, filter, cookie_salt, events, finish }),
            3 => (filterspec(), prop_oneof![4 => 0u16..=512, 1 => any::<u16>()], prop_oneof![4 => 0u16..=128, 2 => 0u16..=520, 1 => 0u16..1024])
                .prop_map(|(filter, offset, len)| Case::ServerLib { filter, offset, len }),
            2 => (filterspec(), prop_oneof![3 => 0u8..16, 1 => any::<u8>()], prop_oneof![4 => 0u16..=512, 1 => any::<u16>()])
                .prop_map(|(filter, words, offset)| Case::ServerWire { filter, words, offset }),
            3 => (prop::collection::vec(any::<u64>(), 0..40), prop::collection::vec(any::<u64>(), 0..40), prop::collection::vec(any::<u64>(), 0..10))
                .prop_map(|(a, b, absent)| Case::Members { a, b, absent }),
        ]
        .boxed()
    }

    fn enumerate(_tier: Tier) -> Vec<Case> {
        let mut v = Vec::new();
        let filter = FilterSpec { ids: (0..20).collect(), noise: Some((3, 1)) };
        for chunk_log2 in 0u8..8 {
            // clean download
            v.push(Case::Transfer { chunk_log2, filter: filter.clone(), cookie_salt: 9, events: vec![], finish: true });
            // re-polls, stale answers, wrong sizes in the middle of the first round, then finish
            v.push(Case::Transfer {
                chunk_log2,
                filter: filter.clone(),
                cookie_salt: 0,
                events: vec![Ev::Stale { which: 0 }, Ev::Answer, Ev::Exchange, Ev::Poll, Ev::Poll, Ev::Stale { which: 0 }, Ev::Stale { which: 40000 }, Ev::WrongSize { words: 0 }, Ev::WrongSize { words: 128 }, Ev::WrongCookie { salt: 0 }, Ev::Answer, Ev::Answer, Ev::Stale { which: 65535 }],
                finish: true,
            });
        }
        for (offset, len) in [(0u16, 512u16), (508, 4), (508, 8), (512, 0), (512, 4), (0, 516), (65535, 4), (65532, 8), (4, 6), (0, 1), (0, 2), (511, 1)] {
            v.push(Case::ServerLib { filter: filter.clone(), offset, len });
        }
        for (words, offset) in [(0u8, 0u16), (0, 508), (0, 512), (127, 0), (127, 4), (3, 500), (3, 65535), (1, 65532)] {
            v.push(Case::ServerWire { filter: filter.clone(), words, offset });
        }
        v
    }

    fn enumeration_note() -> Option<&'static str> {
        Some("every chunk size: clean download and a download disturbed by re-polls, stale answers, wrong sizes, wrong cookies; server probes at the filter boundary (offset+len = 512, 513.., u16 wrap-around offsets)")
    }

    fn check(case: &Case) -> Outcome {
        match case {
            Case::Transfer { chunk_log2, filter, cookie_salt, events, finish } => check_transfer(*chunk_log2, filter, *cookie_salt, events, *finish).label("transfer"),
            Case::ServerLib { filter, offset, len } => check_server_lib(filter, *offset, *len),
            Case::ServerWire { filter, words, offset } => check_server_wire(filter, *words, *offset),
            Case::Members { a, b, absent } => check_members(a, b, absent),
        }
    }
}
