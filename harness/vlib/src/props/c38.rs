//! C38 — ntp-ctl / metrics exporter read exactly what the daemon publishes.
//!
//! Oracle: round trip `write_json` -> `read_json::<ObservableState>` compared field by field
//! against the *specification* of the generated state (integers, strings, timestamps, raw
//! floats exact; durations within 1 ppb + one 2^-32 s unit), plus the announced-length limit
//! observed with a counting reader.
use crate::engine::*;
use crate::gens::*;
use ntp_proto::verif_hook as nh;
use ntp_proto::verif_hook::time as nt;
use ntp_proto::{
    NtpLeapIndicator, NtpSnapshot, ObservableSourceState, ObservableSourceTimedata, SystemSnapshot,
    TimeSnapshot,
};
use ntpd::verif_hook as dh;
use proptest::prelude::*;
use serde::{Deserialize, Serialize};
use std::net::{Ipv4Addr, Ipv6Addr, SocketAddr, SocketAddrV4, SocketAddrV6};
use std::pin::Pin;
use std::task::{Context, Poll};
use tokio::io::{AsyncRead, ReadBuf};

pub struct C38;

const LIMIT: u64 = 1 << 20;
/// allowed distance (in units in the last place) between a published raw f64 and the value read
/// back. The statement says "equal value" => 0. (serde_json without its `float_roundtrip`
/// feature is off by one ulp for some 16/17-digit decimals; see the C38 finding.)
const FLOAT_ULPS: u64 = 0;

fn float_ok(want_bits: u64, got: f64) -> bool {
    // finite values of the same sign: the bit patterns are ordered like the values
    let g = got.to_bits();
    g == want_bits || ((g >> 63) == (want_bits >> 63) && got.is_finite() && g.abs_diff(want_bits) <= FLOAT_ULPS)
}

#[derive(Debug, Clone, Serialize, Deserialize)]
pub struct SrcSpec {
    pub offset: i64,
    pub uncertainty: i64,
    pub delay: i64,
    pub remote_delay: i64,
    pub remote_uncertainty: i64,
    pub last_update: u64,
    pub unanswered_polls: u32,
    pub poll: i8,
    pub nts_cookies: Option<u64>,
    pub name: String,
    pub address: String,
    pub id: u64,
}

#[derive(Debug, Clone, Serialize, Deserialize)]
pub struct SrvSpec {
    /// None = IPv4 (low 32 bits of `ip`), Some(scope) = IPv6
    pub v6_scope: Option<u32>,
    pub ip: (u64, u64),
    pub port: u16,
    pub counters: [u64; 11],
}

#[derive(Debug, Clone, Serialize, Deserialize)]
pub struct SysSpec {
    pub precision: i64,
    pub root_delay: i64,
    pub base_time: u64,
    /// base, linear, quadratic, cubic as f64 bit patterns (finite)
    pub variance: [u64; 4],
    pub leap: u8,
    pub accumulated_steps: i64,
    pub threshold: Option<i64>,
    pub stratum: u8,
    pub reference_id: u32,
}

#[derive(Debug, Clone, Serialize, Deserialize)]
pub struct StateSpec {
    pub version: String,
    pub build_commit: String,
    pub build_commit_date: String,
    pub uptime_bits: u64,
    pub now: u64,
    pub system: SysSpec,
    pub sources: Vec<SrcSpec>,
    pub servers: Vec<SrvSpec>,
}

#[derive(Debug, Clone, Serialize, Deserialize)]
pub enum Case {
    /// full round trip; the reader hands out at most `chunk` bytes per poll (0 = unlimited)
    State { spec: StateSpec, chunk: u16 },
    /// 8 byte header announcing `len`, followed by `avail` payload bytes
    Announce { len: u64, avail: u16 },
    /// a real state whose serialisation is padded (source name) to exactly `total` bytes
    Padded { total: u32 },
}

// ---------------------------------------------------------------------------
// tiny executor: every future used here works on in-memory buffers and is always ready

fn now<F: std::future::Future>(f: F) -> F::Output {
    let mut f = std::pin::pin!(f);
    let mut cx = Context::from_waker(std::task::Waker::noop());
    match f.as_mut().poll(&mut cx) {
        Poll::Ready(v) => v,
        Poll::Pending => panic!("harness: in-memory future returned Pending"),
    }
}

struct CountingReader<'a> {
    data: &'a [u8],
    pos: usize,
    chunk: usize,
}

impl AsyncRead for CountingReader<'_> {
    fn poll_read(mut self: Pin<&mut Self>, _cx: &mut Context<'_>, buf: &mut ReadBuf<'_>) -> Poll<std::io::Result<()>> {
        let mut n = (self.data.len() - self.pos).min(buf.remaining());
        if self.chunk != 0 {
            n = n.min(self.chunk);
        }
        let (a, b) = (self.pos, self.pos + n);
        buf.put_slice(&self.data[a..b]);
        self.pos = b;
        Poll::Ready(Ok(()))
    }
}

// ---------------------------------------------------------------------------
// building the real value from the specification

fn leap_of(v: u8) -> NtpLeapIndicator {
    match v % 5 {
        0 => NtpLeapIndicator::NoWarning,
        1 => NtpLeapIndicator::Leap61,
        2 => NtpLeapIndicator::Leap59,
        3 => NtpLeapIndicator::Unknown,
        _ => NtpLeapIndicator::Unsynchronized,
    }
}

fn addr_of(s: &SrvSpec) -> SocketAddr {
    match s.v6_scope {
        None => SocketAddr::V4(SocketAddrV4::new(Ipv4Addr::from(s.ip.1 as u32), s.port)),
        Some(scope) => {
            let ip = ((s.ip.0 as u128) << 64) | s.ip.1 as u128;
            // flowinfo 0: addresses come from parsing the `listen` configuration string
            SocketAddr::V6(SocketAddrV6::new(Ipv6Addr::from(ip), s.port, 0, scope))
        }
    }
}

fn counter(v: u64) -> dh::Counter {
    use serde::de::IntoDeserializer;
    let d: serde::de::value::U64Deserializer<serde::de::value::Error> = v.into_deserializer();
    dh::Counter::deserialize(d).expect("counter from u64")
}

fn stats_of(c: &[u64; 11]) -> dh::ServerStats {
    dh::ServerStats {
        received_packets: counter(c[0]),
        accepted_packets: counter(c[1]),
        denied_packets: counter(c[2]),
        ignored_packets: counter(c[3]),
        rate_limited_packets: counter(c[4]),
        response_send_errors: counter(c[5]),
        nts_received_packets: counter(c[6]),
        nts_accepted_packets: counter(c[7]),
        nts_denied_packets: counter(c[8]),
        nts_rate_limited_packets: counter(c[9]),
        nts_nak_packets: counter(c[10]),
    }
}

fn stats_read(s: &dh::ServerStats) -> [u64; 11] {
    [
        s.received_packets.get(),
        s.accepted_packets.get(),
        s.denied_packets.get(),
        s.ignored_packets.get(),
        s.rate_limited_packets.get(),
        s.response_send_errors.get(),
        s.nts_received_packets.get(),
        s.nts_accepted_packets.get(),
        s.nts_denied_packets.get(),
        s.nts_rate_limited_packets.get(),
        s.nts_nak_packets.get(),
    ]
}

fn build(spec: &StateSpec) -> dh::ObservableState {
    let d = nt::duration_from_raw;
    let t = nt::timestamp_from_raw;
    dh::ObservableState {
        program: dh::ProgramData {
            version: spec.version.clone(),
            build_commit: spec.build_commit.clone(),
            build_commit_date: spec.build_commit_date.clone(),
            uptime_seconds: f64::from_bits(spec.uptime_bits),
            now: t(spec.now),
        },
        system: SystemSnapshot {
            time_snapshot: TimeSnapshot {
                precision: d(spec.system.precision),
                root_delay: d(spec.system.root_delay),
                root_variance_base_time: t(spec.system.base_time),
                root_variance_base: f64::from_bits(spec.system.variance[0]),
                root_variance_linear: f64::from_bits(spec.system.variance[1]),
                root_variance_quadratic: f64::from_bits(spec.system.variance[2]),
                root_variance_cubic: f64::from_bits(spec.system.variance[3]),
                leap_indicator: leap_of(spec.system.leap),
                accumulated_steps: d(spec.system.accumulated_steps),
                accumulated_steps_threshold: spec.system.threshold.map(d),
            },
            ntp_snapshot: NtpSnapshot {
                stratum: spec.system.stratum,
                reference_id: nh::reference_id_from_raw(spec.system.reference_id),
                bloom_filter: ntp_proto::v5::BloomFilter::new(),
            },
        },
        sources: spec
            .sources
            .iter()
            .map(|s| ObservableSourceState {
                timedata: ObservableSourceTimedata {
                    offset: d(s.offset),
                    uncertainty: d(s.uncertainty),
                    delay: d(s.delay),
                    remote_delay: d(s.remote_delay),
                    remote_uncertainty: d(s.remote_uncertainty),
                    last_update: t(s.last_update),
                },
                unanswered_polls: s.unanswered_polls,
                poll_interval: nt::poll_from_log(s.poll),
                nts_cookies: s.nts_cookies.map(|v| v as usize),
                name: s.name.clone(),
                address: s.address.clone(),
                id: nh::clock_id_from_raw(s.id),
            })
            .collect(),
        servers: spec
            .servers
            .iter()
            .map(|s| dh::ObservableServerState { address: addr_of(s), stats: stats_of(&s.counters) })
            .collect(),
    }
}

// ---------------------------------------------------------------------------
// comparison

/// duration tolerance of the property: one part per billion plus one 2^-32 s unit
fn dur_ok(want: i64, got: ntp_proto::NtpDuration) -> bool {
    let got = nt::duration_raw(got);
    let diff = (want as i128 - got as i128).unsigned_abs();
    // integer form of  diff <= |want| * 1e-9 + 1  (floor is conservative: stricter)
    let tol = (want as i128).unsigned_abs() / 1_000_000_000 + 1;
    diff <= tol
}

macro_rules! ensure {
    ($cond:expr, $sig:expr, $($fmt:tt)*) => {
        if !$cond {
            return Err(Failure { signature: $sig.into(), what: format!($($fmt)*) });
        }
    };
}

fn compare(spec: &StateSpec, got: &dh::ObservableState) -> Result<(), Failure> {
    let p = &got.program;
    ensure!(p.version == spec.version, "string-differs/program.version", "version {:?} read back as {:?}", spec.version, p.version);
    ensure!(p.build_commit == spec.build_commit, "string-differs/program.build_commit", "{:?} vs {:?}", spec.build_commit, p.build_commit);
    ensure!(p.build_commit_date == spec.build_commit_date, "string-differs/program.build_commit_date", "{:?} vs {:?}", spec.build_commit_date, p.build_commit_date);
    ensure!(float_ok(spec.uptime_bits, p.uptime_seconds), "float-differs/program.uptime_seconds",
        "uptime {:e} ({:#x}) read back as {:e} ({:#x})", f64::from_bits(spec.uptime_bits), spec.uptime_bits, p.uptime_seconds, p.uptime_seconds.to_bits());
    ensure!(nt::timestamp_raw(p.now) == spec.now, "timestamp-differs/program.now", "{:#x} vs {:#x}", spec.now, nt::timestamp_raw(p.now));

    let s = &got.system.time_snapshot;
    let w = &spec.system;
    ensure!(dur_ok(w.precision, s.precision), "duration-differs/system.precision", "{} vs {}", w.precision, nt::duration_raw(s.precision));
    ensure!(dur_ok(w.root_delay, s.root_delay), "duration-differs/system.root_delay", "{} vs {}", w.root_delay, nt::duration_raw(s.root_delay));
    ensure!(nt::timestamp_raw(s.root_variance_base_time) == w.base_time, "timestamp-differs/system.root_variance_base_time", "{:#x} vs {:#x}", w.base_time, nt::timestamp_raw(s.root_variance_base_time));
    let fl = [s.root_variance_base, s.root_variance_linear, s.root_variance_quadratic, s.root_variance_cubic];
    for (i, name) in ["base", "linear", "quadratic", "cubic"].iter().enumerate() {
        ensure!(float_ok(w.variance[i], fl[i]), format!("float-differs/system.root_variance_{name}"),
            "{:e} ({:#x}) read back as {:e} ({:#x})", f64::from_bits(w.variance[i]), w.variance[i], fl[i], fl[i].to_bits());
    }
    ensure!(s.leap_indicator == leap_of(w.leap), "enum-differs/system.leap_indicator", "{:?} vs {:?}", leap_of(w.leap), s.leap_indicator);
    ensure!(dur_ok(w.accumulated_steps, s.accumulated_steps), "duration-differs/system.accumulated_steps", "{} vs {}", w.accumulated_steps, nt::duration_raw(s.accumulated_steps));
    match (w.threshold, s.accumulated_steps_threshold) {
        (None, None) => {}
        (Some(a), Some(b)) => ensure!(dur_ok(a, b), "duration-differs/system.accumulated_steps_threshold", "{a} vs {}", nt::duration_raw(b)),
        (a, b) => ensure!(false, "option-differs/system.accumulated_steps_threshold", "{a:?} vs {b:?}"),
    }
    let n = &got.system.ntp_snapshot;
    ensure!(n.stratum == w.stratum, "int-differs/system.stratum", "{} vs {}", w.stratum, n.stratum);
    ensure!(nh::reference_id_raw(n.reference_id) == w.reference_id, "int-differs/system.reference_id", "{:#x} vs {:#x}", w.reference_id, nh::reference_id_raw(n.reference_id));

    ensure!(got.sources.len() == spec.sources.len(), "list-length-differs/sources", "{} vs {}", spec.sources.len(), got.sources.len());
    for (w, g) in spec.sources.iter().zip(&got.sources) {
        let td = &g.timedata;
        ensure!(dur_ok(w.offset, td.offset), "duration-differs/source.offset", "{} vs {}", w.offset, nt::duration_raw(td.offset));
        ensure!(dur_ok(w.uncertainty, td.uncertainty), "duration-differs/source.uncertainty", "{} vs {}", w.uncertainty, nt::duration_raw(td.uncertainty));
        ensure!(dur_ok(w.delay, td.delay), "duration-differs/source.delay", "{} vs {}", w.delay, nt::duration_raw(td.delay));
        ensure!(dur_ok(w.remote_delay, td.remote_delay), "duration-differs/source.remote_delay", "{} vs {}", w.remote_delay, nt::duration_raw(td.remote_delay));
        ensure!(dur_ok(w.remote_uncertainty, td.remote_uncertainty), "duration-differs/source.remote_uncertainty", "{} vs {}", w.remote_uncertainty, nt::duration_raw(td.remote_uncertainty));
        ensure!(nt::timestamp_raw(td.last_update) == w.last_update, "timestamp-differs/source.last_update", "{:#x} vs {:#x}", w.last_update, nt::timestamp_raw(td.last_update));
        ensure!(g.unanswered_polls == w.unanswered_polls, "int-differs/source.unanswered_polls", "{} vs {}", w.unanswered_polls, g.unanswered_polls);
        ensure!(g.poll_interval.as_log() == w.poll, "int-differs/source.poll_interval", "{} vs {}", w.poll, g.poll_interval.as_log());
        ensure!(g.nts_cookies.map(|v| v as u64) == w.nts_cookies, "int-differs/source.nts_cookies", "{:?} vs {:?}", w.nts_cookies, g.nts_cookies);
        ensure!(g.name == w.name, "string-differs/source.name", "{:?} vs {:?}", w.name, g.name);
        ensure!(g.address == w.address, "string-differs/source.address", "{:?} vs {:?}", w.address, g.address);
        ensure!(nh::clock_id_raw(g.id) == w.id, "int-differs/source.id", "{} vs {}", w.id, nh::clock_id_raw(g.id));
    }
    ensure!(got.servers.len() == spec.servers.len(), "list-length-differs/servers", "{} vs {}", spec.servers.len(), got.servers.len());
    for (w, g) in spec.servers.iter().zip(&got.servers) {
        ensure!(g.address == addr_of(w), "address-differs/server.address", "{:?} vs {:?}", addr_of(w), g.address);
        ensure!(stats_read(&g.stats) == w.counters, "int-differs/server.stats", "{:?} vs {:?}", w.counters, stats_read(&g.stats));
    }
    Ok(())
}

/// write with the daemon's function; returns the framed bytes
fn publish(state: &dh::ObservableState) -> Vec<u8> {
    let mut out: Vec<u8> = Vec::new();
    now(dh::write_json(&mut out, state)).expect("writing to a Vec cannot fail");
    out
}

/// read with the function used by ntp-ctl and the metrics exporter; returns (result, bytes consumed)
fn consume(bytes: &[u8], chunk: usize) -> (std::io::Result<dh::ObservableState>, usize) {
    let mut rd = CountingReader { data: bytes, pos: 0, chunk };
    let mut buf = Vec::new();
    let r = now(dh::read_json::<dh::ObservableState>(&mut rd, &mut buf));
    (r, rd.pos)
}

// ---------------------------------------------------------------------------
// generators

fn text() -> BoxedStrategy<String> {
    let ch = prop_oneof![
        4 => (0x20u8..0x7f).prop_map(|b| b as char),
        2 => prop::sample::select(vec!['"', '\\', '/', '\n', '\r', '\t', '\0', '\u{1}', '\u{1f}', '\u{7f}', '\u{80}',
            '\u{2028}', '\u{2029}', '\u{feff}', '\u{fffd}', '\u{ffff}', '\u{10000}', '\u{10ffff}', 'é', '日', '😀', '%', '[', ']', ':']),
        1 => any::<char>(),
    ];
    prop_oneof![
        1 => Just(String::new()),
        2 => prop::sample::select(vec!["127.0.0.3:123", "[::1]:123", "pool.ntp.org:123", "GPSd socket", "/run/chrony.ttyS0.sock", "1.7.1", "2025-01-01"]).prop_map(str::to_owned),
        4 => prop::collection::vec(ch, 0..24).prop_map(|v| v.into_iter().collect()),
    ]
    .boxed()
}

fn fbits() -> BoxedStrategy<u64> {
    prop_oneof![
        6 => f64_finite().prop_map(f64::to_bits),
        // subnormals
        1 => (1u64..(1 << 52), any::<bool>()).prop_map(|(m, s)| m | ((s as u64) << 63)),
        // realistic magnitudes: uptimes, variances
        2 => (0.0f64..1e7).prop_map(f64::to_bits),
        2 => (0u64..4000, -30i32..0).prop_map(|(m, e)| ((m as f64 / 7.0) * 10f64.powi(e)).to_bits()),
    ]
    .boxed()
}

fn dur() -> BoxedStrategy<i64> {
    prop_oneof![
        4 => i64_interesting(),
        // realistic: |d| < 16 s with random fraction
        3 => -(1i64 << 36)..(1i64 << 36),
        // around small negative values (floor/fraction handling)
        1 => -70_000i64..10,
    ]
    .boxed()
}

fn src() -> BoxedStrategy<SrcSpec> {
    (
        (dur(), dur(), dur(), dur(), dur()),
        u64_interesting(),
        prop_oneof![Just(0u32), Just(u32::MAX), 0u32..9, any::<u32>()],
        any::<i8>(),
        prop_oneof![2 => Just(None), 3 => (0u64..9).prop_map(Some), 1 => u64_interesting().prop_map(Some)],
        text(),
        text(),
        u64_interesting(),
    )
        .prop_map(|(d, last_update, unanswered_polls, poll, nts_cookies, name, address, id)| SrcSpec {
            offset: d.0,
            uncertainty: d.1,
            delay: d.2,
            remote_delay: d.3,
            remote_uncertainty: d.4,
            last_update,
            unanswered_polls,
            poll,
            nts_cookies,
            name,
            address,
            id,
        })
        .boxed()
}

fn srv() -> BoxedStrategy<SrvSpec> {
    (
        prop_oneof![2 => Just(None), 2 => Just(Some(0u32)), 1 => any::<u32>().prop_map(Some)],
        prop_oneof![
            2 => (any::<u64>(), any::<u64>()),
            1 => prop::sample::select(vec![(0u64, 0u64), (0, 1), (0, 0xffff_0102_0304), (0xfe80 << 48, 1), (u64::MAX, u64::MAX), (0, 0x7f00_0001)]),
        ],
        prop_oneof![Just(123u16), Just(0u16), any::<u16>()],
        prop::array::uniform11(prop_oneof![2 => u64_interesting(), 2 => 0u64..100_000]),
    )
        .prop_map(|(v6_scope, ip, port, counters)| SrvSpec { v6_scope, ip, port, counters })
        .boxed()
}

fn sys() -> BoxedStrategy<SysSpec> {
    (
        dur(),
        dur(),
        u64_interesting(),
        prop::array::uniform4(fbits()),
        0u8..5,
        dur(),
        prop_oneof![Just(None), dur().prop_map(Some)],
        any::<u8>(),
        any::<u32>(),
    )
        .prop_map(|(precision, root_delay, base_time, variance, leap, accumulated_steps, threshold, stratum, reference_id)| SysSpec {
            precision,
            root_delay,
            base_time,
            variance,
            leap,
            accumulated_steps,
            threshold,
            stratum,
            reference_id,
        })
        .boxed()
}

fn state() -> BoxedStrategy<StateSpec> {
    (
        (text(), text(), text()),
        fbits(),
        u64_interesting(),
        sys(),
        prop::collection::vec(src(), 0..=20),
        prop::collection::vec(srv(), 0..=5),
    )
        .prop_map(|(s, uptime_bits, now, system, sources, servers)| StateSpec {
            version: s.0,
            build_commit: s.1,
            build_commit_date: s.2,
            uptime_bits,
            now,
            system,
            sources,
            servers,
        })
        .boxed()
}

fn small_state() -> StateSpec {
    StateSpec {
        version: "1.7.1".into(),
        build_commit: "0123abcd".into(),
        build_commit_date: "2025-01-01".into(),
        uptime_bits: 12.5f64.to_bits(),
        now: 0xEC00_0000_8000_0000,
        system: SysSpec {
            precision: 1 << 12,
            root_delay: 1 << 26,
            base_time: 0xEC00_0000_0000_0000,
            variance: [1e-9f64.to_bits(), 0, 0, 0],
            leap: 0,
            accumulated_steps: 0,
            threshold: None,
            stratum: 2,
            reference_id: 0x7f000001,
        },
        sources: vec![SrcSpec {
            offset: -123456,
            uncertainty: 4000,
            delay: 1 << 22,
            remote_delay: 1 << 20,
            remote_uncertainty: 1 << 18,
            last_update: 0xEC00_0000_7000_0000,
            unanswered_polls: 0,
            poll: 4,
            nts_cookies: Some(8),
            name: String::new(),
            address: "127.0.0.3:123".into(),
            id: 1,
        }],
        servers: vec![],
    }
}

fn check_state(spec: &StateSpec, chunk: usize) -> Outcome {
    let state = build(spec);
    let bytes = publish(&state);
    if bytes.len() < 8 || u64::from_be_bytes(bytes[..8].try_into().unwrap()) != (bytes.len() - 8) as u64 {
        return Outcome::fail("framing/announced-length-differs-from-payload", format!("{} bytes written, header {:?}", bytes.len(), &bytes[..bytes.len().min(8)]));
    }
    let payload = (bytes.len() - 8) as u64;
    let (r, consumed) = consume(&bytes, chunk);
    let mut out = match r {
        Ok(got) => {
            if payload > LIMIT {
                return Outcome::fail("limit/oversized-message-accepted", format!("a message of {payload} payload bytes was accepted"));
            }
            if consumed != bytes.len() {
                return Outcome::fail("framing/not-fully-consumed", format!("{consumed} of {} bytes consumed", bytes.len()));
            }
            match compare(spec, &got) {
                Ok(()) => Outcome::pass(true),
                Err(f) => return Outcome { failure: Some(f), labels: vec![], nontrivial: true },
            }
        }
        Err(e) => {
            if payload <= LIMIT {
                return Outcome::fail("roundtrip/published-state-rejected", format!("read_json failed on write_json output ({payload} bytes): {e}"));
            }
            if consumed != 8 {
                return Outcome::fail("limit/payload-read-before-rejecting", format!("announced {payload}: {consumed} bytes consumed before the error"));
            }
            Outcome::pass(true).label("oversized-state-rejected")
        }
    };
    let all_durs = || {
        spec.sources
            .iter()
            .flat_map(|s| [s.offset, s.uncertainty, s.delay, s.remote_delay, s.remote_uncertainty])
            .chain([spec.system.precision, spec.system.root_delay, spec.system.accumulated_steps])
            .chain(spec.system.threshold)
    };
    let floats = || spec.system.variance.iter().copied().chain([spec.uptime_bits]);
    out = out
        .label(match spec.sources.len() {
            0 => "sources=0",
            1..=5 => "sources=1-5",
            _ => "sources=6-20",
        })
        .label(if spec.servers.is_empty() { "servers=0" } else { "servers>0" })
        .labels(all_durs().any(|d| d < 0).then_some("negative-duration"))
        .labels(all_durs().any(|d| d.unsigned_abs() > 1 << 53).then_some("duration>2^53"))
        .labels(all_durs().any(|d| d == i64::MIN || d == i64::MAX).then_some("duration-extreme"))
        .labels(floats().any(|b| f64::from_bits(b).is_subnormal()).then_some("subnormal-float"))
        .labels(floats().any(|b| f64::from_bits(b).abs() > 1e200).then_some("huge-float"))
        .labels(spec.servers.iter().any(|s| s.v6_scope.is_some()).then_some("ipv6-server"))
        .labels(spec.servers.iter().any(|s| s.v6_scope.is_some_and(|v| v != 0)).then_some("ipv6-scope-id"))
        .labels(spec.sources.iter().any(|s| !s.name.is_ascii() || s.name.chars().any(|c| c.is_control() || c == '"' || c == '\\')).then_some("string-needs-escaping"))
        .labels(spec.sources.iter().any(|s| s.nts_cookies.is_some()).then_some("nts-cookies"))
        .labels((chunk != 0).then_some("chunked-reader"));
    out
}

impl Property for C38 {
    type Case = Case;
    const ID: &'static str = "C38";
    const RULE: &'static str = "ObservableState specifications (0..20 sources, 0..5 servers, counters/ids over the u64 range, timestamps over the full u64 range, durations over the full i64 range incl. MIN/MAX/negative/sub-second, finite f64 incl. subnormal and ±MAX, strings with JSON-special/non-ASCII characters, IPv4/IPv6(+scope id) listen addresses) are built with the real types, written with write_json into memory and read with read_json::<ObservableState> through a counting (optionally chunking) reader, then compared field by field against the specification (durations: |Δ| ≤ |d|·1e-9 + 1 unit, everything else exact); announced lengths from {0, 2^20±δ, 2^k±δ, random u64} with 0..64 payload bytes available must be rejected after exactly 8 consumed bytes when > 2^20; real states padded to exactly 2^20±3 bytes probe the boundary through both functions. Non-trivial = a state round trip, or an announced length > 2^20 with payload bytes available (distinct = distinct specification)";
    const ASSUMPTIONS: &'static [&'static str] = &[
        "floats in published states are finite (the statement's precondition); bloom_filter is #[serde(skip)] and not part of the published value",
        "listen addresses have flowinfo 0 (they come from parsing the configuration string)",
        "the stream is an in-memory reader/writer: Unix stream socket transport (short reads) is modelled by the chunking reader, not by a kernel socket",
        "the handler observer::handle_connection is private to observer.rs; the check calls sockets::write_json on an ObservableState exactly as that handler does",
    ];
    const QUICK_CASES: u32 = 100_000;
    const THOROUGH_CASES: u32 = 4_200_000;

    fn strategy(_tier: Tier) -> BoxedStrategy<Case> {
        let around = |c: u64| (-4i64..=4).prop_map(move |d| c.wrapping_add(d as u64));
        prop_oneof![
            120 => (state(), prop_oneof![3 => Just(0u16), 1 => 1u16..9, 1 => any::<u16>()]).prop_map(|(spec, chunk)| Case::State { spec, chunk }),
            32 => (prop_oneof![
                    4 => around(LIMIT),
                    2 => u64_interesting(),
                    1 => around(1 << 32),
                    1 => around(1 << 21),
                    1 => 0u64..64,
                    1 => (LIMIT + 1)..=u64::MAX,
                ], prop_oneof![1 => Just(0u16), 4 => 1u16..=64]).prop_map(|(len, avail)| Case::Announce { len, avail }),
            1 => ((LIMIT as u32 - 40)..=(LIMIT as u32 + 40)).prop_map(|total| Case::Padded { total }),
        ]
        .boxed()
    }

    fn enumerate(_tier: Tier) -> Vec<Case> {
        let mut v = Vec::new();
        for d in -3i64..=3 {
            v.push(Case::Padded { total: (LIMIT as i64 + d) as u32 });
            v.push(Case::Announce { len: (LIMIT as i64 + d) as u64, avail: 16 });
        }
        v.push(Case::Announce { len: u64::MAX, avail: 64 });
        v.push(Case::Announce { len: 1 << 63, avail: 64 });
        v.push(Case::State { spec: small_state(), chunk: 0 });
        v.push(Case::State { spec: small_state(), chunk: 1 });
        // small negative durations: the fraction/floor path of from_seconds
        for d in [-1i64, -2, -3, -(1 << 32), -(1 << 32) - 1, -(1 << 32) + 1, i64::MIN, i64::MAX, i64::MIN + 1] {
            let mut s = small_state();
            s.sources[0].offset = d;
            s.system.accumulated_steps = d;
            v.push(Case::State { spec: s, chunk: 0 });
        }
        v
    }

    fn enumeration_note() -> Option<&'static str> {
        Some("boundary lengths 2^20-3..2^20+3 both as bare announcements and as real padded states; u64::MAX / 2^63 announcements; a fixed realistic state; durations -1,-2,-3,-2^32±1,MIN,MAX")
    }

    fn check(case: &Case) -> Outcome {
        match case {
            Case::State { spec, chunk } => check_state(spec, *chunk as usize),
            Case::Announce { len, avail } => {
                let mut bytes = len.to_be_bytes().to_vec();
                // payload bytes: the start of a JSON document, so a reader that goes on reading sees plausible data
                bytes.extend(std::iter::repeat(b' ').take(*avail as usize));
                let (r, consumed) = consume(&bytes, 0);
                if *len > LIMIT {
                    match r {
                        Ok(_) => Outcome::fail("limit/oversized-announcement-accepted", format!("announced {len}: accepted")),
                        Err(_) if consumed != 8 => Outcome::fail(
                            "limit/payload-read-before-rejecting",
                            format!("announced {len} with {avail} payload bytes available: {consumed} bytes consumed before the error"),
                        ),
                        Err(_) => Outcome::pass(*avail > 0).label("announce>1MiB").labels((*len > u32::MAX as u64).then_some("announce>4GiB")),
                    }
                } else {
                    // within the limit: whitespace only / truncated payload is an error, never a value, never a panic
                    match r {
                        Ok(_) => Outcome::fail("framing/whitespace-accepted-as-state", format!("announced {len}: produced a state from blanks")),
                        Err(_) if consumed as u64 > 8 + *len => Outcome::fail("framing/read-past-announced-length", format!("announced {len}: consumed {consumed}")),
                        Err(_) => Outcome::pass(false).label("announce<=1MiB"),
                    }
                }
            }
            Case::Padded { total } => {
                let mut spec = small_state();
                let base = publish(&build(&spec)).len() - 8;
                if (*total as usize) < base {
                    return Outcome::pass(false).label("discard-padded-too-small");
                }
                spec.sources[0].name = "a".repeat(*total as usize - base);
                let state = build(&spec);
                let bytes = publish(&state);
                if bytes.len() - 8 != *total as usize {
                    return Outcome::pass(false).label("discard-padding-miscounted");
                }
                check_state(&spec, 0).label(if *total as u64 > LIMIT { "padded>1MiB" } else { "padded<=1MiB" })
            }
        }
    }

    fn render(case: &Case) -> serde_json::Value {
        truncate_json(serde_json::to_value(case).unwrap_or(serde_json::Value::Null), 3000)
    }
}
