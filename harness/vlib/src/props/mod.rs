use crate::engine::{Entry, entry};

pub mod c32;

pub fn registry() -> Vec<Entry> {
    vec![entry::<c32::C32>(false)]
}
