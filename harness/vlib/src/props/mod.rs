use crate::engine::{Entry, entry};

pub mod c32;
pub mod packet;
pub mod server;

pub fn registry() -> Vec<Entry> {
    vec![
        entry::<server::C15>(false),
        entry::<server::C16>(false),
        entry::<server::C17>(false),
        entry::<server::C18>(false),
        entry::<server::C19>(false),
        entry::<server::C21>(false),
        entry::<server::C22>(false),
        entry::<packet::C23>(true),
        entry::<packet::C24>(true),
        entry::<packet::C25>(false),
        entry::<c32::C32>(false),
    ]
}
