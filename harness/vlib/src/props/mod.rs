use crate::engine::{Entry, entry};

pub mod c20;
pub mod c26;
pub mod c27;
pub mod c28;
pub mod c29;
pub mod c30;
pub mod c31;
pub mod c32;
pub mod c34;
pub mod c35;
pub mod c36;
pub mod c38;
pub mod c39;
pub mod c40;
pub mod c41;
pub mod c42;
pub mod c43;
pub mod c44;
pub mod c45;
pub mod kalman;
pub mod misc;
pub mod packet;
pub mod server;
pub mod source;

pub fn registry() -> Vec<Entry> {
    vec![
        entry::<kalman::C01>(false),
        entry::<kalman::C02>(false),
        entry::<kalman::C03>(false),
        entry::<kalman::C04>(false),
        entry::<misc::C05>(false),
        entry::<kalman::C06>(false),
        entry::<source::C07>(false),
        entry::<source::C08>(false),
        entry::<source::C09>(false),
        entry::<kalman::C10>(false),
        entry::<source::C11>(false),
        entry::<source::C12>(false),
        entry::<source::C13>(false),
        entry::<misc::C14>(false),
        entry::<server::C15>(false),
        entry::<server::C16>(false),
        entry::<server::C17>(false),
        entry::<server::C18>(false),
        entry::<server::C19>(false),
        entry::<c20::C20>(false),
        entry::<server::C21>(false),
        entry::<server::C22>(true),
        entry::<packet::C23>(true),
        entry::<packet::C24>(true),
        entry::<packet::C25>(false),
        entry::<c26::C26>(false),
        entry::<c27::C27>(true),
        entry::<c28::C28>(false),
        entry::<c29::C29>(false),
        entry::<c30::C30>(true),
        entry::<c31::C31>(false),
        entry::<c32::C32>(false),
        entry::<misc::C33>(false),
        entry::<c34::C34>(false),
        entry::<c35::C35>(false),
        entry::<c36::C36>(false),
        entry::<misc::C37>(false),
        entry::<c38::C38>(false),
        entry::<c39::C39>(true),
        entry::<c40::C40>(false),
        entry::<c41::C41>(true),
        entry::<c42::C42>(false),
        entry::<c43::C43>(false),
        entry::<c44::C44>(false),
        entry::<c45::C45>(true),
    ]
}
