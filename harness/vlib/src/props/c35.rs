//! C35 — pool sources are distinct, bounded by the configured count and respect the ignore list,
//! whatever the DNS answers and the removal order.
//!
//! The real `PoolSpawner` is driven exactly like `spawner_task` drives it (`try_spawn` only while
//! `!is_complete()`, `handle_source_removed` for sources that exist, each removed once) with DNS
//! answers scripted through the interposed resolver (`w_dns`). The oracle is a model of the
//! *active* set reconstructed from the SpawnEvent stream minus the removals.
//!
//! About a quarter of the cases drive the real `NtsPoolSpawner` instead (`Case::NtsPool`): the pool is
//! "resolved" through key exchanges with a scripted in-process NTS-KE server on a loopback TCP port
//! (`w_ntsked`), whose per-exchange answers (server name / IP literal / none, port, cookies, errors,
//! closes, stalls) and the DNS answers for the handed-out names come from the case.
use std::net::{IpAddr, Ipv4Addr, Ipv6Addr, SocketAddr};
use std::sync::Arc;
use std::sync::atomic::{AtomicUsize, Ordering};

use crate::engine::*;
use crate::w_dns::{self, Answer};
use crate::w_ntsked::{self, KeAnswer, KeDns, NDns, Reply, Srv};
use ntp_proto::{ClockId, ProtocolVersion, SourceConfig};
use ntpd::verif_hook::spawn_hook as sh;
use proptest::prelude::*;
use serde::{Deserialize, Serialize};
use sh::Spawner;

pub struct C35;

pub const HOST: &str = "c35-pool.verif.test";

/// address universe (indices 0..10): small on purpose so that answers overlap
pub fn universe(i: u8) -> IpAddr {
    match i % 10 {
        // IPv4-mapped IPv6 answers (an AAAA-only resolver path); 8 is the mapped form of entry 1
        8 => IpAddr::V6(Ipv4Addr::new(127, 0, 0, 2).to_ipv6_mapped()),
        9 => IpAddr::V6(Ipv4Addr::new(127, 0, 0, 9).to_ipv6_mapped()),
        0 => IpAddr::V4(Ipv4Addr::new(127, 0, 0, 1)),
        1 => IpAddr::V4(Ipv4Addr::new(127, 0, 0, 2)),
        2 => IpAddr::V4(Ipv4Addr::new(127, 0, 0, 3)),
        3 => IpAddr::V4(Ipv4Addr::new(127, 0, 0, 4)),
        4 => IpAddr::V4(Ipv4Addr::new(127, 0, 0, 5)),
        5 => IpAddr::V4(Ipv4Addr::new(127, 0, 0, 6)),
        6 => IpAddr::V6(Ipv6Addr::LOCALHOST),
        _ => IpAddr::V4(Ipv4Addr::new(127, 1, 2, 3)),
    }
}

#[derive(Debug, Clone, Serialize, Deserialize, PartialEq, Eq)]
pub enum Dns {
    /// successful answer: indices into the universe, in this order (duplicates allowed)
    Addrs(Vec<u8>),
    NoName,
    Again,
}

#[derive(Debug, Clone, Serialize, Deserialize, PartialEq, Eq)]
pub enum Op {
    /// one spawn round (what `spawner_task` does when it has a ticket)
    Spawn,
    /// the system removes one active source (monotone index into the active list)
    Remove { which: u16, reason: u8 },
    /// the system removes every active source, oldest first or newest first
    RemoveAll { newest_first: bool, reason: u8 },
}

#[derive(Debug, Clone, Serialize, Deserialize)]
pub struct PlainCase {
    pub count: usize,
    pub port: u16,
    /// ignored addresses (universe indices)
    pub ignore: Vec<u8>,
    /// answer of lookup k is `answers[k % len]`
    pub answers: Vec<Dns>,
    pub ops: Vec<Op>,
}

/// NTS pool: the pool members come from key exchanges with a scripted KE server
#[derive(Debug, Clone, Serialize, Deserialize)]
pub struct NtsPoolCase {
    pub count: usize,
    /// the KE server avoids names the client lists as already in use (like a real pool KE server)
    pub honor_deny: bool,
    /// resolver answers for the KE host name (lookup k gets `ke_dns[k % len]`)
    pub ke_dns: Vec<KeDns>,
    /// answer of key exchange k is `ke[k % len]`
    pub ke: Vec<KeAnswer>,
    /// resolver answers for the NTP server name `w_ntsked::NTP_NAMES[i]` (lookup k gets `hosts[i][k % len]`)
    pub hosts: Vec<Vec<NDns>>,
    pub ops: Vec<Op>,
    /// SRV mode (`enable-srv-resolution = true`) when not empty: the key-exchange servers the SRV lookup of the
    /// pool name yields, as (index into `w_ntsked::KE_NAMES`, reachable), handed to the spawner cyclically
    /// through the hook in place of the resolver (hickory needs a DNS server)
    #[serde(default)]
    pub srv: Vec<(u8, bool)>,
}

/// Untagged: replay files written before the NTS variant existed are plain pool cases (`answers`/`ignore`
/// fields), NTS pool cases are recognised by their `ke`/`hosts` fields.
#[derive(Debug, Clone, Serialize, Deserialize)]
#[serde(untagged)]
pub enum Case {
    Plain(PlainCase),
    NtsPool(NtsPoolCase),
}

fn reason(r: u8) -> sh::SourceRemovalReason {
    match r % 3 {
        0 => sh::SourceRemovalReason::NetworkIssue,
        1 => sh::SourceRemovalReason::Unreachable,
        _ => sh::SourceRemovalReason::Demobilized,
    }
}

pub fn to_answer(d: &Dns) -> Answer {
    match d {
        Dns::Addrs(v) => Answer::Addrs(v.iter().map(|i| universe(*i)).collect()),
        Dns::NoName => Answer::NoName,
        Dns::Again => Answer::Again,
    }
}

fn dns_strategy() -> impl Strategy<Value = Dns> {
    prop_oneof![
        10 => prop::collection::vec(prop_oneof![8 => 0u8..8, 2 => 8u8..10], 0..7).prop_map(Dns::Addrs),
        1 => Just(Dns::NoName),
        1 => Just(Dns::Again),
    ]
}

fn op_strategy() -> impl Strategy<Value = Op> {
    prop_oneof![
        6 => Just(Op::Spawn),
        4 => (any::<u16>(), 0u8..3).prop_map(|(which, reason)| Op::Remove { which, reason }),
        1 => (any::<bool>(), 0u8..3).prop_map(|(newest_first, reason)| Op::RemoveAll { newest_first, reason }),
    ]
}

/// Make sure the resolver interposition is really in effect in this process (independent of the
/// code under test). Without it the check would talk to a real resolver, so: inconclusive.
pub fn interposition_selftest() {
    use std::net::ToSocketAddrs;
    use std::sync::Once;
    static ONCE: Once = Once::new();
    ONCE.call_once(|| {
        let name = "selftest.w-dns.verif.test";
        w_dns::script(name, vec![Answer::Addrs(vec![IpAddr::V4(Ipv4Addr::new(127, 9, 9, 9))])]);
        let got: Vec<SocketAddr> = (name, 77u16).to_socket_addrs().map(|i| i.collect()).unwrap_or_default();
        let want: SocketAddr = "127.9.9.9:77".parse().unwrap();
        if got != vec![want] || w_dns::calls(name) != 1 {
            eprintln!("INCONCLUSIVE: getaddrinfo interposition is not active (got {got:?})");
            std::process::exit(2);
        }
        // unscripted names must reach the real resolver and its freeaddrinfo (transparent fallback);
        // "localhost" is answered from /etc/hosts, the result itself does not matter
        let before = w_dns::total_scripted_calls();
        let _ = ("localhost", 77u16).to_socket_addrs().map(|i| i.count());
        if w_dns::total_scripted_calls() != before || w_dns::outstanding_lists() != 0 {
            eprintln!("INCONCLUSIVE: getaddrinfo interposition is not transparent for unscripted names");
            std::process::exit(2);
        }
    });
}

impl Property for C35 {
    type Case = Case;
    const ID: &'static str = "C35";
    const RULE: &'static str = "count 1..=5, ignore list and per-lookup DNS answers (success lists with duplicates / NoName / Again) drawn over an \
        8-address universe (127.0.0.0/8 and ::1), ops = vec(Spawn | Remove{which,reason} | RemoveAll, 0..60) interpreted against the real \
        PoolSpawner; NON-TRIVIAL = at least two sources were created and at least one source was created after a removal (the bookkeeping of \
        unused resolved addresses was exercised across rounds). One case in four drives the real NtsPoolSpawner instead: count 1..=4, a scripted \
        loopback NTS-KE server (per exchange: preference list of server names / IP literals / none, port, 0..9 cookies, error record, close, TCP drop, \
        stall beyond the exchange timeout; it honours the client's denied-server list or not), per-lookup DNS answers for the KE name and the four NTP \
        names (half of the cases alias-free: one fixed address per name; otherwise overlapping, changing lists), same op sequences (0..20); same \
        NON-TRIVIAL rule";
    const ASSUMPTIONS: &'static [&'static str] = &[
        "the system removes only sources that this spawner created and each of them once (system.rs removes the source from its map first)",
        "try_spawn is only called while !is_complete(), as spawner_task does",
        "the resolver is the interposed getaddrinfo: a successful lookup has >= 1 address; an empty list is reported as EAI_NONAME",
        "'same server address' = equal SocketAddr (the port is the configured one for every address)",
        "NTS pool: 'same server address' = equal resolved SocketAddr of the NTP server (name given by the KE server resolved through DNS, port from the KE answer or 123); an NTS pool has no ignore list; enable-srv-resolution is off (the SRV path needs a real DNS server)",
        "NTS pool: real TCP/TLS on 127.0.0.1 under a paused tokio clock that is kept from auto-advancing while try_spawn runs; the only virtual time that passes is the scripted stall beyond the 5 s key exchange timeout",
    ];
    const QUICK_CASES: u32 = 16_000;
    const THOROUGH_CASES: u32 = 300_000;

    fn strategy(tier: Tier) -> BoxedStrategy<Case> {
        let max_ops = tier.pick(60usize, 120usize);
        let plain = (
            1usize..=5,
            prop_oneof![3 => Just(123u16), 1 => any::<u16>()],
            prop::collection::vec(0u8..8, 0..4),
            prop::collection::vec(dns_strategy(), 1..5),
            prop::collection::vec(op_strategy(), 0..max_ops),
        )
            .prop_map(|(count, port, ignore, answers, ops)| Case::Plain(PlainCase { count, port, ignore, answers, ops }));
        // debugging aid (sensitivity runs of one driver): VERIF_ONLY_MODE=nts|plain
        match std::env::var("VERIF_ONLY_MODE").ok().as_deref() {
            Some("nts") => return nts_pool_strategy(tier).prop_map(Case::NtsPool).boxed(),
            Some("plain") => return plain.boxed(),
            _ => {}
        }
        prop_oneof![
            3 => plain,
            1 => nts_pool_strategy(tier).prop_map(Case::NtsPool),
        ]
        .boxed()
    }

    fn enumerate(_tier: Tier) -> Vec<Case> {
        if std::env::var_os("VERIF_NO_ENUM").is_some() { return vec![]; }
        let ra = |newest_first| Op::RemoveAll { newest_first, reason: 0 };
        let plain: Vec<PlainCase> = vec![
            // the design probe: ordinary answer [A,B,C] on every lookup, count 2, remove both each round
            PlainCase {
                count: 2,
                port: 123,
                ignore: vec![],
                answers: vec![Dns::Addrs(vec![0, 1, 2])],
                ops: vec![Op::Spawn, ra(false), Op::Spawn, ra(false), Op::Spawn, ra(true), Op::Spawn],
            },
            // duplicate inside one answer
            PlainCase {
                count: 2,
                port: 123,
                ignore: vec![],
                answers: vec![Dns::Addrs(vec![0, 0])],
                ops: vec![Op::Spawn],
            },
            // ignored address mixed into the answers, several rounds
            PlainCase {
                count: 3,
                port: 123,
                ignore: vec![1],
                answers: vec![Dns::Addrs(vec![0, 1, 2, 3]), Dns::Addrs(vec![1, 1, 4])],
                ops: vec![Op::Spawn, Op::Remove { which: 0, reason: 1 }, Op::Spawn, ra(true), Op::Spawn, Op::Spawn],
            },
        ];
        let ok = |servers: Vec<Srv>| KeAnswer::Ok { servers, port: None, cookies: 8, delay_ms: 0 };
        let one_to_one: Vec<Vec<NDns>> = (0u8..4).map(|i| vec![NDns::Addrs(vec![i])]).collect();
        let nts: Vec<NtsPoolCase> = vec![
            // a well-behaved pool KE server: four distinct names with distinct addresses, refill after removals
            NtsPoolCase {
                count: 3,
                honor_deny: true,
                ke_dns: vec![KeDns::Listen],
                ke: vec![ok(vec![Srv::Name(0), Srv::Name(1), Srv::Name(2), Srv::Name(3)])],
                hosts: one_to_one.clone(),
                ops: vec![Op::Spawn, Op::Remove { which: 1, reason: 0 }, Op::Spawn, ra(false), Op::Spawn, Op::Spawn],
                srv: vec![],
            },
            // a KE server that ignores the denied list and keeps naming the same server
            NtsPoolCase {
                count: 2,
                honor_deny: false,
                ke_dns: vec![KeDns::Listen],
                ke: vec![ok(vec![Srv::Name(0)]), ok(vec![Srv::Name(0)]), ok(vec![Srv::Name(1)])],
                hosts: one_to_one.clone(),
                ops: vec![Op::Spawn, Op::Spawn, Op::Remove { which: 0, reason: 1 }, Op::Spawn, Op::Spawn],
                srv: vec![],
            },
            // two different names for one and the same server address
            NtsPoolCase {
                count: 2,
                honor_deny: true,
                ke_dns: vec![KeDns::Listen],
                ke: vec![ok(vec![Srv::Name(0), Srv::Name(1)])],
                hosts: vec![vec![NDns::Addrs(vec![2])], vec![NDns::Addrs(vec![2])]],
                ops: vec![Op::Spawn, Op::Spawn],
                srv: vec![],
            },
            // SRV mode: three key-exchange servers, each the NTP server itself; one of them is listed twice
            NtsPoolCase {
                count: 3,
                honor_deny: true,
                ke_dns: vec![KeDns::Listen],
                ke: vec![ok(vec![Srv::Absent])],
                hosts: one_to_one.clone(),
                ops: vec![Op::Spawn, Op::Spawn, Op::Remove { which: 0, reason: 1 }, Op::Spawn, Op::Spawn],
                srv: vec![(0, true), (0, true), (1, true), (2, false), (2, true)],
            },
            // SRV mode: every key-exchange server announces a differently named NTP server
            NtsPoolCase {
                count: 2,
                honor_deny: true,
                ke_dns: vec![KeDns::Listen],
                ke: vec![ok(vec![Srv::Name(1), Srv::Name(2)])],
                hosts: one_to_one.clone(),
                ops: vec![Op::Spawn, Op::Spawn, Op::Spawn],
                srv: vec![(0, true), (0, true), (3, true)],
            },
        ];
        plain.into_iter().map(Case::Plain).chain(nts.into_iter().map(Case::NtsPool)).collect()
    }

    fn check(case: &Case) -> Outcome {
        interposition_selftest();
        match case {
            Case::Plain(c) => crate::rt::run_real(run(c)),
            Case::NtsPool(c) => {
                w_ntsked::selftest();
                crate::rt::run_paused(run_nts(c))
            }
        }
    }
}

struct Active {
    id: ClockId,
    addr: SocketAddr,
}

async fn run(case: &PlainCase) -> Outcome {
    let mut labels = Labels::default();
    w_dns::reset();
    w_dns::script(HOST, case.answers.iter().map(to_answer).collect());

    let ignore: Vec<IpAddr> = case.ignore.iter().map(|i| universe(*i)).collect();
    let cfg = sh::PoolSourceConfig {
        addr: sh::NtpAddress(sh::normalized_address(HOST, case.port)),
        count: case.count,
        ignore: ignore.clone(),
        ntp_version: ProtocolVersion::V4,
    };
    let mut pool = sh::PoolSpawner::new(cfg, SourceConfig::default());
    let (tx, mut rx) = tokio::sync::mpsc::channel::<sh::SpawnEvent>(sh::MESSAGE_BUFFER_SIZE);

    let mut active: Vec<Active> = Vec::new();
    let mut created = 0usize;
    let mut removed_any = false;
    let mut created_after_removal = 0usize;
    let mut spawn_rounds = 0usize;

    // classification of the DNS script
    for a in &case.answers {
        match a {
            Dns::Addrs(v) => {
                let mut s = v.clone();
                s.sort();
                let n = s.len();
                s.dedup();
                labels.add_if(s.len() < n, "dup-inside-answer");
                labels.add_if(v.iter().any(|i| ignore.contains(&universe(*i))), "ignored-in-answer");
                labels.add_if(n > case.count, "answer-larger-than-count");
                labels.add_if(n == 0, "empty-answer");
            }
            Dns::NoName | Dns::Again => labels.add("dns-failure-scripted"),
        }
    }

    for (step, op) in case.ops.iter().enumerate() {
        match op {
            Op::Spawn => {
                if pool.is_complete() {
                    labels.add("spawn-skipped-complete");
                    continue;
                }
                spawn_rounds += 1;
                let before = w_dns::calls(HOST);
                pool.try_spawn(&tx).await.expect("PoolSpawnError is uninhabited");
                labels.add_if(w_dns::calls(HOST) > before, "lookup");
                labels.add_if(w_dns::calls(HOST) == before, "spawn-from-leftover-addresses");
                while let Ok(ev) = rx.try_recv() {
                    let sh::SpawnAction::Create(sh::SourceCreateParameters::Ntp(p)) = ev.action else {
                        return Outcome::fail("pool/non-ntp-create", format!("step {step}: unexpected action"));
                    };
                    created += 1;
                    if removed_any {
                        created_after_removal += 1;
                    }
                    active.push(Active { id: p.id, addr: p.addr });
                }
            }
            Op::Remove { which, reason: r } => {
                if active.is_empty() {
                    continue;
                }
                let a = active.remove(idx(*which, active.len()));
                pool.handle_source_removed(sh::SourceRemovedEvent { id: a.id, reason: reason(*r) })
                    .await
                    .expect("PoolSpawnError is uninhabited");
                removed_any = true;
            }
            Op::RemoveAll { newest_first, reason: r } => {
                while !active.is_empty() {
                    let a = if *newest_first { active.pop().unwrap() } else { active.remove(0) };
                    pool.handle_source_removed(sh::SourceRemovedEvent { id: a.id, reason: reason(*r) })
                        .await
                        .expect("PoolSpawnError is uninhabited");
                    removed_any = true;
                }
            }
        }

        // ---- oracle: invariants of the active set after every step
        if active.len() > case.count {
            return Outcome::fail(
                "pool/more-active-than-count",
                format!("step {step}: {} active sources, count {}", active.len(), case.count),
            );
        }
        for (i, a) in active.iter().enumerate() {
            if ignore.contains(&a.addr.ip()) {
                return Outcome::fail(
                    "pool/ignored-address-spawned",
                    format!("step {step}: source for ignored address {}", a.addr),
                );
            }
            if active[..i].iter().any(|b| b.addr == a.addr) {
                return Outcome::fail(
                    "pool/duplicate-active-address",
                    format!(
                        "step {step}: two active sources for {} (active: {:?})",
                        a.addr,
                        active.iter().map(|x| x.addr).collect::<Vec<_>>()
                    ),
                );
            }
        }
        labels.add_if(active.len() == case.count, "pool-full");
    }

    labels.add_if(created_after_removal > 0, "refill-after-removal");
    labels.add_if(w_dns::calls(HOST) >= 2, "multi-lookup");
    labels.add_if(spawn_rounds == 0, "no-spawn-round");
    let nontrivial = created >= 2 && created_after_removal >= 1;
    Outcome::pass(nontrivial).labels(labels.0)
}

// ---------------------------------------------------------------------------------------------
// NTS pool: members come from key exchanges with the scripted KE server of `w_ntsked`

pub fn srv_strategy(alias_free: bool) -> BoxedStrategy<Srv> {
    if alias_free {
        // names 0..4 resolve to ip(0)..ip(3) in the alias-free DNS table, literals use ip(4), ip(5)
        prop_oneof![8 => (0u8..4).prop_map(Srv::Name), 1 => (4u8..6).prop_map(Srv::Literal)].boxed()
    } else {
        prop_oneof![7 => (0u8..4).prop_map(Srv::Name), 1 => Just(Srv::Absent), 1 => (0u8..6).prop_map(Srv::Literal)].boxed()
    }
}

pub fn ke_answer_strategy(alias_free: bool, delays: bool) -> BoxedStrategy<KeAnswer> {
    let delay = if delays {
        prop_oneof![
            4 => Just(0u32),
            2 => 1u32..20,
            2 => prop::sample::select(vec![999u32, 1000, 1001, 2500, 4999, 5000, 5001]),
            1 => 0u32..6000,
        ]
        .boxed()
    } else {
        Just(0u32).boxed()
    };
    prop_oneof![
        14 => (
            prop::collection::vec(srv_strategy(alias_free), 1..4),
            prop_oneof![3 => Just(None), 3 => Just(Some(123u16)), 1 => Just(Some(124u16)), 1 => any::<u16>().prop_map(Some)],
            prop_oneof![8 => 1u8..=9, 1 => Just(0u8)],
            delay,
        )
            .prop_map(|(servers, port, cookies, delay_ms)| KeAnswer::Ok { servers, port, cookies, delay_ms }),
        1 => prop::sample::select(vec![0u16, 1, 2]).prop_map(KeAnswer::ErrorRecord),
        1 => Just(KeAnswer::CloseAfterRequest),
        1 => Just(KeAnswer::DropTcp),
        1 => Just(KeAnswer::Stall),
    ]
    .boxed()
}

pub fn ke_dns_strategy() -> impl Strategy<Value = Vec<KeDns>> {
    prop::collection::vec(
        prop_oneof![
            10 => Just(KeDns::Listen),
            2 => Just(KeDns::DeadThenListen),
            1 => Just(KeDns::Dead),
            1 => Just(KeDns::NoName),
            1 => Just(KeDns::Again),
        ],
        1..4,
    )
}

/// DNS table for the NTP names: alias-free (name i <-> ip(i), always) or arbitrary (overlapping address
/// lists that may change from lookup to lookup, failures)
pub fn hosts_strategy(alias_free: bool) -> BoxedStrategy<Vec<Vec<NDns>>> {
    if alias_free {
        Just((0u8..4).map(|i| vec![NDns::Addrs(vec![i])]).collect::<Vec<_>>()).boxed()
    } else {
        let ndns = prop_oneof![
            10 => prop::collection::vec(0u8..6, 1..4).prop_map(NDns::Addrs),
            1 => Just(NDns::NoName),
            1 => Just(NDns::Again),
        ];
        prop::collection::vec(prop::collection::vec(ndns, 1..3), 4).boxed()
    }
}

fn nts_pool_strategy(tier: Tier) -> impl Strategy<Value = NtsPoolCase> {
    let max_ops = tier.pick(20usize, 48usize);
    any::<bool>().prop_flat_map(move |alias_free| {
        (
            1usize..=4,
            prop_oneof![3 => Just(true), 1 => Just(false)],
            ke_dns_strategy(),
            prop::collection::vec(ke_answer_strategy(alias_free, false), 1..6),
            hosts_strategy(alias_free),
            prop::collection::vec(op_strategy(), 0..max_ops),
        )
            .prop_map(|(count, honor_deny, ke_dns, ke, hosts, ops)| NtsPoolCase { count, honor_deny, ke_dns, ke, hosts, ops, srv: vec![] })
    })
    .prop_flat_map(|c| {
        // one NTS pool case in three runs in SRV mode
        (Just(c), prop_oneof![2 => Just(Vec::new()).boxed(), 1 => prop::collection::vec((0u8..4, prop_oneof![6 => Just(true), 1 => Just(false)]), 1..6).boxed()])
    })
    .prop_map(|(mut c, srv)| {
        c.srv = srv;
        c
    })
}

struct NtsActive {
    id: ClockId,
    addr: SocketAddr,
    /// the server name (or literal) of the key exchange that produced this source, if it could be attributed
    name: Option<String>,
}

async fn run_nts(case: &NtsPoolCase) -> Outcome {
    use std::time::Duration;
    use tokio::time::Instant;
    let mut labels = Labels::default();
    labels.add("nts-pool");
    w_dns::reset();
    w_ntsked::script_dns(&case.ke_dns, &case.hosts);

    let t0 = Instant::now();
    let (tx, mut rx) = tokio::sync::mpsc::channel::<sh::SpawnEvent>(sh::MESSAGE_BUFFER_SIZE);
    // number of create events the spawner has emitted so far (drained + still queued), sampled by the KE
    // server when it accepts a connection: attributes sources to exchanges
    let drained = Arc::new(AtomicUsize::new(0));
    let probe: w_ntsked::Probe = {
        let tx = tx.clone();
        let drained = drained.clone();
        Arc::new(move || drained.load(Ordering::SeqCst) + (tx.max_capacity() - tx.capacity()))
    };
    let server = match w_ntsked::start(case.ke.clone(), case.honor_deny, t0, Some(probe)).await {
        Ok(s) => s,
        Err(_) => {
            // no listening port to be had right now (long campaigns leave tens of thousands of loopback ports in
            // TIME_WAIT): this case is not run; the start-up self-test has shown that the plumbing works as such
            return Outcome::pass(false).label("nts-case-skipped-no-free-port");
        }
    };
    let srv_mode = !case.srv.is_empty();
    labels.add_if(srv_mode, "nts-pool-srv");
    if srv_mode {
        // the SRV targets double as NTP servers when a key exchange names no other server
        for (i, name) in w_ntsked::KE_NAMES.iter().enumerate() {
            w_dns::script(name, vec![Answer::Addrs(vec![IpAddr::V4(std::net::Ipv4Addr::new(127, 0, 1, 1 + i as u8))])]);
        }
    }
    let cfg = sh::NtsPoolSourceConfig {
        addr: sh::NtsKeAddress(sh::normalized_address(w_ntsked::KE_HOST, server.port)),
        enable_srv_resolution: srv_mode,
        certificate_authorities: w_ntsked::test_cas(),
        count: case.count,
        ntp_version: ProtocolVersion::V4,
    };
    let mut pool = match sh::NtsPoolSpawner::new(cfg, SourceConfig::default()) {
        Ok(p) => w_ntsked::Spin { inner: p },
        Err(e) => return Outcome::fail("nts-pool/spawner-config-rejected", format!("NtsPoolSpawner::new: {e}")),
    };

    // SRV mode: keep the spawner's list of resolved key-exchange servers filled, so that it never asks the resolver
    let mut srv_next = 0usize;
    let mut top_up = |pool: &mut w_ntsked::Spin<sh::NtsPoolSpawner>| {
        while srv_mode && sh::nts_pool_hook::known_resolutions_left(&pool.inner) < 64 {
            let (k, alive) = case.srv[srv_next % case.srv.len()];
            srv_next += 1;
            let ip = if alive { w_ntsked::LISTEN_IP } else { w_ntsked::DEAD_IP };
            sh::nts_pool_hook::push_known_resolution(
                &mut pool.inner,
                SocketAddr::new(ip, server.port),
                Some(w_ntsked::KE_NAMES[k as usize % w_ntsked::KE_NAMES.len()].to_string()),
            );
        }
    };
    top_up(&mut pool);

    let mut active: Vec<NtsActive> = Vec::new();
    let mut created = 0usize;
    let mut removed_any = false;
    let mut created_after_removal = 0usize;
    let mut spawn_rounds = 0usize;
    // virtual-time limit of one spawn round: every exchange is limited to NTS_TIMEOUT by the spawner
    let round_limit = Duration::from_millis((w_ntsked::NTS_TIMEOUT_MS + 1000) * (case.count as u64 + 1) * 4);

    for (step, op) in case.ops.iter().enumerate() {
        match op {
            Op::Spawn => {
                if pool.is_complete() {
                    labels.add("nts-spawn-skipped-complete");
                    continue;
                }
                spawn_rounds += 1;
                top_up(&mut pool);
                let ex_before = server.accepted();
                match tokio::time::timeout(round_limit, pool.try_spawn(&tx)).await {
                    Ok(Ok(())) => {}
                    Ok(Err(e)) => return Outcome::fail("nts-pool/try-spawn-error", format!("step {step}: {e}")),
                    Err(_) => {
                        return Outcome::fail(
                            "nts-pool/try-spawn-stuck",
                            format!("step {step}: try_spawn did not return within {round_limit:?} of virtual time"),
                        );
                    }
                }
                let mut new: Vec<(ClockId, SocketAddr)> = Vec::new();
                while let Ok(ev) = rx.try_recv() {
                    let sh::SpawnAction::Create(sh::SourceCreateParameters::Ntp(p)) = ev.action else {
                        return Outcome::fail("nts-pool/non-ntp-create", format!("step {step}: unexpected action"));
                    };
                    if p.nts.is_none() {
                        return Outcome::fail("nts-pool/source-without-nts-data", format!("step {step}: source {} has no NTS data", p.addr));
                    }
                    new.push((p.id, p.addr));
                }
                let total_after = drained.fetch_add(new.len(), Ordering::SeqCst) + new.len();
                // attribution: exchange j of this round produced a source iff the create counter moved
                // between its accept and the next accept (or the end of the round)
                let log = server.log();
                let round = &log[ex_before.min(log.len())..];
                let mut names: Vec<String> = Vec::new();
                for (j, ex) in round.iter().enumerate() {
                    let next = round.get(j + 1).map(|n| n.probe).unwrap_or(total_after);
                    match &ex.reply {
                        Reply::Responded { server: s, .. } => {
                            if next == ex.probe + 1 {
                                // the pool tells its members apart by the SRV target they came from, and by the
                                // server name of the key exchange when the connection did not come from an SRV record
                                let via_srv = ex.sni.as_ref().filter(|n| w_ntsked::KE_NAMES.contains(&n.as_str())).cloned();
                                names.push(via_srv.unwrap_or_else(|| s.clone().unwrap_or_else(|| w_ntsked::KE_HOST.to_string())));
                            }
                        }
                        Reply::Error(_) => labels.add("ke-error-record"),
                        Reply::Stalled => labels.add("ke-stall"),
                        Reply::ClosedAfterRequest | Reply::DroppedTcp => labels.add("ke-connection-closed"),
                        Reply::HandshakeFailed | Reply::BadRequest | Reply::Pending => labels.add("ke-handshake-failed"),
                    }
                    labels.add_if(!ex.denied.is_empty(), "client-sent-denied-names");
                    if next > ex.probe + 1 {
                        return Outcome::fail(
                            "nts-pool/several-sources-from-one-exchange",
                            format!("step {step}: {} sources were created from a single key exchange", next - ex.probe),
                        );
                    }
                }
                labels.add_if(round.is_empty(), "round-without-exchange");
                labels.add_if(round.len() > new.len(), "exchange-without-source");
                let attributed = names.len() == new.len();
                for (i, (id, addr)) in new.into_iter().enumerate() {
                    created += 1;
                    if removed_any {
                        created_after_removal += 1;
                    }
                    active.push(NtsActive { id, addr, name: if attributed { Some(names[i].clone()) } else { None } });
                }
            }
            Op::Remove { which, reason: r } => {
                if active.is_empty() {
                    continue;
                }
                let a = active.remove(idx(*which, active.len()));
                if let Err(e) = pool.handle_source_removed(sh::SourceRemovedEvent { id: a.id, reason: reason(*r) }).await {
                    return Outcome::fail("nts-pool/handle-removed-error", format!("step {step}: {e}"));
                }
                removed_any = true;
            }
            Op::RemoveAll { newest_first, reason: r } => {
                while !active.is_empty() {
                    let a = if *newest_first { active.pop().unwrap() } else { active.remove(0) };
                    if let Err(e) = pool.handle_source_removed(sh::SourceRemovedEvent { id: a.id, reason: reason(*r) }).await {
                        return Outcome::fail("nts-pool/handle-removed-error", format!("step {step}: {e}"));
                    }
                    removed_any = true;
                }
            }
        }

        // ---- oracle: invariants of the active set after every step (an NTS pool has no ignore list)
        if active.len() > case.count {
            return Outcome::fail(
                "nts-pool/more-active-than-count",
                format!("step {step}: {} active sources, count {}", active.len(), case.count),
            );
        }
        for (i, a) in active.iter().enumerate() {
            if let Some(b) = active[..i].iter().find(|b| b.addr == a.addr) {
                let kind = match (&a.name, &b.name) {
                    (Some(x), Some(y)) if x == y => "same-name",
                    (Some(_), Some(_)) => "distinct-names",
                    _ => "names-unknown",
                };
                return Outcome::fail(
                    format!("nts-pool/duplicate-active-address/{kind}"),
                    format!(
                        "step {step}: two active sources for {} (KE server names {:?} and {:?}; active: {:?})",
                        a.addr,
                        b.name,
                        a.name,
                        active.iter().map(|x| x.addr).collect::<Vec<_>>()
                    ),
                );
            }
        }
        labels.add_if(active.len() == case.count, "nts-pool-full");
    }

    labels.add_if(created_after_removal > 0, "nts-refill-after-removal");
    labels.add_if(spawn_rounds == 0, "nts-no-spawn-round");
    labels.add_if(server.accepted() >= 2, "multi-exchange");
    labels.add_if(created == 0 && spawn_rounds > 0, "nts-never-created");
    let nontrivial = created >= 2 && created_after_removal >= 1;
    Outcome::pass(nontrivial).labels(labels.0)
}
