//! C35 — pool sources are distinct, bounded by the configured count and respect the ignore list,
//! whatever the DNS answers and the removal order.
//!
//! The real `PoolSpawner` is driven exactly like `spawner_task` drives it (`try_spawn` only while
//! `!is_complete()`, `handle_source_removed` for sources that exist, each removed once) with DNS
//! answers scripted through the interposed resolver (`w_dns`). The oracle is a model of the
//! *active* set reconstructed from the SpawnEvent stream minus the removals.
use std::net::{IpAddr, Ipv4Addr, Ipv6Addr, SocketAddr};

use crate::engine::*;
use crate::w_dns::{self, Answer};
use ntp_proto::{ClockId, ProtocolVersion, SourceConfig};
use ntpd::verif_hook::spawn_hook as sh;
use proptest::prelude::*;
use serde::{Deserialize, Serialize};
use sh::Spawner;

pub struct C35;

pub const HOST: &str = "c35-pool.verif.test";

/// address universe (indices 0..8): small on purpose so that answers overlap
pub fn universe(i: u8) -> IpAddr {
    match i % 8 {
        0 => IpAddr::V4(Ipv4Addr::new(127, 0, 0, 1)),
        1 => IpAddr::V4(Ipv4Addr::new(127, 0, 0, 2)),
        2 => IpAddr::V4(Ipv4Addr::new(127, 0, 0, 3)),
        3 => IpAddr::V4(Ipv4Addr::new(127, 0, 0, 4)),
        4 => IpAddr::V4(Ipv4Addr::new(127, 0, 0, 5)),
        5 => IpAddr::V4(Ipv4Addr::new(127, 0, 0, 6)),
        6 => IpAddr::V6(Ipv6Addr::LOCALHOST),
        _ => IpAddr::V4(Ipv4Addr::new(127, 1, 2, 3)),
    }
}

#[derive(Debug, Clone, Serialize, Deserialize, PartialEq, Eq)]
pub enum Dns {
    /// successful answer: indices into the universe, in this order (duplicates allowed)
    Addrs(Vec<u8>),
    NoName,
    Again,
}

#[derive(Debug, Clone, Serialize, Deserialize, PartialEq, Eq)]
pub enum Op {
    /// one spawn round (what `spawner_task` does when it has a ticket)
    Spawn,
    /// the system removes one active source (monotone index into the active list)
    Remove { which: u16, reason: u8 },
    /// the system removes every active source, oldest first or newest first
    RemoveAll { newest_first: bool, reason: u8 },
}

#[derive(Debug, Clone, Serialize, Deserialize)]
pub struct Case {
    pub count: usize,
    pub port: u16,
    /// ignored addresses (universe indices)
    pub ignore: Vec<u8>,
    /// answer of lookup k is `answers[k % len]`
    pub answers: Vec<Dns>,
    pub ops: Vec<Op>,
}

fn reason(r: u8) -> sh::SourceRemovalReason {
    match r % 3 {
        0 => sh::SourceRemovalReason::NetworkIssue,
        1 => sh::SourceRemovalReason::Unreachable,
        _ => sh::SourceRemovalReason::Demobilized,
    }
}

pub fn to_answer(d: &Dns) -> Answer {
    match d {
        Dns::Addrs(v) => Answer::Addrs(v.iter().map(|i| universe(*i)).collect()),
        Dns::NoName => Answer::NoName,
        Dns::Again => Answer::Again,
    }
}

fn dns_strategy() -> impl Strategy<Value = Dns> {
    prop_oneof![
        10 => prop::collection::vec(0u8..8, 0..7).prop_map(Dns::Addrs),
        1 => Just(Dns::NoName),
        1 => Just(Dns::Again),
    ]
}

fn op_strategy() -> impl Strategy<Value = Op> {
    prop_oneof![
        6 => Just(Op::Spawn),
        4 => (any::<u16>(), 0u8..3).prop_map(|(which, reason)| Op::Remove { which, reason }),
        1 => (any::<bool>(), 0u8..3).prop_map(|(newest_first, reason)| Op::RemoveAll { newest_first, reason }),
    ]
}

/// Make sure the resolver interposition is really in effect in this process (independent of the
/// code under test). Without it the check would talk to a real resolver, so: inconclusive.
pub fn interposition_selftest() {
    use std::net::ToSocketAddrs;
    use std::sync::Once;
    static ONCE: Once = Once::new();
    ONCE.call_once(|| {
        let name = "selftest.w-dns.verif.test";
        w_dns::script(name, vec![Answer::Addrs(vec![IpAddr::V4(Ipv4Addr::new(127, 9, 9, 9))])]);
        let got: Vec<SocketAddr> = (name, 77u16).to_socket_addrs().map(|i| i.collect()).unwrap_or_default();
        let want: SocketAddr = "127.9.9.9:77".parse().unwrap();
        if got != vec![want] || w_dns::calls(name) != 1 {
            eprintln!("INCONCLUSIVE: getaddrinfo interposition is not active (got {got:?})");
            std::process::exit(2);
        }
        // unscripted names must reach the real resolver and its freeaddrinfo (transparent fallback);
        // "localhost" is answered from /etc/hosts, the result itself does not matter
        let before = w_dns::total_scripted_calls();
        let _ = ("localhost", 77u16).to_socket_addrs().map(|i| i.count());
        if w_dns::total_scripted_calls() != before || w_dns::outstanding_lists() != 0 {
            eprintln!("INCONCLUSIVE: getaddrinfo interposition is not transparent for unscripted names");
            std::process::exit(2);
        }
    });
}

impl Property for C35 {
    type Case = Case;
    const ID: &'static str = "C35";
    const RULE: &'static str = "count 1..=5, ignore list and per-lookup DNS answers (success lists with duplicates / NoName / Again) drawn over an \
        8-address universe (127.0.0.0/8 and ::1), ops = vec(Spawn | Remove{which,reason} | RemoveAll, 0..60) interpreted against the real \
        PoolSpawner; NON-TRIVIAL = at least two sources were created and at least one source was created after a removal (the bookkeeping of \
        unused resolved addresses was exercised across rounds)";
    const ASSUMPTIONS: &'static [&'static str] = &[
        "the system removes only sources that this spawner created and each of them once (system.rs removes the source from its map first)",
        "try_spawn is only called while !is_complete(), as spawner_task does",
        "the resolver is the interposed getaddrinfo: a successful lookup has >= 1 address; an empty list is reported as EAI_NONAME",
        "'same server address' = equal SocketAddr (the port is the configured one for every address)",
    ];
    const QUICK_CASES: u32 = 16_000;
    const THOROUGH_CASES: u32 = 300_000;

    fn strategy(tier: Tier) -> BoxedStrategy<Case> {
        let max_ops = tier.pick(60usize, 120usize);
        (
            1usize..=5,
            prop_oneof![3 => Just(123u16), 1 => any::<u16>()],
            prop::collection::vec(0u8..8, 0..4),
            prop::collection::vec(dns_strategy(), 1..5),
            prop::collection::vec(op_strategy(), 0..max_ops),
        )
            .prop_map(|(count, port, ignore, answers, ops)| Case { count, port, ignore, answers, ops })
            .boxed()
    }

    fn enumerate(_tier: Tier) -> Vec<Case> {
        if std::env::var_os("VERIF_NO_ENUM").is_some() { return vec![]; }
        let ra = |newest_first| Op::RemoveAll { newest_first, reason: 0 };
        vec![
            // the design probe: ordinary answer [A,B,C] on every lookup, count 2, remove both each round
            Case {
                count: 2,
                port: 123,
                ignore: vec![],
                answers: vec![Dns::Addrs(vec![0, 1, 2])],
                ops: vec![Op::Spawn, ra(false), Op::Spawn, ra(false), Op::Spawn, ra(true), Op::Spawn],
            },
            // duplicate inside one answer
            Case {
                count: 2,
                port: 123,
                ignore: vec![],
                answers: vec![Dns::Addrs(vec![0, 0])],
                ops: vec![Op::Spawn],
            },
            // ignored address mixed into the answers, several rounds
            Case {
                count: 3,
                port: 123,
                ignore: vec![1],
                answers: vec![Dns::Addrs(vec![0, 1, 2, 3]), Dns::Addrs(vec![1, 1, 4])],
                ops: vec![Op::Spawn, Op::Remove { which: 0, reason: 1 }, Op::Spawn, ra(true), Op::Spawn, Op::Spawn],
            },
        ]
    }

    fn check(case: &Case) -> Outcome {
        interposition_selftest();
        crate::rt::run_real(run(case))
    }
}

struct Active {
    id: ClockId,
    addr: SocketAddr,
}

async fn run(case: &Case) -> Outcome {
    let mut labels = Labels::default();
    w_dns::reset();
    w_dns::script(HOST, case.answers.iter().map(to_answer).collect());

    let ignore: Vec<IpAddr> = case.ignore.iter().map(|i| universe(*i)).collect();
    let cfg = sh::PoolSourceConfig {
        addr: sh::NtpAddress(sh::normalized_address(HOST, case.port)),
        count: case.count,
        ignore: ignore.clone(),
        ntp_version: ProtocolVersion::V4,
    };
    let mut pool = sh::PoolSpawner::new(cfg, SourceConfig::default());
    let (tx, mut rx) = tokio::sync::mpsc::channel::<sh::SpawnEvent>(sh::MESSAGE_BUFFER_SIZE);

    let mut active: Vec<Active> = Vec::new();
    let mut created = 0usize;
    let mut removed_any = false;
    let mut created_after_removal = 0usize;
    let mut spawn_rounds = 0usize;

    // classification of the DNS script
    for a in &case.answers {
        match a {
            Dns::Addrs(v) => {
                let mut s = v.clone();
                s.sort();
                let n = s.len();
                s.dedup();
                labels.add_if(s.len() < n, "dup-inside-answer");
                labels.add_if(v.iter().any(|i| ignore.contains(&universe(*i))), "ignored-in-answer");
                labels.add_if(n > case.count, "answer-larger-than-count");
                labels.add_if(n == 0, "empty-answer");
            }
            Dns::NoName | Dns::Again => labels.add("dns-failure-scripted"),
        }
    }

    for (step, op) in case.ops.iter().enumerate() {
        match op {
            Op::Spawn => {
                if pool.is_complete() {
                    labels.add("spawn-skipped-complete");
                    continue;
                }
                spawn_rounds += 1;
                let before = w_dns::calls(HOST);
                pool.try_spawn(&tx).await.expect("PoolSpawnError is uninhabited");
                labels.add_if(w_dns::calls(HOST) > before, "lookup");
                labels.add_if(w_dns::calls(HOST) == before, "spawn-from-leftover-addresses");
                while let Ok(ev) = rx.try_recv() {
                    let sh::SpawnAction::Create(sh::SourceCreateParameters::Ntp(p)) = ev.action else {
                        return Outcome::fail("pool/non-ntp-create", format!("step {step}: unexpected action"));
                    };
                    created += 1;
                    if removed_any {
                        created_after_removal += 1;
                    }
                    active.push(Active { id: p.id, addr: p.addr });
                }
            }
            Op::Remove { which, reason: r } => {
                if active.is_empty() {
                    continue;
                }
                let a = active.remove(idx(*which, active.len()));
                pool.handle_source_removed(sh::SourceRemovedEvent { id: a.id, reason: reason(*r) })
                    .await
                    .expect("PoolSpawnError is uninhabited");
                removed_any = true;
            }
            Op::RemoveAll { newest_first, reason: r } => {
                while !active.is_empty() {
                    let a = if *newest_first { active.pop().unwrap() } else { active.remove(0) };
                    pool.handle_source_removed(sh::SourceRemovedEvent { id: a.id, reason: reason(*r) })
                        .await
                        .expect("PoolSpawnError is uninhabited");
                    removed_any = true;
                }
            }
        }

        // ---- oracle: invariants of the active set after every step
        if active.len() > case.count {
            return Outcome::fail(
                "pool/more-active-than-count",
                format!("step {step}: {} active sources, count {}", active.len(), case.count),
            );
        }
        for (i, a) in active.iter().enumerate() {
            if ignore.contains(&a.addr.ip()) {
                return Outcome::fail(
                    "pool/ignored-address-spawned",
                    format!("step {step}: source for ignored address {}", a.addr),
                );
            }
            if active[..i].iter().any(|b| b.addr == a.addr) {
                return Outcome::fail(
                    "pool/duplicate-active-address",
                    format!(
                        "step {step}: two active sources for {} (active: {:?})",
                        a.addr,
                        active.iter().map(|x| x.addr).collect::<Vec<_>>()
                    ),
                );
            }
        }
        labels.add_if(active.len() == case.count, "pool-full");
    }

    labels.add_if(created_after_removal > 0, "refill-after-removal");
    labels.add_if(w_dns::calls(HOST) >= 2, "multi-lookup");
    labels.add_if(spawn_rounds == 0, "no-spawn-round");
    let nontrivial = created >= 2 && created_after_removal >= 1;
    Outcome::pass(nontrivial).labels(labels.0)
}
