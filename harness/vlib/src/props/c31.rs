//! C31 — IP filters match exactly the configured subnets; subnet string acceptance.
//!
//! Oracle (independent of the trie and of `IpSubnet`'s fields): every subnet
//! *string* is interpreted by a small reference reader (std address parser +
//! decimal mask + family rule); membership is "same canonical family and equal
//! top `mask` bits" computed with plain shifts.
use std::net::{IpAddr, Ipv4Addr, Ipv6Addr};

use crate::engine::*;
use crate::w_srv;
use ntp_proto::verif_hook::ipf;
use ntp_proto::{FilterAction, IpSubnet, ServerReason, ServerResponse};
use proptest::prelude::*;
use serde::{Deserialize, Serialize};

pub struct C31;

#[derive(Debug, Clone, Serialize, Deserialize)]
pub enum Probe {
    /// a literal address (std `Display` form)
    Addr(String),
    /// relative to accepted subnet number `idx(subnet, n_accepted)`:
    /// which = 0 first address, 1 last address, 2 first-1, 3 last+1, 4 a random address inside
    /// (low bits from `fill`); `mapped` = present an IPv4 address as ::ffff:a.b.c.d
    Edge { subnet: u16, which: u8, fill_hi: u64, fill_lo: u64, mapped: bool },
}

#[derive(Debug, Clone, Serialize, Deserialize)]
pub struct Case {
    pub subnets: Vec<String>,
    pub probes: Vec<Probe>,
    /// also run the accepted list through `Server::handle` (deny list and allow list)
    pub via_server: bool,
}

// ---------------------------------------------------------------------------
// reference model

#[derive(Debug, Clone, Copy, PartialEq, Eq)]
pub struct RefNet {
    v4: bool,
    /// network bits, left-aligned in `width` bits (not necessarily masked)
    bits: u128,
    mask: u8,
}

impl RefNet {
    fn width(&self) -> u32 {
        if self.v4 { 32 } else { 128 }
    }
    /// number of host bits
    fn host(&self) -> u32 {
        self.width() - self.mask as u32
    }
    fn host_mask(&self) -> u128 {
        if self.host() == 128 { u128::MAX } else { (1u128 << self.host()) - 1 }
    }
    fn first(&self) -> u128 {
        self.bits & !self.host_mask()
    }
    fn last(&self) -> u128 {
        self.bits | self.host_mask()
    }
    fn width_mask(&self) -> u128 {
        if self.v4 { u32::MAX as u128 } else { u128::MAX }
    }
    fn contains(&self, v4: bool, a: u128) -> bool {
        v4 == self.v4 && a >= self.first() && a <= self.last()
    }
}

/// IPv4-mapped IPv6 (::ffff:a.b.c.d) is the only form that is canonicalised to IPv4
fn canonical(addr: IpAddr) -> (bool, u128) {
    match addr {
        IpAddr::V4(a) => (true, u32::from_be_bytes(a.octets()) as u128),
        IpAddr::V6(a) => {
            let v = u128::from_be_bytes(a.octets());
            if v >> 32 == 0xffff { (true, v & 0xffff_ffff) } else { (false, v) }
        }
    }
}

#[derive(Debug, Clone, Copy, PartialEq, Eq)]
enum Reject {
    NoSlash,
    Addr,
    MaskSyntax,
    MaskRange,
    MappedMaskBelow96,
}

/// decimal mask: one or more ASCII digits, optionally preceded by '+' (Rust's
/// documented integer grammar); value computed without overflow
fn ref_mask(s: &str) -> Option<u128> {
    let digits = s.strip_prefix('+').unwrap_or(s);
    if digits.is_empty() || !digits.bytes().all(|b| b.is_ascii_digit()) {
        return None;
    }
    let mut v: u128 = 0;
    for b in digits.bytes() {
        v = v.saturating_mul(10).saturating_add((b - b'0') as u128);
    }
    Some(v)
}

fn ref_parse(s: &str) -> Result<RefNet, Reject> {
    let Some(pos) = s.find('/') else { return Err(Reject::NoSlash) };
    let (a, m) = (&s[..pos], &s[pos + 1..]);
    let addr: IpAddr = a.parse().map_err(|_| Reject::Addr)?;
    let mask = ref_mask(m).ok_or(Reject::MaskSyntax)?;
    let (v4, bits) = canonical(addr);
    let was_v6 = matches!(addr, IpAddr::V6(_));
    if v4 && was_v6 {
        // mapped: the mask counts bits of the 128-bit form
        if mask > 128 {
            return Err(Reject::MaskRange);
        }
        if mask < 96 {
            return Err(Reject::MappedMaskBelow96);
        }
        Ok(RefNet { v4, bits, mask: (mask - 96) as u8 })
    } else {
        let max = if v4 { 32 } else { 128 };
        if mask > max {
            return Err(Reject::MaskRange);
        }
        Ok(RefNet { v4, bits, mask: mask as u8 })
    }
}

fn to_ip(v4: bool, bits: u128, mapped: bool) -> IpAddr {
    if v4 {
        let a = Ipv4Addr::from((bits as u32).to_be_bytes());
        if mapped { IpAddr::V6(a.to_ipv6_mapped()) } else { IpAddr::V4(a) }
    } else {
        IpAddr::V6(Ipv6Addr::from(bits.to_be_bytes()))
    }
}

// ---------------------------------------------------------------------------
// generators

#[derive(Debug, Clone)]
struct NetGen {
    seed: u16,
    /// 0 v4 dotted, 1 v6, 2 mapped dotted (::ffff:a.b.c.d), 3 mapped hex (::ffff:aabb:ccdd), 4 v6 next to the mapped range
    form: u8,
    mask: u16,
    /// 0 none, 1 flip last network bit (sibling), 2 next block (adjacent), 3 previous block,
    /// 4 flip bit `pos`, 5 randomise host bits
    tweak: u8,
    pos: u8,
    noise: u128,
    /// 0 plain, 1 '+', 2 leading zeros, 3 surrounding space, 4 negative, 5 empty, 6 hex, 7 trailing junk
    mask_fmt: u8,
    /// 0 none, 1 no slash, 2 double slash, 3 junk address, 4 bracketed v6 / port, 5 whitespace in address
    junk: u8,
}

fn mask_strategy() -> BoxedStrategy<u16> {
    prop_oneof![
        4 => 0u16..=32,
        4 => 0u16..=128,
        2 => 96u16..=128,
        2 => prop::sample::select(vec![0u16, 1, 3, 4, 5, 7, 8, 9, 31, 32, 33, 95, 96, 97, 100, 124, 127, 128, 129, 140, 255, 256, 300]),
    ]
    .boxed()
}

fn netgen() -> BoxedStrategy<NetGen> {
    (
        any::<u16>(),
        prop_oneof![4 => Just(0u8), 4 => Just(1u8), 2 => Just(2u8), 1 => Just(3u8), 1 => Just(4u8)],
        mask_strategy(),
        prop_oneof![3 => Just(0u8), 2 => Just(1u8), 2 => Just(2u8), 1 => Just(3u8), 2 => Just(4u8), 2 => Just(5u8)],
        any::<u8>(),
        any::<u128>(),
        prop_oneof![30 => Just(0u8), 1 => Just(1u8), 1 => Just(2u8), 1 => Just(3u8), 1 => Just(4u8), 1 => Just(5u8), 1 => Just(6u8), 1 => Just(7u8)],
        prop_oneof![30 => Just(0u8), 1 => Just(1u8), 1 => Just(2u8), 1 => Just(3u8), 1 => Just(4u8), 1 => Just(5u8)],
    )
        .prop_map(|(seed, form, mask, tweak, pos, noise, mask_fmt, junk)| NetGen { seed, form, mask, tweak, pos, noise, mask_fmt, junk })
        .boxed()
}

fn render_net(g: &NetGen, seeds: &[u128]) -> String {
    let v4 = g.form != 1 && g.form != 4;
    let width: u32 = if v4 { 32 } else { 128 };
    let wmask: u128 = if v4 { u32::MAX as u128 } else { u128::MAX };
    let mut bits = seeds[idx(g.seed, seeds.len())];
    if v4 {
        bits >>= 96;
    }
    if g.form == 4 {
        // neighbours of the IPv4-mapped range (never canonicalised): ::fffe:x:x, ::1:0:x:x, ::x:x
        let hi = [0xfffeu128, 0x1_0000, 0][(g.noise >> 120) as usize % 3];
        bits = (hi << 32) | (bits >> 96);
    }
    // effective mask inside the family (for the tweaks only)
    let m = match g.form {
        2 | 3 => (g.mask as u32).saturating_sub(96).min(32),
        _ => (g.mask as u32).min(width),
    };
    let host = width - m;
    let block: u128 = if host >= 128 { 0 } else { 1u128 << host };
    match g.tweak {
        1 if m > 0 => bits ^= 1u128 << host,
        2 => bits = bits.wrapping_add(block) & wmask,
        3 => bits = bits.wrapping_sub(block) & wmask,
        4 => bits ^= 1u128 << (g.pos as u32 % width),
        5 => {
            let hm = if host >= 128 { u128::MAX } else { block - 1 };
            bits = (bits & !hm) | (g.noise & hm);
        }
        _ => {}
    }
    bits &= wmask;
    let addr = match g.form {
        0 => Ipv4Addr::from((bits as u32).to_be_bytes()).to_string(),
        1 | 4 => Ipv6Addr::from(bits.to_be_bytes()).to_string(),
        2 => format!("::ffff:{}", Ipv4Addr::from((bits as u32).to_be_bytes())),
        _ => format!("::ffff:{:x}:{:x}", (bits >> 16) & 0xffff, bits & 0xffff),
    };
    let mask = match g.mask_fmt {
        0 => g.mask.to_string(),
        1 => format!("+{}", g.mask),
        2 => format!("00{}", g.mask),
        3 => {
            if g.noise & 1 == 0 { format!(" {}", g.mask) } else { format!("{} ", g.mask) }
        }
        4 => format!("-{}", g.mask),
        5 => String::new(),
        6 => format!("0x{:x}", g.mask),
        _ => format!("{}x", g.mask),
    };
    match g.junk {
        0 => format!("{addr}/{mask}"),
        1 => addr,
        2 => format!("{addr}/{mask}/{mask}"),
        3 => format!("{addr}.1/{mask}"),
        4 => {
            if v4 { format!("{addr}:123/{mask}") } else { format!("[{addr}]/{mask}") }
        }
        _ => format!(" {addr}/{mask}"),
    }
}

fn probe() -> BoxedStrategy<Probe> {
    prop_oneof![
        6 => (any::<u16>(), 0u8..5, any::<u64>(), any::<u64>(), any::<bool>())
            .prop_map(|(subnet, which, fill_hi, fill_lo, mapped)| Probe::Edge { subnet, which, fill_hi, fill_lo, mapped }),
        1 => any::<u32>().prop_map(|a| Probe::Addr(Ipv4Addr::from(a.to_be_bytes()).to_string())),
        1 => any::<u128>().prop_map(|a| Probe::Addr(Ipv6Addr::from(a.to_be_bytes()).to_string())),
        1 => any::<u32>().prop_map(|a| Probe::Addr(Ipv4Addr::from(a.to_be_bytes()).to_ipv6_mapped().to_string())),
        // neighbours of the mapped range and IPv4-compatible (NOT canonicalised) addresses
        1 => (prop::sample::select(vec![0xfffeu128, 0xffff, 0x1_0000, 0, 0x1_ffff]), any::<u32>())
            .prop_map(|(hi, lo)| Probe::Addr(Ipv6Addr::from(((hi << 32) | lo as u128).to_be_bytes()).to_string())),
    ]
    .boxed()
}

fn case_strategy() -> BoxedStrategy<Case> {
    (
        prop::collection::vec(any::<u128>(), 1..=3),
        prop::collection::vec(netgen(), 0..12),
        prop::collection::vec(probe(), 1..24),
        prop::bool::weighted(0.2),
    )
        .prop_map(|(seeds, nets, probes, via_server)| {
            Case {
                subnets: nets.iter().map(|g| render_net(g, &seeds)).collect(),
                probes,
                via_server,
            }
        })
        .boxed()
}

// ---------------------------------------------------------------------------

macro_rules! ensure {
    ($cond:expr, $sig:expr, $($fmt:tt)*) => {
        if !$cond {
            return Outcome::fail($sig, format!($($fmt)*));
        }
    };
}

fn fixed_cases() -> Vec<Case> {
    let mk = |subnets: &[&str], probes: &[&str]| Case {
        subnets: subnets.iter().map(|s| s.to_string()).collect(),
        probes: probes.iter().map(|s| Probe::Addr(s.to_string())).collect(),
        via_server: true,
    };
    vec![
        // empty list: nothing listed
        mk(&[], &["0.0.0.0", "::", "255.255.255.255", "::ffff:1.2.3.4"]),
        // /0 of each family
        mk(&["0.0.0.0/0"], &["0.0.0.0", "255.255.255.255", "::", "::ffff:9.9.9.9", "::9.9.9.9"]),
        mk(&["::/0"], &["0.0.0.0", "::", "ffff:ffff:ffff:ffff:ffff:ffff:ffff:ffff", "::ffff:9.9.9.9"]),
        mk(&["::ffff:0.0.0.0/96"], &["0.0.0.0", "255.255.255.255", "::fffe:255.255.255.255", "::1:0:0"]),
        // halves that together cover a nibble / everything
        mk(&["0.0.0.0/1", "128.0.0.0/1"], &["0.0.0.0", "127.255.255.255", "128.0.0.0", "255.255.255.255", "::"]),
        mk(&["16.0.0.0/5", "24.0.0.0/5"], &["15.255.255.255", "16.0.0.0", "31.255.255.255", "32.0.0.0"]),
        // nested + adjacent, non-nibble masks
        mk(&["10.0.0.0/9", "10.64.0.0/10", "10.128.0.0/9", "10.1.2.3/32", "11.0.0.0/31"],
           &["9.255.255.255", "10.0.0.0", "10.127.255.255", "10.128.0.0", "10.255.255.255", "11.0.0.0", "11.0.0.1", "11.0.0.2"]),
        mk(&["2001:db8::/33", "2001:db8:8000::/33", "2001:db8::1/128", "2001:db9::/127"],
           &["2001:db7:ffff:ffff:ffff:ffff:ffff:ffff", "2001:db8::", "2001:db8:ffff:ffff:ffff:ffff:ffff:ffff", "2001:db9::", "2001:db9::1", "2001:db9::2"]),
        // string acceptance corner cases
        mk(&["1.2.3.4/33", "1.2.3.4/32", "::1/129", "::1/128", "::ffff:1.2.3.4/95", "::ffff:1.2.3.4/96", "::ffff:1.2.3.4/128", "::ffff:1.2.3.4/129",
             "1.2.3.4", "1.2.3.4/", "/8", "1.2.3.4/8/8", "1.2.3.4/+8", "1.2.3.4/008", "1.2.3.4/ 8", "1.2.3.4/-0", "1.2.3/8", "::1.2.3.4/4", "::1.2.3.4/97"],
           &["1.2.3.4", "::1", "::ffff:1.2.3.4", "::1.2.3.4"]),
    ]
}

impl Property for C31 {
    type Case = Case;
    const ID: &'static str = "C31";
    const RULE: &'static str = "0..12 subnet STRINGS derived from 1..3 shared 128-bit seeds (forms: dotted v4, v6, ::ffff:a.b.c.d, ::ffff:hhhh:hhhh; masks 0..=300 biased to 0..32/96..128 and nibble boundaries; tweaks: sibling, next/previous block, bit flip, random host bits; ~20% malformed: no slash, two slashes, junk address, port/brackets, spaces, '+', '-', hex, empty mask) parsed by IpSubnet::from_str; accepted ones feed IpFilter::new (hook) and, in 20% of the cases, a Server deny list and a Server allow list; 1..24 probes: first/last/first-1/last+1/inside of a chosen subnet (plain and IPv4-mapped), random v4/v6/mapped and addresses around ::ffff:0:0/96. Non-trivial = at least two accepted subnets of one family that are nested, overlapping or adjacent, and at least one probe (distinct = distinct (subnet strings, probes))";
    const ASSUMPTIONS: &'static [&'static str] = &[
        "an address 'lies in' a subnet when both have the same canonical family (IPv4-mapped IPv6 counts as IPv4, every other IPv6 address incl. IPv4-compatible ::a.b.c.d as IPv6) and the top `mask` bits agree; a v6 subnet never lists an IPv4(-mapped) address",
        "the address part 'parses' when std::net::IpAddr::from_str accepts it; the mask is a decimal integer in Rust's integer grammar (digits, optional leading '+', leading zeros allowed), no whitespace",
        "for an IPv4-mapped subnet string the mask counts bits of the 128-bit form: 96..=128 fits, it means mask-96 IPv4 bits",
    ];
    const QUICK_CASES: u32 = 2_000_000;
    const THOROUGH_CASES: u32 = 92_000_000;

    fn strategy(_tier: Tier) -> BoxedStrategy<Case> {
        case_strategy()
    }

    fn enumerate(_tier: Tier) -> Vec<Case> {
        fixed_cases()
    }

    fn enumeration_note() -> Option<&'static str> {
        Some("hand-picked boundary lists: empty list, /0 of each family, halves covering a nibble, nested/adjacent non-nibble masks, acceptance corner strings")
    }

    fn check(case: &Case) -> Outcome {
        let mut labels = Labels::default();
        // 1. string acceptance
        let mut accepted: Vec<(RefNet, IpSubnet)> = Vec::new();
        for s in &case.subnets {
            let want = ref_parse(s);
            let got = s.parse::<IpSubnet>();
            match (&want, &got) {
                (Ok(r), Ok(g)) => {
                    // the parsed value must denote the same family and mask as the string
                    let (gv4, _) = (matches!(g.addr, IpAddr::V4(_)), 0);
                    ensure!(gv4 == r.v4 && g.mask == r.mask && canonical(g.addr) == (r.v4, r.bits),
                        "accepted-subnet-denotes-something-else",
                        "{s:?} parsed to {g:?}, the string means v4={} bits={:#x} mask={}", r.v4, r.bits, r.mask);
                    labels.add_if(r.v4, "net-v4");
                    labels.add_if(!r.v4, "net-v6");
                    labels.add_if(r.mask == 0, "mask-0");
                    labels.add_if(r.mask as u32 == r.width(), "mask-full");
                    labels.add_if(r.mask % 4 != 0, "mask-not-nibble");
                    labels.add_if(s.to_ascii_lowercase().starts_with("::ffff:"), "net-mapped-string");
                    accepted.push((*r, g.clone()));
                }
                (Err(why), Ok(g)) => {
                    let sig = match why {
                        Reject::NoSlash => "accepted-without-slash",
                        Reject::Addr => "accepted-unparsable-address",
                        Reject::MaskSyntax => "accepted-non-decimal-mask",
                        Reject::MaskRange => "accepted-mask-too-long-for-family",
                        Reject::MappedMaskBelow96 => "accepted-mapped-mask-below-96",
                    };
                    return Outcome::fail(sig, format!("{s:?} must be rejected ({why:?}) but parsed to {g:?}"));
                }
                (Ok(r), Err(e)) => {
                    return Outcome::fail(
                        "rejected-valid-subnet",
                        format!("{s:?} (v4={} mask={}) must be accepted, got error {e:?}", r.v4, r.mask),
                    );
                }
                (Err(why), Err(_)) => {
                    labels.add(match why {
                        Reject::NoSlash => "rej-no-slash",
                        Reject::Addr => "rej-address",
                        Reject::MaskSyntax => "rej-mask-syntax",
                        Reject::MaskRange => "rej-mask-range",
                        Reject::MappedMaskBelow96 => "rej-mapped-below-96",
                    });
                }
            }
        }

        // relations between accepted subnets
        let mut related = false;
        for (i, (a, _)) in accepted.iter().enumerate() {
            for (b, _) in accepted.iter().skip(i + 1) {
                if a.v4 != b.v4 {
                    continue;
                }
                let nested = a.contains(b.v4, b.first()) || b.contains(a.v4, a.first());
                let adjacent = (a.last().wrapping_add(1) & a.width_mask()) == b.first()
                    || (b.last().wrapping_add(1) & b.width_mask()) == a.first();
                labels.add_if(nested, "pair-nested");
                labels.add_if(adjacent, "pair-adjacent");
                related |= nested || adjacent;
            }
        }
        labels.add_if(accepted.is_empty(), "no-accepted-subnet");

        // 2. membership
        let nets: Vec<IpSubnet> = accepted.iter().map(|(_, g)| g.clone()).collect();
        let filter = ipf::Filter::new(&nets);
        let mut addrs: Vec<IpAddr> = Vec::new();
        for p in &case.probes {
            match p {
                Probe::Addr(s) => match s.parse::<IpAddr>() {
                    Ok(a) => addrs.push(a),
                    Err(_) => return Outcome::pass(false).label("discard-bad-probe"),
                },
                Probe::Edge { subnet, which, fill_hi, fill_lo, mapped } => {
                    if accepted.is_empty() {
                        continue;
                    }
                    let r = accepted[idx(*subnet, accepted.len())].0;
                    let fill = ((*fill_hi as u128) << 64) | *fill_lo as u128;
                    let bits = match which {
                        0 => r.first(),
                        1 => r.last(),
                        2 => r.first().wrapping_sub(1) & r.width_mask(),
                        3 => r.last().wrapping_add(1) & r.width_mask(),
                        _ => r.first() | (fill & r.host_mask()),
                    };
                    addrs.push(to_ip(r.v4, bits, *mapped));
                }
            }
        }
        let mut n_in = 0;
        let mut n_out = 0;
        for a in &addrs {
            let (v4, bits) = canonical(*a);
            let want = accepted.iter().any(|(r, _)| r.contains(v4, bits));
            let got = filter.is_in(*a);
            if got != want {
                let sig = if want { "listed-address-not-matched" } else { "unlisted-address-matched" };
                return Outcome::fail(sig, format!("{a} with subnets {:?}: filter says {got}, reference says {want}", case.subnets));
            }
            if want { n_in += 1 } else { n_out += 1 }
            labels.add_if(matches!(a, IpAddr::V6(_)) && v4, "probe-mapped");
        }
        labels.add_if(n_in > 0, "probe-listed");
        labels.add_if(n_out > 0, "probe-unlisted");

        // 3. the same lists inside the server: deny list (action deny) and allow list (action ignore)
        if case.via_server {
            labels.add("via-server");
            let mut cfg = w_srv::base_config();
            cfg.denylist = w_srv::list(nets.clone(), FilterAction::Deny);
            let mut deny_srv = w_srv::server(cfg);
            let mut cfg = w_srv::base_config();
            cfg.allowlist = w_srv::list(nets.clone(), FilterAction::Ignore);
            let mut allow_srv = w_srv::server(cfg);
            for (i, a) in addrs.iter().enumerate() {
                let (v4, bits) = canonical(*a);
                let listed = accepted.iter().any(|(r, _)| r.contains(v4, bits));
                match w_srv::ask(&mut deny_srv, *a, i as u64 + 1) {
                    Err(e) => return Outcome::fail("server-answer-malformed", e),
                    Ok((seen, st)) => {
                        let want = w_srv::Seen::Answered { deny: listed };
                        let want_st = if listed { ServerResponse::Deny } else { ServerResponse::ProvideTime };
                        ensure!(seen == want && st.3 == want_st && st.2 == ServerReason::Policy,
                            if listed { "server-denylisted-client-not-denied" } else { "server-unlisted-client-denied" },
                            "deny list {:?}, client {a}: saw {seen:?} / {st:?}", case.subnets);
                    }
                }
                match w_srv::ask(&mut allow_srv, *a, i as u64 + 1) {
                    Err(e) => return Outcome::fail("server-answer-malformed", e),
                    Ok((seen, st)) => {
                        let want = if listed { w_srv::Seen::Answered { deny: false } } else { w_srv::Seen::Ignored };
                        ensure!(seen == want,
                            if listed { "server-allowlisted-client-not-served" } else { "server-unlisted-client-served" },
                            "allow list {:?}, client {a}: saw {seen:?} / {st:?}", case.subnets);
                    }
                }
            }
        }

        let mut out = Outcome::pass(related && !addrs.is_empty());
        out.labels = labels.0;
        out
    }
}
