//! Shared PTP helpers for C41/C44/C45: a plain-data message description (`MsgSpec`), an
//! independent reference encoder written from IEEE 1588-2019 clause 13 (no code under test
//! involved), the conversion into the library's `Message`, and proptest strategies.
use proptest::prelude::*;
use serde::{Deserialize, Serialize};
use statime_wire as sw;

#[derive(Debug, Clone, Copy, Serialize, Deserialize, PartialEq, Eq)]
pub struct HeaderSpec {
    /// 12 bit
    pub sdo: u16,
    /// 4 bit each
    pub major: u8,
    pub minor: u8,
    pub domain: u8,
    /// bit i: 0 alternateMaster, 1 twoStep, 2 unicast, 3 profileSpecific1, 4 profileSpecific2,
    /// 5 leap61, 6 leap59, 7 utcOffsetValid, 8 ptpTimescale, 9 timeTraceable,
    /// 10 frequencyTraceable, 11 synchronizationUncertain
    pub flags: u16,
    pub correction: i64,
    pub clock_id: [u8; 8],
    pub port: u16,
    pub seq: u16,
    pub log_interval: i8,
}

#[derive(Debug, Clone, Copy, Serialize, Deserialize, PartialEq, Eq)]
pub struct TsSpec {
    /// < 2^48
    pub secs: u64,
    /// < 10^9
    pub nanos: u32,
}

#[derive(Debug, Clone, Copy, Serialize, Deserialize, PartialEq, Eq)]
pub struct PidSpec {
    pub clock_id: [u8; 8],
    pub port: u16,
}

#[derive(Debug, Clone, Copy, Serialize, Deserialize, PartialEq, Eq)]
pub enum BodySpec {
    Sync(TsSpec),
    DelayReq(TsSpec),
    PDelayReq(TsSpec),
    PDelayResp(TsSpec, PidSpec),
    FollowUp(TsSpec),
    DelayResp(TsSpec, PidSpec),
    PDelayRespFollowUp(TsSpec, PidSpec),
    Announce {
        ts: TsSpec,
        utc_offset: i16,
        prio1: u8,
        class: u8,
        /// canonical clockAccuracy octet (see `canonical_accuracy`)
        accuracy: u8,
        variance: u16,
        prio2: u8,
        gm: [u8; 8],
        steps: u16,
        time_source: u8,
    },
    Signaling(PidSpec),
    Management {
        target: PidSpec,
        start_hops: u8,
        hops: u8,
        /// 0..=5 (5 = reserved)
        action: u8,
    },
}

impl BodySpec {
    pub fn type_nibble(&self) -> u8 {
        match self {
            BodySpec::Sync(_) => 0x0,
            BodySpec::DelayReq(_) => 0x1,
            BodySpec::PDelayReq(_) => 0x2,
            BodySpec::PDelayResp(..) => 0x3,
            BodySpec::FollowUp(_) => 0x8,
            BodySpec::DelayResp(..) => 0x9,
            BodySpec::PDelayRespFollowUp(..) => 0xa,
            BodySpec::Announce { .. } => 0xb,
            BodySpec::Signaling(_) => 0xc,
            BodySpec::Management { .. } => 0xd,
        }
    }
    pub fn name(&self) -> &'static str {
        match self {
            BodySpec::Sync(_) => "body-sync",
            BodySpec::DelayReq(_) => "body-delay-req",
            BodySpec::PDelayReq(_) => "body-pdelay-req",
            BodySpec::PDelayResp(..) => "body-pdelay-resp",
            BodySpec::FollowUp(_) => "body-follow-up",
            BodySpec::DelayResp(..) => "body-delay-resp",
            BodySpec::PDelayRespFollowUp(..) => "body-pdelay-resp-fu",
            BodySpec::Announce { .. } => "body-announce",
            BodySpec::Signaling(_) => "body-signaling",
            BodySpec::Management { .. } => "body-management",
        }
    }
}

/// body length by messageType nibble (IEEE 1588-2019 clause 13.5-13.12), None = unassigned type
pub fn body_len(type_nibble: u8) -> Option<usize> {
    Some(match type_nibble {
        0x0 | 0x1 | 0x8 => 10,
        0x2 | 0x3 | 0x9 | 0xa => 20,
        0xb => 30,
        0xc => 10,
        0xd => 14,
        _ => return None,
    })
}

#[derive(Debug, Clone, Serialize, Deserialize, PartialEq, Eq)]
pub struct TlvSpec {
    pub ty: u16,
    /// even length (IEEE 1588-2019 14.1.1: lengthField is even)
    pub value: Vec<u8>,
}

#[derive(Debug, Clone, Serialize, Deserialize, PartialEq, Eq)]
pub struct MsgSpec {
    pub header: HeaderSpec,
    pub body: BodySpec,
    pub tlvs: Vec<TlvSpec>,
}

// ---------------------------------------------------------------------------
// reference encoder

fn put_ts(out: &mut Vec<u8>, t: TsSpec) {
    out.extend_from_slice(&t.secs.to_be_bytes()[2..8]);
    out.extend_from_slice(&t.nanos.to_be_bytes());
}
fn put_pid(out: &mut Vec<u8>, p: PidSpec) {
    out.extend_from_slice(&p.clock_id);
    out.extend_from_slice(&p.port.to_be_bytes());
}

pub fn ref_encode_tlvs(tlvs: &[TlvSpec]) -> Vec<u8> {
    let mut out = Vec::new();
    for t in tlvs {
        out.extend_from_slice(&t.ty.to_be_bytes());
        out.extend_from_slice(&(t.value.len() as u16).to_be_bytes());
        out.extend_from_slice(&t.value);
    }
    out
}

pub fn ref_encode_body(b: &BodySpec) -> Vec<u8> {
    let mut out = Vec::new();
    match *b {
        BodySpec::Sync(t) | BodySpec::DelayReq(t) | BodySpec::FollowUp(t) => put_ts(&mut out, t),
        BodySpec::PDelayReq(t) => {
            put_ts(&mut out, t);
            out.extend_from_slice(&[0; 10]);
        }
        BodySpec::PDelayResp(t, p) | BodySpec::DelayResp(t, p) | BodySpec::PDelayRespFollowUp(t, p) => {
            put_ts(&mut out, t);
            put_pid(&mut out, p);
        }
        BodySpec::Announce { ts, utc_offset, prio1, class, accuracy, variance, prio2, gm, steps, time_source } => {
            put_ts(&mut out, ts);
            out.extend_from_slice(&utc_offset.to_be_bytes());
            out.push(0);
            out.push(prio1);
            out.push(class);
            out.push(accuracy);
            out.extend_from_slice(&variance.to_be_bytes());
            out.push(prio2);
            out.extend_from_slice(&gm);
            out.extend_from_slice(&steps.to_be_bytes());
            out.push(time_source);
        }
        BodySpec::Signaling(p) => put_pid(&mut out, p),
        BodySpec::Management { target, start_hops, hops, action } => {
            put_pid(&mut out, target);
            out.push(0);
            out.push(start_hops);
            out.push(hops);
            out.push(action);
        }
    }
    out
}

/// Reference wire image; `None` if the message does not fit a 16-bit messageLength.
pub fn ref_encode(m: &MsgSpec) -> Option<Vec<u8>> {
    let body = ref_encode_body(&m.body);
    let tlvs = ref_encode_tlvs(&m.tlvs);
    let total = 34 + body.len() + tlvs.len();
    if total > 0xffff || m.tlvs.iter().any(|t| t.value.len() > 0xffff) {
        return None;
    }
    let h = &m.header;
    let mut out = Vec::with_capacity(total);
    out.push((((h.sdo >> 8) as u8) << 4) | m.body.type_nibble());
    out.push((h.minor << 4) | (h.major & 0xf));
    out.extend_from_slice(&(total as u16).to_be_bytes());
    out.push(h.domain);
    out.push(h.sdo as u8);
    let f = |i: u16| ((h.flags >> i) & 1) as u8;
    out.push(f(0) | f(1) << 1 | f(2) << 2 | f(3) << 5 | f(4) << 6);
    out.push(f(5) | f(6) << 1 | f(7) << 2 | f(8) << 3 | f(9) << 4 | f(10) << 5 | f(11) << 6);
    out.extend_from_slice(&h.correction.to_be_bytes());
    out.extend_from_slice(&[0; 4]);
    out.extend_from_slice(&h.clock_id);
    out.extend_from_slice(&h.port.to_be_bytes());
    out.extend_from_slice(&h.seq.to_be_bytes());
    out.push(0);
    out.push(h.log_interval as u8);
    out.extend_from_slice(&body);
    out.extend_from_slice(&tlvs);
    debug_assert_eq!(out.len(), total);
    Some(out)
}

// ---------------------------------------------------------------------------
// conversion into library values

/// canonical `TlvType` for a 16-bit tlvType (IEEE 1588-2019 table 52 as partitioned by the crate;
/// payload-carrying variants are only ever built with values from their own range)
pub fn tlv_type(v: u16) -> sw::TlvType {
    use sw::TlvType as T;
    match v {
        0x0001 => T::Management,
        0x0002 => T::ManagementErrorStatus,
        0x0003 => T::OrganizationExtension,
        0x0004 => T::RequestUnicastTransmission,
        0x0005 => T::GrantUnicastTransmission,
        0x0006 => T::CancelUnicastTransmission,
        0x0007 => T::AcknowledgeCancelUnicastTransmission,
        0x0008 => T::PathTrace,
        0x0009 => T::AlternateTimeOffsetIndicator,
        0x2000..=0x2003 => T::Legacy(v),
        0x2004..=0x202f | 0x7f00..=0x7fff => T::Experimental(v),
        0x4000 => T::OrganizationExtensionPropagate,
        0x4001 => T::EnhancedAccuracyMetrics,
        0x8000 => T::OrganizationExtensionDoNotPropagate,
        0x8001 => T::L1Sync,
        0x8002 => T::PortCommunicationAvailability,
        0x8003 => T::ProtocolAddress,
        0x8004 => T::SlaveRxSyncTimingData,
        0x8005 => T::SlaveRxSyncComputedData,
        0x8006 => T::SlaveTxEventTimestamps,
        0x8007 => T::CumulativeRateRatio,
        0x8008 => T::Pad,
        0x8009 => T::Authentication,
        0xf002 => T::CsptpStatus,
        0xff00 => T::CsptpRequest,
        0xff01 => T::CsptpResponse,
        _ => T::Reserved(v),
    }
}

/// clockAccuracy octets with an assigned meaning (all others are "reserved" and decode lossily)
pub fn accuracy_is_assigned(b: u8) -> bool {
    matches!(b, 0x17..=0x31 | 0x80..=0xfe)
}

pub fn lib_ts(t: TsSpec) -> sw::Timestamp {
    sw::Timestamp::new(t.secs, t.nanos).expect("generator keeps timestamps in range")
}
pub fn lib_pid(p: PidSpec) -> sw::PortIdentity {
    sw::PortIdentity { clock_identity: sw::ClockIdentity(p.clock_id), port_number: p.port }
}

pub fn lib_header(h: &HeaderSpec) -> sw::Header {
    let f = |i: u16| (h.flags >> i) & 1 == 1;
    sw::Header {
        sdo_id: sw::SdoId::try_from(h.sdo).expect("generator keeps sdo in 12 bits"),
        version: sw::PtpVersion::new(h.major, h.minor).expect("generator keeps version nibbles"),
        domain_number: h.domain,
        alternate_master_flag: f(0),
        two_step_flag: f(1),
        unicast_flag: f(2),
        ptp_profile_specific_1: f(3),
        ptp_profile_specific_2: f(4),
        leap61: f(5),
        leap59: f(6),
        current_utc_offset_valid: f(7),
        ptp_timescale: f(8),
        time_tracable: f(9),
        frequency_tracable: f(10),
        synchronization_uncertain: f(11),
        correction_field: sw::TimeInterval(h.correction),
        source_port_identity: lib_pid(PidSpec { clock_id: h.clock_id, port: h.port }),
        sequence_id: h.seq,
        log_message_interval: h.log_interval,
    }
}

pub fn lib_body(b: &BodySpec) -> sw::MessageBody {
    use sw::MessageBody as B;
    match *b {
        BodySpec::Sync(t) => B::Sync(sw::SyncMessage { origin_timestamp: lib_ts(t) }),
        BodySpec::DelayReq(t) => B::DelayReq(sw::DelayReqMessage { origin_timestamp: lib_ts(t) }),
        BodySpec::PDelayReq(t) => B::PDelayReq(sw::PDelayReqMessage { origin_timestamp: lib_ts(t) }),
        BodySpec::PDelayResp(t, p) => B::PDelayResp(sw::PDelayRespMessage {
            request_receive_timestamp: lib_ts(t),
            requesting_port_identity: lib_pid(p),
        }),
        BodySpec::FollowUp(t) => B::FollowUp(sw::FollowUpMessage { precise_origin_timestamp: lib_ts(t) }),
        BodySpec::DelayResp(t, p) => B::DelayResp(sw::DelayRespMessage {
            receive_timestamp: lib_ts(t),
            requesting_port_identity: lib_pid(p),
        }),
        BodySpec::PDelayRespFollowUp(t, p) => B::PDelayRespFollowUp(sw::PDelayRespFollowUpMessage {
            response_origin_timestamp: lib_ts(t),
            requesting_port_identity: lib_pid(p),
        }),
        BodySpec::Announce { ts, utc_offset, prio1, class, accuracy, variance, prio2, gm, steps, time_source } => {
            B::Announce(sw::AnnounceMessage {
                origin_timestamp: lib_ts(ts),
                current_utc_offset: utc_offset,
                grandmaster_priority_1: prio1,
                grandmaster_clock_quality: sw::ClockQuality {
                    clock_class: class,
                    clock_accuracy: sw::ClockAccuracy::from_primitive(accuracy),
                    offset_scaled_log_variance: variance,
                },
                grandmaster_priority_2: prio2,
                grandmaster_identity: sw::ClockIdentity(gm),
                steps_removed: steps,
                time_source: sw::TimeSource::from_primitive(time_source),
            })
        }
        BodySpec::Signaling(p) => B::Signaling(sw::SignalingMessage { target_port_identity: lib_pid(p) }),
        BodySpec::Management { target, start_hops, hops, action } => B::Management(sw::ManagementMessage {
            target_port_identity: lib_pid(target),
            starting_boundary_hops: start_hops,
            boundary_hops: hops,
            action: match action {
                0 => sw::ManagementAction::GET,
                1 => sw::ManagementAction::SET,
                2 => sw::ManagementAction::RESPONSE,
                3 => sw::ManagementAction::COMMAND,
                4 => sw::ManagementAction::ACKNOWLEDGE,
                _ => sw::ManagementAction::Reserved,
            },
        }),
    }
}

pub fn lib_tlv(t: &TlvSpec) -> sw::Tlv<'_> {
    sw::Tlv { tlv_type: tlv_type(t.ty), value: std::borrow::Cow::Borrowed(&t.value[..]) }
}

/// Build the library message through the public API (`TlvSetBuilder`); `Err` if the builder refuses.
pub fn lib_message<'a>(m: &MsgSpec, tlv_buf: &'a mut [u8]) -> Result<sw::Message<'a>, sw::Error> {
    let mut b = sw::TlvSetBuilder::new(tlv_buf);
    for t in &m.tlvs {
        b.add(&lib_tlv(t))?;
    }
    Ok(sw::Message { header: lib_header(&m.header), body: lib_body(&m.body), suffix: b.build() })
}

// ---------------------------------------------------------------------------
// strategies

pub fn ts_strategy() -> BoxedStrategy<TsSpec> {
    let secs = prop_oneof![
        2 => prop::sample::select(vec![0u64, 1, (1 << 48) - 1, (1 << 48) - 2, 1 << 32, (1 << 32) - 1, 1 << 47]),
        3 => 0u64..(1 << 48),
        2 => 1_600_000_000u64..1_900_000_000,
    ];
    let nanos = prop_oneof![
        2 => prop::sample::select(vec![0u32, 1, 999_999_999, 999_999_998, 500_000_000]),
        3 => 0u32..1_000_000_000,
    ];
    (secs, nanos).prop_map(|(secs, nanos)| TsSpec { secs, nanos }).boxed()
}

pub fn pid_strategy() -> BoxedStrategy<PidSpec> {
    (any::<[u8; 8]>(), any::<u16>()).prop_map(|(clock_id, port)| PidSpec { clock_id, port }).boxed()
}

pub fn header_strategy() -> BoxedStrategy<HeaderSpec> {
    (
        prop_oneof![2 => Just(0u16), 1 => Just(0x300u16), 3 => 0u16..0x1000],
        prop_oneof![3 => Just(2u8), 1 => 0u8..16],
        0u8..16,
        any::<u8>(),
        prop_oneof![1 => Just(0u16), 1 => Just(0xfffu16), 3 => 0u16..0x1000],
        crate::gens::i64_interesting(),
        any::<[u8; 8]>(),
        any::<u16>(),
        any::<u16>(),
        any::<i8>(),
    )
        .prop_map(|(sdo, major, minor, domain, flags, correction, clock_id, port, seq, log_interval)| HeaderSpec {
            sdo,
            major,
            minor,
            domain,
            flags,
            correction,
            clock_id,
            port,
            seq,
            log_interval,
        })
        .boxed()
}

pub fn canonical_accuracy() -> BoxedStrategy<u8> {
    prop_oneof![1 => Just(0u8), 3 => 0x17u8..=0x31, 3 => 0x80u8..=0xfe, 1 => Just(0xfeu8), 1 => Just(0xfdu8)].boxed()
}

pub fn body_strategy() -> BoxedStrategy<BodySpec> {
    let ts = ts_strategy;
    let pid = pid_strategy;
    prop_oneof![
        ts().prop_map(BodySpec::Sync),
        ts().prop_map(BodySpec::DelayReq),
        ts().prop_map(BodySpec::PDelayReq),
        (ts(), pid()).prop_map(|(t, p)| BodySpec::PDelayResp(t, p)),
        ts().prop_map(BodySpec::FollowUp),
        (ts(), pid()).prop_map(|(t, p)| BodySpec::DelayResp(t, p)),
        (ts(), pid()).prop_map(|(t, p)| BodySpec::PDelayRespFollowUp(t, p)),
        (
            ts(),
            any::<i16>(),
            any::<u8>(),
            any::<u8>(),
            canonical_accuracy(),
            any::<u16>(),
            any::<u8>(),
            any::<[u8; 8]>(),
            any::<u16>(),
            any::<u8>()
        )
            .prop_map(|(ts, utc_offset, prio1, class, accuracy, variance, prio2, gm, steps, time_source)| {
                BodySpec::Announce { ts, utc_offset, prio1, class, accuracy, variance, prio2, gm, steps, time_source }
            }),
        pid().prop_map(BodySpec::Signaling),
        (pid(), any::<u8>(), any::<u8>(), 0u8..=5).prop_map(|(target, start_hops, hops, action)| {
            BodySpec::Management { target, start_hops, hops, action }
        }),
    ]
    .boxed()
}

pub fn tlv_type_strategy() -> BoxedStrategy<u16> {
    prop_oneof![
        4 => prop::sample::select(vec![
            0x0001u16, 0x0002, 0x0003, 0x0004, 0x0005, 0x0006, 0x0007, 0x0008, 0x0009, 0x4000, 0x4001,
            0x8000, 0x8001, 0x8002, 0x8003, 0x8004, 0x8005, 0x8006, 0x8007, 0x8008, 0x8009, 0xf002, 0xff00, 0xff01,
        ]),
        2 => prop::sample::select(vec![
            0x0000u16, 0x000a, 0x1fff, 0x2000, 0x2003, 0x2004, 0x202f, 0x2030, 0x3fff, 0x4002, 0x7eff, 0x7f00,
            0x7fff, 0x800a, 0xf001, 0xf003, 0xfeff, 0xff02, 0xffef, 0xfff0, 0xffff,
        ]),
        2 => any::<u16>(),
    ]
    .boxed()
}

/// even value lengths, empty values frequent
pub fn tlv_strategy() -> BoxedStrategy<TlvSpec> {
    let len = prop_oneof![3 => Just(0usize), 2 => Just(1usize), 3 => 2usize..=16, 1 => 17usize..=700];
    (tlv_type_strategy(), len)
        .prop_flat_map(|(ty, half)| prop::collection::vec(any::<u8>(), half * 2).prop_map(move |value| TlvSpec { ty, value }))
        .boxed()
}

pub fn msg_strategy(max_tlvs: usize) -> BoxedStrategy<MsgSpec> {
    (header_strategy(), body_strategy(), prop::collection::vec(tlv_strategy(), 0..=max_tlvs))
        .prop_map(|(header, body, tlvs)| MsgSpec { header, body, tlvs })
        .boxed()
}

// ---------------------------------------------------------------------------
// independent minimal decoder (IEEE 1588-2019 clause 13 / 14 framing rules only), used by the CSPTP
// checks to classify datagrams without the code under test

#[derive(Debug, Clone, PartialEq, Eq)]
pub struct RawMsg {
    pub type_nibble: u8,
    pub sdo: u16,
    pub major: u8,
    pub minor: u8,
    pub domain: u8,
    pub flags: [u8; 2],
    pub correction: i64,
    pub seq: u16,
    /// body bytes (length by message type)
    pub body: Vec<u8>,
    pub tlvs: Vec<(u16, Vec<u8>)>,
}

impl RawMsg {
    pub fn two_step(&self) -> bool {
        self.flags[0] & 0x02 != 0
    }
    /// (seconds, nanos) of the first timestamp of the body
    pub fn body_ts(&self) -> (u64, u32) {
        let mut s = [0u8; 8];
        s[2..8].copy_from_slice(&self.body[0..6]);
        (u64::from_be_bytes(s), u32::from_be_bytes(self.body[6..10].try_into().unwrap()))
    }
}

pub fn ts_bytes(t: TsSpec) -> [u8; 10] {
    let mut o = [0u8; 10];
    o[0..6].copy_from_slice(&t.secs.to_be_bytes()[2..8]);
    o[6..10].copy_from_slice(&t.nanos.to_be_bytes());
    o
}

/// Decode a PTP message: complete header, known type, messageLength covers header+body and lies
/// within the datagram, timestamps in the body have nanoseconds < 10^9, the suffix is a sequence
/// of complete TLVs with even lengths. Bytes after messageLength are padding.
pub fn raw_decode(b: &[u8]) -> Option<RawMsg> {
    if b.len() < 34 {
        return None;
    }
    let type_nibble = b[0] & 0x0f;
    let body_n = body_len(type_nibble)?;
    let l = u16::from_be_bytes([b[2], b[3]]) as usize;
    if l < 34 + body_n || l > b.len() {
        return None;
    }
    let body = b[34..34 + body_n].to_vec();
    // every body except Signaling/Management starts with a timestamp
    if !matches!(type_nibble, 0xc | 0xd) {
        let nanos = u32::from_be_bytes(body[6..10].try_into().unwrap());
        if nanos >= 1_000_000_000 {
            return None;
        }
    }
    let mut tlvs = Vec::new();
    let mut p = 34 + body_n;
    while p < l {
        if l - p < 4 {
            return None;
        }
        let ty = u16::from_be_bytes([b[p], b[p + 1]]);
        let n = u16::from_be_bytes([b[p + 2], b[p + 3]]) as usize;
        if n % 2 != 0 || p + 4 + n > l {
            return None;
        }
        tlvs.push((ty, b[p + 4..p + 4 + n].to_vec()));
        p += 4 + n;
    }
    Some(RawMsg {
        type_nibble,
        sdo: (((b[0] >> 4) as u16) << 8) | b[5] as u16,
        major: b[1] & 0x0f,
        minor: b[1] >> 4,
        domain: b[4],
        flags: [b[6], b[7]],
        correction: i64::from_be_bytes(b[8..16].try_into().unwrap()),
        seq: u16::from_be_bytes([b[30], b[31]]),
        body,
        tlvs,
    })
}

pub const TLV_CSPTP_STATUS: u16 = 0xf002;
pub const TLV_CSPTP_REQUEST: u16 = 0xff00;
pub const TLV_CSPTP_RESPONSE: u16 = 0xff01;

/// CSPTP framing: sdoId 0x300, PTP major version 2, Sync or Follow_Up; a Sync carries exactly one
/// CSPTP request-or-response TLV and that TLV is long enough for its fixed fields
/// (request: flags octet; response: 10-octet ingress timestamp + 8-octet correction).
pub fn csptp_kind(m: &RawMsg) -> Option<CsptpKind> {
    if m.sdo != 0x300 || m.major != 2 {
        return None;
    }
    match m.type_nibble {
        0x8 => Some(CsptpKind::FollowUp),
        0x0 => {
            let req: Vec<&(u16, Vec<u8>)> = m.tlvs.iter().filter(|t| t.0 == TLV_CSPTP_REQUEST).collect();
            let resp: Vec<&(u16, Vec<u8>)> = m.tlvs.iter().filter(|t| t.0 == TLV_CSPTP_RESPONSE).collect();
            if req.len() + resp.len() != 1 {
                return None;
            }
            if let Some(r) = req.first() {
                (!r.1.is_empty()).then(|| CsptpKind::Request { status: r.1[0] & 1 != 0 })
            } else {
                let v = &resp[0].1;
                if v.len() < 18 || u32::from_be_bytes(v[6..10].try_into().unwrap()) >= 1_000_000_000 {
                    return None;
                }
                Some(CsptpKind::Response)
            }
        }
        _ => None,
    }
}

#[derive(Debug, Clone, Copy, PartialEq, Eq)]
pub enum CsptpKind {
    Request { status: bool },
    Response,
    FollowUp,
}
