//! Parent/worker orchestration, evidence and replay files. Exit codes:
//! 0 held, 1 violation (with a `VIOLATION property=<id> replay=<path>` line),
//! 2 inconclusive (worker crash/hang, bad arguments).

use std::collections::{BTreeMap, HashSet};
use std::io::Write;
use std::process::{Command, Stdio};
use std::time::{Duration, Instant};

use crate::engine::*;

fn arg_val(args: &[String], name: &str) -> Option<String> {
    args.iter()
        .position(|a| a == name)
        .and_then(|i| args.get(i + 1).cloned())
}

pub fn main_with(registry: Vec<Entry>) -> ! {
    install_panic_hook();
    let args: Vec<String> = std::env::args().collect();
    if args.len() < 2 {
        eprintln!("usage: vcheck <ID> [--tier quick|thorough] [--replay FILE] | vcheck --list");
        std::process::exit(2);
    }
    if args[1] == "--list" {
        for e in &registry {
            println!(
                "{} {} {} {} fuzz={}",
                e.id,
                e.level.name(),
                e.quick_cases,
                e.thorough_cases,
                e.has_fuzz
            );
        }
        std::process::exit(0);
    }
    let id = args[1].clone();
    let Some(entry) = registry.iter().find(|e| e.id == id) else {
        eprintln!("unknown property {id}");
        std::process::exit(2);
    };
    let tier = match arg_val(&args, "--tier")
        .or_else(|| std::env::var("VERIF_TIER").ok())
        .as_deref()
    {
        Some("thorough") => Tier::Thorough,
        _ => Tier::Quick,
    };
    let seed: u64 = std::env::var("VERIF_SEED")
        .ok()
        .and_then(|s| s.trim().parse::<i64>().ok())
        .map(|v| v as u64)
        .unwrap_or(0);

    if let Some(path) = arg_val(&args, "--replay") {
        std::process::exit(replay(entry, &path));
    }

    if let Some(w) = arg_val(&args, "--worker") {
        let worker: usize = w.parse().unwrap();
        let nworkers: usize = arg_val(&args, "--nworkers").unwrap().parse().unwrap();
        let cases: u32 = arg_val(&args, "--cases").unwrap().parse().unwrap();
        let out = arg_val(&args, "--out").unwrap();
        let res = (entry.worker)(tier, seed, worker, nworkers, cases);
        let s = serde_json::to_string(&res).unwrap();
        std::fs::write(&out, s).unwrap();
        std::process::exit(0);
    }

    std::process::exit(parent(entry, tier, seed));
}

fn replay(entry: &Entry, path: &str) -> i32 {
    let res = if path.ends_with(".json") {
        match std::fs::read_to_string(path) {
            Ok(s) => (entry.replay_json)(&s),
            Err(e) => Err(format!("cannot read {path}: {e}")),
        }
    } else {
        match std::fs::read(path) {
            Ok(b) => match (entry.replay_bytes)(&b) {
                Some(r) => r,
                None => {
                    println!("replay: input does not decode into a case (ignored by the target)");
                    return 0;
                }
            },
            Err(e) => Err(format!("cannot read {path}: {e}")),
        }
    };
    match res {
        Err(e) => {
            eprintln!("replay error: {e}");
            2
        }
        Ok(out) => match out.failure {
            None => {
                println!(
                    "replay: property {} held on {} (labels {:?})",
                    entry.id, path, out.labels
                );
                0
            }
            Some(f) => {
                println!("replay: {} fails: [{}] {}", entry.id, f.signature, f.what);
                println!("VIOLATION property={} replay={}", entry.id, path);
                1
            }
        },
    }
}

fn parent(entry: &Entry, tier: Tier, seed: u64) -> i32 {
    let start = Instant::now();
    let total_cases = tier.pick(entry.quick_cases, entry.thorough_cases);
    let cases_scale: f64 = std::env::var("VERIF_CASES_SCALE")
        .ok()
        .and_then(|s| s.parse().ok())
        .unwrap_or(1.0);
    let total_cases = ((total_cases as f64) * cases_scale) as u32;
    let ncpu = std::thread::available_parallelism().map(|n| n.get()).unwrap_or(4);
    let nworkers = entry.max_workers.min(ncpu).min(16).max(1);
    let per = total_cases / nworkers as u32;
    let rem = total_cases % nworkers as u32;

    let tmp = verif_root().join("harness/target/vtmp");
    let _ = std::fs::create_dir_all(&tmp);
    let exe = std::env::current_exe().unwrap();
    let mut children = Vec::new();
    for w in 0..nworkers {
        let out = tmp.join(format!("{}-{}-{}.json", entry.id, std::process::id(), w));
        let _ = std::fs::remove_file(&out);
        let cases = per + if (w as u32) < rem { 1 } else { 0 };
        let child = Command::new(&exe)
            .arg(entry.id)
            .arg("--tier")
            .arg(tier.name())
            .arg("--worker")
            .arg(w.to_string())
            .arg("--nworkers")
            .arg(nworkers.to_string())
            .arg("--cases")
            .arg(cases.to_string())
            .arg("--out")
            .arg(&out)
            .env("VERIF_SEED", (seed as i64).to_string())
            .stdin(Stdio::null())
            .stdout(Stdio::null())
            .spawn()
            .expect("spawn worker");
        children.push((w, child, out));
    }

    let limit = Duration::from_secs(
        std::env::var("VERIF_WORKER_TIMEOUT_S")
            .ok()
            .and_then(|s| s.parse().ok())
            .unwrap_or(tier.pick(420, 6 * 3600)),
    );
    let mut results: Vec<(usize, WorkerResult)> = Vec::new();
    let mut inconclusive: Vec<String> = Vec::new();
    let mut crashed: Vec<(usize, i32)> = Vec::new();
    for (w, mut child, out) in children {
        let status = loop {
            match child.try_wait() {
                Ok(Some(st)) => break Some(st),
                Ok(None) => {
                    if start.elapsed() > limit {
                        let _ = child.kill();
                        let _ = child.wait();
                        break None;
                    }
                    std::thread::sleep(Duration::from_millis(20));
                }
                Err(_) => break None,
            }
        };
        match status {
            Some(st) if st.success() => match std::fs::read_to_string(&out)
                .ok()
                .and_then(|s| serde_json::from_str::<WorkerResult>(&s).ok())
            {
                Some(r) => results.push((w, r)),
                None => inconclusive.push(format!("worker {w}: no result file")),
            },
            Some(st) => {
                use std::os::unix::process::ExitStatusExt;
                match st.signal() {
                    // the code under test took the worker down (abort, allocation failure, stack overflow):
                    // repeat this worker's share with every case in its own process to find the case
                    Some(sig) if sig != libc::SIGKILL && sig != libc::SIGTERM => crashed.push((w, sig)),
                    _ => inconclusive.push(format!("worker {w}: abnormal exit {st:?}")),
                }
            }
            None => inconclusive.push(format!("worker {w}: exceeded the wall limit, killed")),
        }
        let _ = std::fs::remove_file(&out);
    }

    // workers that died from a signal: isolation re-run (one at a time; the first one that pins a case is enough)
    for (w, sig) in crashed {
        if results.iter().any(|(_, r)| r.violation.is_some()) {
            break;
        }
        let out = tmp.join(format!("{}-{}-{}-iso.json", entry.id, std::process::id(), w));
        let _ = std::fs::remove_file(&out);
        let cases = per + if (w as u32) < rem { 1 } else { 0 };
        let st = Command::new(&exe)
            .arg(entry.id)
            .arg("--tier")
            .arg(tier.name())
            .arg("--worker")
            .arg(w.to_string())
            .arg("--nworkers")
            .arg(nworkers.to_string())
            .arg("--cases")
            .arg(cases.to_string())
            .arg("--out")
            .arg(&out)
            .env("VERIF_SEED", (seed as i64).to_string())
            .env("VERIF_ISOLATE", "1")
            .env("RUST_BACKTRACE", "0")
            .stdin(Stdio::null())
            .stdout(Stdio::null())
            .stderr(Stdio::null())
            .spawn()
            .and_then(|mut child| loop {
                match child.try_wait()? {
                    Some(st) => break Ok(st),
                    None if start.elapsed() > limit + Duration::from_secs(240) => {
                        let _ = child.kill();
                        break child.wait();
                    }
                    None => std::thread::sleep(Duration::from_millis(50)),
                }
            });
        match (st, std::fs::read_to_string(&out).ok().and_then(|s| serde_json::from_str::<WorkerResult>(&s).ok())) {
            (Ok(st), Some(r)) if st.success() => {
                if r.violation.is_none() {
                    inconclusive.push(format!("worker {w}: died from signal {sig}, but every case passed when run in its own process"));
                }
                results.push((w, r));
            }
            (st, _) => inconclusive.push(format!("worker {w}: died from signal {sig}; isolation re-run failed ({st:?})")),
        }
        let _ = std::fs::remove_file(&out);
    }

    // merge
    let mut evaluations = 0u64;
    let mut enumerated = 0u64;
    let mut nontrivial = 0u64;
    let mut hashes: HashSet<u64> = HashSet::new();
    let mut labels: BTreeMap<String, u64> = BTreeMap::new();
    let mut samples: Vec<serde_json::Value> = Vec::new();
    let mut known_hits: BTreeMap<String, u64> = BTreeMap::new();
    let mut violation: Option<(serde_json::Value, Failure, Option<String>)> = None;
    let mut notes: Vec<String> = Vec::new();
    for (_, r) in &results {
        evaluations += r.evaluations;
        enumerated += r.enumerated;
        nontrivial += r.nontrivial;
        hashes.extend(r.distinct_nontrivial_hashes.iter().copied());
        if r.hashes_capped && !notes.iter().any(|n| n.starts_with("distinct_nontrivial is a lower bound")) {
            notes.push("distinct_nontrivial is a lower bound: distinct cases are told apart for the first 2^21 non-trivial cases of every worker only".into());
        }
        for (k, v) in &r.labels {
            *labels.entry(k.clone()).or_default() += v;
        }
        for (k, v) in &r.known_hits {
            *known_hits.entry(k.clone()).or_default() += v;
        }
        for s in &r.samples {
            if samples.len() < 6 {
                samples.push(s.clone());
            }
        }
        if violation.is_none() {
            if let Some((c, f)) = &r.violation {
                violation = Some((c.clone(), f.clone(), r.shrink_note.clone()));
            }
        }
        if let Some(n) = &r.shrink_note {
            if n.starts_with("proptest aborted") {
                notes.push(n.clone());
            }
        }
    }

    let known = load_known();
    let mut violations = 0;
    let mut replay_path = None;
    if let Some((case, f, note)) = &violation {
        violations = 1;
        let dir = verif_root().join("replays");
        let _ = std::fs::create_dir_all(&dir);
        let h = {
            use std::hash::{Hash, Hasher};
            let mut hh = std::collections::hash_map::DefaultHasher::new();
            case.to_string().hash(&mut hh);
            hh.finish()
        };
        let p = dir.join(format!("{}-{:016x}.json", entry.id, h));
        std::fs::write(&p, serde_json::to_string_pretty(case).unwrap()).unwrap();
        println!(
            "failure: property={} signature={} what={} ({})",
            entry.id,
            f.signature,
            f.what,
            note.clone().unwrap_or_default()
        );
        replay_path = Some(p);
    }

    for k in known.known.iter().filter(|k| k.property == entry.id) {
        let hits = known_hits.get(&k.signature).copied().unwrap_or(0);
        println!(
            "KNOWN-FINDING: property={} {} [signature {}; reproduced by {} case(s) in this run]",
            entry.id, k.what, k.signature, hits
        );
    }

    let wall = start.elapsed().as_secs_f64();
    let mut coverage = serde_json::Map::new();
    coverage.insert("evaluations".into(), evaluations.into());
    coverage.insert("distinct_nontrivial".into(), (hashes.len() as u64).into());
    coverage.insert("nontrivial_total".into(), nontrivial.into());
    coverage.insert("rule".into(), entry.rule.into());
    coverage.insert("samples".into(), serde_json::Value::Array(samples));
    coverage.insert("exhaustive".into(), false.into());
    coverage.insert("enumerated_cases".into(), enumerated.into());
    if let Some(n) = (entry.enumeration_note)() {
        coverage.insert("enumeration".into(), n.into());
    }
    coverage.insert(
        "labels".into(),
        serde_json::to_value(&labels).unwrap_or_default(),
    );
    coverage.insert(
        "known_finding_hits".into(),
        serde_json::to_value(&known_hits).unwrap_or_default(),
    );
    coverage.insert("workers".into(), (results.len() as u64).into());
    if !inconclusive.is_empty() {
        coverage.insert(
            "inconclusive".into(),
            serde_json::to_value(&inconclusive).unwrap(),
        );
    }
    if !notes.is_empty() {
        coverage.insert("notes".into(), serde_json::to_value(&notes).unwrap());
    }
    if let Ok(extra) = std::env::var("VERIF_EVIDENCE_EXTRA") {
        if let Ok(v) = serde_json::from_str::<serde_json::Value>(&extra) {
            coverage.insert("extra".into(), v);
        }
    }
    let mut ev = serde_json::Map::new();
    ev.insert("property_id".into(), entry.id.into());
    ev.insert("tier".into(), tier.name().into());
    ev.insert("seed".into(), (seed as i64).into());
    ev.insert("level".into(), entry.level.name().into());
    ev.insert("coverage".into(), serde_json::Value::Object(coverage));
    ev.insert(
        "assumptions".into(),
        serde_json::to_value(entry.assumptions).unwrap(),
    );
    ev.insert("wall_s".into(), serde_json::Number::from_f64(wall).unwrap().into());
    ev.insert("violations".into(), violations.into());
    let evdir = verif_root().join("evidence");
    let _ = std::fs::create_dir_all(&evdir);
    let evpath = evdir.join(format!("{}.json", entry.id));
    let mut f = std::fs::File::create(&evpath).unwrap();
    f.write_all(
        serde_json::to_string_pretty(&serde_json::Value::Object(ev))
            .unwrap()
            .as_bytes(),
    )
    .unwrap();
    f.write_all(b"\n").unwrap();

    println!(
        "{} {}: {} cases ({} enumerated), {} non-trivial, {} distinct non-trivial, {} known-finding hits, {:.1}s, seed {}",
        entry.id,
        tier.name(),
        evaluations,
        enumerated,
        nontrivial,
        hashes.len(),
        known_hits.values().sum::<u64>(),
        wall,
        seed as i64
    );
    let mut lv: Vec<_> = labels.iter().collect();
    lv.sort_by(|a, b| b.1.cmp(a.1));
    println!(
        "  labels: {}",
        lv.iter()
            .map(|(k, v)| format!("{k}={v}"))
            .collect::<Vec<_>>()
            .join(" ")
    );

    if let Some(p) = replay_path {
        println!("VIOLATION property={} replay={}", entry.id, p.display());
        return 1;
    }
    if !inconclusive.is_empty() {
        eprintln!("INCONCLUSIVE: {}", inconclusive.join("; "));
        return 2;
    }
    0
}
