//! Source world: one real `NtpSource` (created through `NtpManager::new_source`)
//! with a recording `SourceController`, a paused tokio clock and a scripted
//! server built on the reference codec. Ops: Timer / Advance / Deliver /
//! DeliverFor (answer to an older request) / Replay / Garbage / SetDesired.

use std::net::SocketAddr;
use std::sync::{Arc, Mutex};
use std::time::Duration;

use ntp_proto::verif_hook as nh;
use ntp_proto::verif_hook::source::SourceState;
use ntp_proto::{
    ClockId, Measurement, NtpManager, NtpSource, NtpSourceAction, ObservableSourceTimedata,
    PollInterval, PollIntervalLimits, ProtocolVersion, SourceConfig, SourceController,
    SynchronizationConfig,
};
use proptest::prelude::*;
use serde::{Deserialize, Serialize};

use crate::refwire::*;
use crate::w_server::{AddrSpec, SessionKeys, seeded_bytes, session_keys};

// ---------------------------------------------------------------------------
// specs

#[derive(Debug, Clone, Serialize, Deserialize, PartialEq)]
pub struct SourceCase {
    pub nts: Option<NtsSetup>,
    /// 0 = NTPv4, 1 = NTPv5, 2 = automatic (upgrade protocol); NTS sources: 0 or 1
    pub proto: u8,
    pub poll_min: i8,
    pub poll_max: i8,
    pub desired_poll: i8,
    pub local_stratum: u8,
    pub local_ips: Vec<AddrSpec>,
    pub source_addr: AddrSpec,
    pub key_seed: u64,
    pub ops: Vec<Op>,
    /// twin runs: delivery ops that are built (so replay indices stay aligned) but not handed to the source
    #[serde(default)]
    pub skip: Vec<usize>,
    /// the scripted server's Bloom filter: 0 = dense seeded bytes (as always), 1 = sparse seeded bytes,
    /// 2 = sparse seeded bytes plus this daemon's server id (the server synchronises to us)
    #[serde(default)]
    pub server_filter_kind: u8,
}

#[derive(Debug, Clone, Serialize, Deserialize, PartialEq)]
pub struct NtsSetup {
    pub alg512: bool,
    pub cookie_lens: Vec<u16>,
}

#[derive(Debug, Clone, Serialize, Deserialize, PartialEq)]
pub enum Op {
    Timer,
    Advance { ms: u32 },
    /// answer to the most recent request
    Deliver(Resp),
    /// answer built for the request sent `back` requests before the most recent one
    DeliverFor { back: u8, resp: Resp },
    /// redeliver an earlier delivered datagram verbatim
    Replay { idx: u16 },
    Garbage(Vec<u8>),
    SetDesired(i8),
}

#[derive(Debug, Clone, Copy, Serialize, Deserialize, PartialEq, Eq)]
pub enum RespKind {
    Time { stratum: u8 },
    Rate,
    Deny,
    Rstr,
    Ntsn,
    UnknownKiss(u32),
}

#[derive(Debug, Clone, Copy, Serialize, Deserialize, PartialEq, Eq)]
pub enum OriginSel {
    Correct,
    Wrong(u64),
}
#[derive(Debug, Clone, Copy, Serialize, Deserialize, PartialEq, Eq)]
pub enum UidSel {
    /// in the authenticated part (NTS with authenticator) / plain (otherwise)
    Echo,
    Omit,
    Wrong,
    /// only after the authenticator, i.e. unauthenticated
    Untrusted,
}
#[derive(Debug, Clone, Copy, Serialize, Deserialize, PartialEq, Eq)]
pub enum AuthSel {
    Proper,
    Strip,
    WrongKey(u64),
    ClientKey,
    Corrupt(u16),
    /// forged authenticator: a nonce of `nonce_len` bytes, NO ciphertext at all, and `pad_words` words of zero
    /// padding in the field (nothing was encrypted, nothing can verify)
    EmptyCiphertext { nonce_len: u8, pad_words: u8 },
}
#[derive(Debug, Clone, Copy, Serialize, Deserialize, PartialEq, Eq)]
pub enum RefidSel {
    Value(u32),
    /// reference id derived from the daemon's own `idx`-th local address (loop!)
    LocalIp(u8),
}
#[derive(Debug, Clone, Copy, Serialize, Deserialize, PartialEq, Eq)]
pub enum BloomSel {
    None,
    /// exactly the requested bytes of the scripted server filter
    Correct,
    WrongLen(u16),
    Garbage,
}

#[derive(Debug, Clone, Serialize, Deserialize, PartialEq)]
pub struct Resp {
    /// 0 = same version as the request
    pub ver: u8,
    pub mode: u8,
    pub kind: RespKind,
    pub origin: OriginSel,
    pub uid: UidSel,
    pub auth: AuthSel,
    /// lengths of new cookies placed in the encrypted part
    pub new_cookies: Vec<u16>,
    /// lengths of cookies placed in the clear (attack)
    pub plain_cookies: Vec<u16>,
    pub upgrade: bool,
    /// v3/v4: None = echo the request's poll; v5: server requested poll
    pub poll: Option<u8>,
    pub li: u8,
    pub precision: u8,
    pub root_delay: u32,
    pub root_disp: u32,
    pub refid: RefidSel,
    pub t2: u64,
    pub t3: u64,
    pub send_time: u64,
    pub recv_time: u64,
    pub bloom: BloomSel,
    /// v5 only: force the authnak flag whatever the kind
    pub authnak: bool,
    /// v5 only: server filter contains the daemon's own server id (loop)
    pub bloom_contains_us: bool,
}

impl Resp {
    pub fn honest(stratum: u8) -> Resp {
        Resp {
            ver: 0,
            mode: 4,
            kind: RespKind::Time { stratum },
            origin: OriginSel::Correct,
            uid: UidSel::Echo,
            auth: AuthSel::Proper,
            new_cookies: vec![],
            plain_cookies: vec![],
            upgrade: false,
            poll: None,
            li: 0,
            precision: 0xEC,
            root_delay: 0x100,
            root_disp: 0x100,
            refid: RefidSel::Value(0x7f7f0101),
            t2: 0x1000_0000_0000,
            t3: 0x1000_0001_0000,
            send_time: 0x1000_0000_0000,
            recv_time: 0x1000_0002_0000,
            bloom: BloomSel::Correct,
            authnak: false,
            bloom_contains_us: false,
        }
    }
}

// ---------------------------------------------------------------------------
// recording controller

#[derive(Debug, Clone)]
pub enum CtlEvent {
    Measurement { outgoing: bool, sender_ts: u64, receiver_ts: u64, root_delay: i64, root_disp: i64, leap: u8, precision: i8 },
    Usable(bool),
}

#[derive(Clone)]
pub struct RecCtl {
    pub log: Arc<Mutex<Vec<CtlEvent>>>,
    pub desired: Arc<Mutex<i8>>,
}

impl SourceController for RecCtl {
    fn handle_measurement(&mut self, m: Measurement) {
        self.log.lock().unwrap().push(CtlEvent::Measurement {
            outgoing: m.sender_id == ClockId::SYSTEM,
            sender_ts: nh::time::timestamp_raw(m.sender_ts),
            receiver_ts: nh::time::timestamp_raw(m.receiver_ts),
            root_delay: nh::time::duration_raw(m.root_delay),
            root_disp: nh::time::duration_raw(m.root_dispersion),
            leap: match m.leap {
                ntp_proto::NtpLeapIndicator::NoWarning => 0,
                ntp_proto::NtpLeapIndicator::Leap61 => 1,
                ntp_proto::NtpLeapIndicator::Leap59 => 2,
                ntp_proto::NtpLeapIndicator::Unknown => 3,
                ntp_proto::NtpLeapIndicator::Unsynchronized => 4,
            },
            precision: m.precision,
        });
    }
    fn set_usable(&mut self, usable: bool) {
        self.log.lock().unwrap().push(CtlEvent::Usable(usable));
    }
    fn desired_poll_interval(&self) -> PollInterval {
        PollInterval::from_byte(*self.desired.lock().unwrap() as u8)
    }
    fn observe(&self) -> ObservableSourceTimedata {
        ObservableSourceTimedata::default()
    }
}

// ---------------------------------------------------------------------------
// trace

#[derive(Debug, Clone, PartialEq)]
pub enum Act {
    Send(usize),
    SetTimer(Duration),
    Reset,
    Demobilize,
}

#[derive(Debug, Clone)]
pub struct Sent {
    pub bytes: Vec<u8>,
    pub version: u8,
    pub mode: u8,
    pub poll: u8,
    /// v4 transmit timestamp / v5 client cookie
    pub ident: u64,
    pub upgrade_request: bool,
    pub uid: Option<Vec<u8>>,
    pub cookie: Option<Vec<u8>>,
    pub placeholders: Vec<usize>,
    pub refid_req: Option<(u16, u16)>,
    pub draft_id: bool,
    /// NTS: authenticator verifies under c2s (reference AEAD)
    pub authenticated: bool,
    pub has_auth: bool,
    pub at: Duration,
    pub decoded: bool,
}

#[derive(Debug, Clone)]
pub struct Delivery {
    pub bytes: Vec<u8>,
    /// index (into Trace::sent) of the request this datagram was built for
    pub for_req: Option<usize>,
    pub resp: Option<Resp>,
    /// version actually on the wire
    pub version: u8,
    pub proper_auth: bool,
    pub origin_ok: bool,
    /// uid echoed in a place the source may trust (authenticated part for NTS with authenticator, anywhere for plain)
    pub uid_trusted: bool,
    pub uid_present_untrusted: bool,
    pub within_window: bool,
    pub send_time: u64,
    pub recv_time: u64,
    pub is_replay: bool,
}

#[derive(Debug, Clone)]
pub struct Obs {
    pub unanswered_polls: u32,
    pub poll_interval: i8,
    pub nts_cookies: Option<usize>,
}

#[derive(Debug, Clone)]
pub struct Step {
    pub op: usize,
    pub actions: Vec<Act>,
    pub sent: Option<usize>,
    pub delivery: Option<Delivery>,
    pub events: Vec<CtlEvent>,
    /// the complete Bloom filter the source holds after this op (if it has one) equals the scripted server's
    pub held_filter_is_servers: Option<bool>,
    pub obs: Obs,
    pub state: SourceState,
    pub desired: i8,
    pub at: Duration,
}

pub struct Trace {
    pub steps: Vec<Step>,
    pub sent: Vec<Sent>,
    pub keys: Option<SessionKeys>,
    pub initial_cookies: Vec<Vec<u8>>,
    pub server_filter: Vec<u8>,
    pub server_id_in_filter: bool,
    pub local_refids: Vec<u32>,
    pub source_own_refid: u32,
    pub manager_snapshot_ok: bool,
}

// ---------------------------------------------------------------------------
// helpers

fn decode_sent(bytes: &[u8], keys: Option<&SessionKeys>, at: Duration) -> Sent {
    let p = decode_packet(bytes, keys.map(|k| &k.c2s));
    let mut s = Sent {
        bytes: bytes.to_vec(),
        version: bytes.first().map(|b| (b >> 3) & 7).unwrap_or(0),
        mode: bytes.first().map(|b| b & 7).unwrap_or(0),
        poll: bytes.get(2).copied().unwrap_or(0),
        ident: 0,
        upgrade_request: false,
        uid: None,
        cookie: None,
        placeholders: vec![],
        refid_req: None,
        draft_id: false,
        authenticated: false,
        has_auth: false,
        at,
        decoded: false,
    };
    let Some(p) = p else { return s };
    s.decoded = true;
    match p.hdr {
        Hdr::V34(h) => {
            s.ident = h.tx;
            s.upgrade_request = h.ref_ts == UPGRADE_TS;
        }
        Hdr::V5(h) => s.ident = h.client_cookie,
    }
    s.has_auth = p.auth_offset.is_some();
    s.authenticated = p.authenticated;
    let enc: Vec<RawEf> = p.encrypted.clone().unwrap_or_default();
    for ef in p.plain.iter().chain(p.after.iter()).chain(enc.iter()) {
        match ef.ty {
            EF_UID => s.uid = Some(ef.value().to_vec()),
            EF_COOKIE => s.cookie = Some(ef.value().to_vec()),
            EF_PLACEHOLDER => s.placeholders.push(ef.value().len()),
            EF_REFID_REQ if s.version == 5 => {
                let v = ef.value();
                if v.len() >= 2 {
                    s.refid_req = Some((u16::from_be_bytes([v[0], v[1]]), v.len() as u16));
                }
            }
            EF_DRAFT_ID => s.draft_id = ef.value() == DRAFT_VERSION.as_bytes(),
            _ => {}
        }
    }
    s
}

/// RFC 5905 reference id of a host address, computed independently of the crate: the IPv4 address itself, or the
/// first four octets of the MD5 hash of the IPv6 address (big endian, as the field appears on the wire)
pub fn refid_of_ip(ip: std::net::IpAddr) -> u32 {
    use md5::Digest;
    match ip {
        std::net::IpAddr::V4(a) => u32::from_be_bytes(a.octets()),
        std::net::IpAddr::V6(a) => {
            let d = md5::Md5::digest(a.octets());
            u32::from_be_bytes([d[0], d[1], d[2], d[3]])
        }
    }
}

fn cookie_bytes(seed: u64, len: u16) -> Vec<u8> {
    seeded_bytes(seed, len as usize)
}

/// build the response datagram for request `req`
pub fn build_response(
    r: &Resp,
    req: &Sent,
    keys: Option<&SessionKeys>,
    seed: u64,
    local_refids: &[u32],
    server_filter: &[u8],
) -> (Vec<u8>, bool /*proper auth*/, bool /*uid trusted*/, bool /*uid untrusted present*/) {
    let ver = if r.ver == 0 { req.version } else { r.ver };
    let origin = match r.origin {
        OriginSel::Correct => req.ident,
        OriginSel::Wrong(w) => {
            if w == req.ident { w ^ 1 } else { w }
        }
    };
    let refid = match r.refid {
        RefidSel::Value(v) => v,
        RefidSel::LocalIp(i) => {
            if local_refids.is_empty() { 0x0a0a0a0a } else { local_refids[i as usize % local_refids.len()] }
        }
    };
    let (stratum, kiss_refid) = match r.kind {
        RespKind::Time { stratum } => (stratum.max(1), None),
        RespKind::Rate => (0, Some(KISS_RATE)),
        RespKind::Deny => (0, Some(KISS_DENY)),
        RespKind::Rstr => (0, Some(KISS_RSTR)),
        RespKind::Ntsn => (0, Some(KISS_NTSN)),
        RespKind::UnknownKiss(c) => {
            let c = if [KISS_RATE, KISS_DENY, KISS_RSTR, KISS_NTSN].contains(&c) { c ^ 0x2020 } else { c };
            (0, Some(c))
        }
    };
    let mut out: Vec<u8> = Vec::new();
    let v5 = ver == 5;
    if v5 {
        let poll = match r.kind {
            RespKind::Rate => r.poll.unwrap_or(req.poll.wrapping_add(1)).clamp(req.poll.saturating_add(1).min(126), 126),
            RespKind::Deny => 127,
            _ => r.poll.unwrap_or(req.poll),
        };
        let mut flags = 0u16;
        if stratum != 0 && stratum < 16 {
            flags |= V5_FLAG_SYNC;
        }
        if r.authnak || r.kind == RespKind::Ntsn {
            flags |= V5_FLAG_AUTHNAK;
        }
        out.extend_from_slice(
            &Hdr5 {
                li: r.li & 3,
                mode: r.mode,
                stratum,
                poll,
                precision: r.precision,
                root_delay: r.root_delay,
                root_disp: r.root_disp,
                timescale: 0,
                era: 0,
                flags,
                server_cookie: seed,
                client_cookie: origin,
                rx: if stratum == 0 { 0 } else { r.t2 },
                tx: if stratum == 0 { 0 } else { r.t3 },
            }
            .encode(),
        );
    } else {
        out.extend_from_slice(
            &Hdr4 {
                li: r.li & 3,
                vn: ver,
                mode: r.mode,
                stratum,
                poll: r.poll.unwrap_or(req.poll),
                precision: r.precision,
                root_delay: r.root_delay,
                root_disp: r.root_disp,
                refid: kiss_refid.unwrap_or(refid),
                ref_ts: if r.upgrade { UPGRADE_TS } else { r.t2 & !0xFFFF_FFFF },
                org: origin,
                rx: if stratum == 0 { 0 } else { r.t2 },
                tx: if stratum == 0 { 0 } else { r.t3 },
            }
            .encode(),
        );
    }
    if ver == 3 {
        return (out, false, false, false);
    }
    let mk = |ty: u16, value: &[u8], min: usize| -> Vec<u8> {
        let mut o = Vec::new();
        if v5 { RawEf::v5(ty, value).encode(&mut o) } else { RawEf::v4(ty, value, min).encode(&mut o) };
        o
    };
    let uid_val: Option<Vec<u8>> = match (r.uid, &req.uid) {
        (UidSel::Omit, _) | (_, None) => None,
        (UidSel::Wrong, Some(u)) => {
            let mut w = u.clone();
            if let Some(b) = w.first_mut() { *b ^= 0x80; }
            Some(w)
        }
        (_, Some(u)) => Some(u.clone()),
    };
    let with_auth = keys.is_some() && r.auth != AuthSel::Strip;
    let uid_first = r.uid != UidSel::Untrusted;
    let mut uid_trusted = false;
    let mut uid_untrusted = false;
    // fields before the authenticator
    if let (Some(u), true) = (&uid_val, uid_first) {
        out.extend(mk(EF_UID, u, 16));
        if r.uid == UidSel::Echo {
            uid_trusted = true; // (for NTS only if the authenticator is proper; fixed up below)
        }
    }
    if v5 {
        out.extend(mk(EF_DRAFT_ID, DRAFT_VERSION.as_bytes(), 16));
        if let Some((off, len)) = req.refid_req {
            match r.bloom {
                BloomSel::None => {}
                BloomSel::Correct => {
                    let a = (off as usize).min(server_filter.len());
                    let b = (a + len as usize).min(server_filter.len());
                    out.extend(mk(EF_REFID_RESP, &server_filter[a..b], 16));
                }
                BloomSel::WrongLen(l) => out.extend(mk(EF_REFID_RESP, &vec![0xFF; (l % 600) as usize], 16)),
                BloomSel::Garbage => out.extend(mk(EF_REFID_RESP, &vec![0xA5; len as usize], 16)),
            }
        }
    }
    for (i, l) in r.plain_cookies.iter().enumerate() {
        out.extend(mk(EF_COOKIE, &cookie_bytes(seed ^ 0x9100 ^ i as u64, *l), 16));
    }
    let mut proper = false;
    if let Some(k) = keys {
        let mut inner = Vec::new();
        for (i, l) in r.new_cookies.iter().enumerate() {
            let mut o = Vec::new();
            let c = cookie_bytes(seed ^ 0x7700 ^ ((i as u64) << 32), *l);
            if v5 { RawEf::v5(EF_COOKIE, &c).encode(&mut o) } else { RawEf::v4(EF_COOKIE, &c, 4).encode(&mut o) };
            inner.extend(o);
        }
        if with_auth {
            let nonce = seeded_bytes(seed ^ 0x0ce, 16);
            let key = match r.auth {
                AuthSel::Proper | AuthSel::Corrupt(_) | AuthSel::EmptyCiphertext { .. } => k.s2c.clone(),
                AuthSel::ClientKey => k.c2s.clone(),
                AuthSel::WrongKey(s) => AeadKey(seeded_bytes(s, k.s2c.0.len())),
                AuthSel::Strip => unreachable!(),
            };
            let mut ef = build_auth_ef(&key, &nonce, &out, &inner, 0);
            if let AuthSel::EmptyCiphertext { nonce_len, pad_words } = r.auth {
                let n = (nonce_len % 33) as usize;
                let mut body = Vec::new();
                body.extend((n as u16).to_be_bytes());
                body.extend(0u16.to_be_bytes());
                body.extend(seeded_bytes(seed ^ 0xe0, n));
                while body.len() % 4 != 0 {
                    body.push(0);
                }
                body.extend(vec![0u8; 4 * (pad_words % 8) as usize]);
                let mut f = Vec::new();
                f.extend(EF_AUTH.to_be_bytes());
                f.extend(((body.len() + 4) as u16).to_be_bytes());
                f.extend(body);
                ef = f;
            }
            if let AuthSel::Corrupt(pos) = r.auth {
                let i = 8 + crate::engine::idx(pos, ef.len() - 8);
                ef[i] ^= 0x40;
            }
            proper = r.auth == AuthSel::Proper;
            out.extend(ef);
        } else {
            // stripped: the would-be encrypted cookies travel in the clear
            out.extend(inner);
        }
    }
    if let (Some(u), false) = (&uid_val, uid_first) {
        out.extend(mk(EF_UID, u, 28));
        uid_untrusted = true;
    }
    if keys.is_some() {
        // NTS: the uid counts as trusted only under a proper authenticator
        if !(with_auth && proper) {
            if uid_trusted {
                uid_untrusted = true;
            }
            uid_trusted = false;
        }
    }
    (out, proper, uid_trusted, uid_untrusted)
}

pub const SERVER_FILTER_SEED: u64 = 0xB10F;

/// Execute a case. Must be called inside a paused tokio runtime.
pub async fn run_case(case: &SourceCase) -> Trace {
    let keys = case.nts.as_ref().map(|n| session_keys(case.key_seed, n.alg512));
    let initial_cookies: Vec<Vec<u8>> = case
        .nts
        .as_ref()
        .map(|n| n.cookie_lens.iter().enumerate().map(|(i, l)| cookie_bytes(case.key_seed ^ 0x1c00 ^ i as u64, *l)).collect())
        .unwrap_or_default();
    let nts_data = keys.as_ref().map(|k| nh::make_nts_data(initial_cookies.clone(), &k.c2s.0, &k.s2c.0).unwrap());
    let local_ips: Vec<std::net::IpAddr> = case.local_ips.iter().map(|a| a.ip()).collect();
    let mut sync = SynchronizationConfig::default();
    sync.local_stratum = case.local_stratum;
    let manager = NtpManager::new(sync, local_ips.clone().into());
    let log = Arc::new(Mutex::new(Vec::new()));
    let desired = Arc::new(Mutex::new(case.desired_poll));
    let ctl = RecCtl { log: log.clone(), desired: desired.clone() };
    let cfg = SourceConfig {
        poll_interval_limits: PollIntervalLimits {
            min: PollInterval::from_byte(case.poll_min as u8),
            max: PollInterval::from_byte(case.poll_max as u8),
        },
        initial_poll_interval: PollInterval::from_byte(case.poll_min as u8),
    };
    let pv = match (case.proto, case.nts.is_some()) {
        (1, _) => ProtocolVersion::V5,
        (2, false) => ProtocolVersion::v4_upgrading_to_v5_with_default_tries(),
        _ => ProtocolVersion::V4,
    };
    let addr = SocketAddr::new(case.source_addr.ip(), 123);
    let id = ClockId::new();
    let (mut source, initial): (NtpSource<RecCtl>, _) = manager.new_source(addr, cfg, pv, ctl, nts_data, id);
    let _ = initial.count();

    // the scripted server's bloom filter (optionally containing the daemon's id is not possible to
    // know from outside; loops through the filter are covered in C33's direct part)
    // a snapshot without sources advertises a filter that holds exactly this daemon's (random, private) server id
    let own_filter: Vec<u8> = manager.update_used_sources(std::iter::empty()).bloom_filter.as_bytes().to_vec();
    let mut server_filter = seeded_bytes(SERVER_FILTER_SEED ^ case.key_seed, 512);
    if case.server_filter_kind >= 1 {
        let m1 = seeded_bytes(SERVER_FILTER_SEED ^ case.key_seed ^ 0x5151, 512);
        let m2 = seeded_bytes(SERVER_FILTER_SEED ^ case.key_seed ^ 0x7272, 512);
        for i in 0..512 {
            server_filter[i] &= m1[i] & m2[i];
        }
    }
    if case.server_filter_kind >= 2 {
        for i in 0..512 {
            server_filter[i] |= own_filter[i];
        }
    }
    let server_id_in_filter = (0..512).all(|i| own_filter[i] & !server_filter[i] == 0);
    let local_refids: Vec<u32> = local_ips.iter().map(|ip| refid_of_ip(*ip)).collect();

    let start = tokio::time::Instant::now();
    let mut steps = Vec::new();
    let mut sent: Vec<Sent> = Vec::new();
    let mut delivered: Vec<Delivery> = Vec::new();
    for (i, op) in case.ops.iter().enumerate() {
        let before = log.lock().unwrap().len();
        let mut actions = Vec::new();
        let mut sent_idx = None;
        let mut delivery = None;
        let now = tokio::time::Instant::now() - start;
        let collect = |it: ntp_proto::NtpSourceActionIterator, actions: &mut Vec<Act>, sent: &mut Vec<Sent>, sent_idx: &mut Option<usize>| {
            for a in it {
                match a {
                    NtpSourceAction::Send(b) => {
                        actions.push(Act::Send(b.len()));
                        sent.push(decode_sent(&b, keys.as_ref(), now));
                        *sent_idx = Some(sent.len() - 1);
                    }
                    NtpSourceAction::SetTimer(d) => actions.push(Act::SetTimer(d)),
                    NtpSourceAction::Reset => actions.push(Act::Reset),
                    NtpSourceAction::Demobilize => actions.push(Act::Demobilize),
                }
            }
        };
        match op {
            Op::Timer => {
                let it = source.handle_timer();
                collect(it, &mut actions, &mut sent, &mut sent_idx);
            }
            Op::Advance { ms } => {
                tokio::time::advance(Duration::from_millis(*ms as u64)).await;
            }
            Op::SetDesired(p) => {
                *desired.lock().unwrap() = (*p).clamp(case.poll_min, case.poll_max);
            }
            Op::Garbage(b) => {
                let d = Delivery {
                    bytes: b.clone(),
                    for_req: None,
                    resp: None,
                    version: b.first().map(|x| (x >> 3) & 7).unwrap_or(0),
                    proper_auth: false,
                    origin_ok: false,
                    uid_trusted: false,
                    uid_present_untrusted: false,
                    within_window: true,
                    send_time: 1,
                    recv_time: 2,
                    is_replay: false,
                };
                delivered.push(d.clone());
                if !case.skip.contains(&i) {
                    let it = source.handle_incoming(b, nh::time::timestamp_from_raw(1), nh::time::timestamp_from_raw(2));
                    collect(it, &mut actions, &mut sent, &mut sent_idx);
                    delivery = Some(d);
                }
            }
            Op::Deliver(r) | Op::DeliverFor { resp: r, .. } => {
                let back = if let Op::DeliverFor { back, .. } = op { 1 + *back as usize } else { 0 };
                if sent.len() > back {
                    let ridx = sent.len() - 1 - back;
                    let req = sent[ridx].clone();
                    let (bytes, proper, uid_trusted, uid_untrusted) = build_response(
                        r,
                        &req,
                        keys.as_ref(),
                        case.key_seed.wrapping_add(i as u64 * 104_729),
                        &local_refids,
                        &server_filter,
                    );
                    let d = Delivery {
                        version: bytes.first().map(|x| (x >> 3) & 7).unwrap_or(0),
                        bytes,
                        for_req: Some(ridx),
                        resp: Some(r.clone()),
                        proper_auth: proper,
                        origin_ok: r.origin == OriginSel::Correct,
                        uid_trusted,
                        uid_present_untrusted: uid_untrusted,
                        within_window: now <= req.at + Duration::from_secs(5),
                        send_time: r.send_time,
                        recv_time: r.recv_time,
                        is_replay: false,
                    };
                    delivered.push(d.clone());
                    if !case.skip.contains(&i) {
                        let it = source.handle_incoming(
                            &d.bytes,
                            nh::time::timestamp_from_raw(d.send_time),
                            nh::time::timestamp_from_raw(d.recv_time),
                        );
                        collect(it, &mut actions, &mut sent, &mut sent_idx);
                        delivery = Some(d);
                    }
                }
            }
            Op::Replay { idx } => {
                if !delivered.is_empty() {
                    let j = crate::engine::idx(*idx, delivered.len());
                    let mut d = delivered[j].clone();
                    d.is_replay = true;
                    if let Some(r) = d.for_req {
                        d.within_window = now <= sent[r].at + Duration::from_secs(5);
                    }
                    if !case.skip.contains(&i) {
                        let it = source.handle_incoming(
                            &d.bytes,
                            nh::time::timestamp_from_raw(d.send_time),
                            nh::time::timestamp_from_raw(d.recv_time),
                        );
                        collect(it, &mut actions, &mut sent, &mut sent_idx);
                        delivery = Some(d);
                    }
                }
            }
        }
        let events: Vec<CtlEvent> = log.lock().unwrap()[before..].to_vec();
        let o = source.observe("s".into(), id);
        steps.push(Step {
            op: i,
            actions,
            sent: sent_idx,
            delivery,
            events,
            held_filter_is_servers: nh::source::full_bloom(&source).map(|f| f == server_filter),
            obs: Obs { unanswered_polls: o.unanswered_polls, poll_interval: o.poll_interval.as_log(), nts_cookies: o.nts_cookies },
            state: nh::source::source_state(&source),
            desired: *desired.lock().unwrap(),
            at: tokio::time::Instant::now() - start,
        });
    }
    Trace {
        steps,
        sent,
        keys,
        initial_cookies,
        server_filter,
        server_id_in_filter,
        local_refids,
        source_own_refid: refid_of_ip(addr.ip()),
        manager_snapshot_ok: true,
    }
}

// ---------------------------------------------------------------------------
// strategies

pub fn resp_strategy(nts: bool) -> BoxedStrategy<Resp> {
    let kind = prop_oneof![
        8 => prop_oneof![4 => 1u8..5, 2 => 1u8..17, 1 => 17u8..=255].prop_map(|stratum| RespKind::Time { stratum }),
        2 => Just(RespKind::Rate),
        1 => Just(RespKind::Deny),
        1 => Just(RespKind::Rstr),
        1 => Just(RespKind::Ntsn),
        1 => any::<u32>().prop_map(RespKind::UnknownKiss),
    ];
    let auth = if nts {
        prop_oneof![
            6 => Just(AuthSel::Proper),
            2 => Just(AuthSel::Strip),
            1 => any::<u64>().prop_map(AuthSel::WrongKey),
            1 => Just(AuthSel::ClientKey),
            1 => any::<u16>().prop_map(AuthSel::Corrupt),
            1 => (prop_oneof![3 => Just(16u8), 1 => 0u8..33], 0u8..8).prop_map(|(nonce_len, pad_words)| AuthSel::EmptyCiphertext { nonce_len, pad_words }),
        ]
        .boxed()
    } else {
        Just(AuthSel::Proper).boxed()
    };
    let cookies = if nts {
        prop_oneof![
            3 => Just(vec![104u16]),
            2 => prop::collection::vec(prop_oneof![Just(104u16), Just(168u16), 0u16..300], 0..12),
            1 => Just(Vec::new()),
        ]
        .boxed()
    } else {
        Just(Vec::new()).boxed()
    };
    (
        (
            prop_oneof![10 => Just(0u8), 1 => Just(3u8), 2 => Just(4u8), 2 => Just(5u8)],
            prop_oneof![12 => Just(4u8), 1 => 0u8..8],
            kind,
            prop_oneof![10 => Just(OriginSel::Correct), 2 => any::<u64>().prop_map(OriginSel::Wrong)],
            prop_oneof![10 => Just(UidSel::Echo), 1 => Just(UidSel::Omit), 1 => Just(UidSel::Wrong), 2 => Just(UidSel::Untrusted)],
            auth,
            cookies,
            prop_oneof![6 => Just(Vec::new()).boxed(), 1 => prop::collection::vec(50u16..200, 1..3).boxed()],
        ),
        (
            prop_oneof![2 => Just(false), 1 => Just(true)],
            prop_oneof![6 => Just(None), 2 => (0u8..20).prop_map(Some), 1 => any::<u8>().prop_map(Some)],
            0u8..4,
            any::<u8>(),
            any::<u32>(),
            any::<u32>(),
            prop_oneof![6 => any::<u32>().prop_map(RefidSel::Value), 1 => (0u8..4).prop_map(RefidSel::LocalIp)],
            crate::gens::u64_interesting(),
            crate::gens::u64_interesting(),
            crate::gens::u64_interesting(),
            crate::gens::u64_interesting(),
            prop_oneof![4 => Just(BloomSel::Correct), 1 => Just(BloomSel::None), 1 => any::<u16>().prop_map(BloomSel::WrongLen), 1 => Just(BloomSel::Garbage)],
        ),
        prop_oneof![8 => Just(false), 1 => Just(true)],
    )
        .prop_map(
            |((ver, mode, kind, origin, uid, auth, new_cookies, plain_cookies), (upgrade, poll, li, precision, root_delay, root_disp, refid, t2, t3, send_time, recv_time, bloom), authnak)| Resp {
                ver,
                mode,
                kind,
                origin,
                uid,
                auth,
                new_cookies,
                plain_cookies,
                upgrade,
                poll,
                li,
                precision,
                root_delay,
                root_disp,
                refid,
                t2,
                t3,
                send_time,
                recv_time,
                bloom,
                authnak,
                bloom_contains_us: false,
            },
        )
        .boxed()
}

/// an answer a well-behaved server would give (still with arbitrary timestamps)
pub fn honest_resp_strategy(nts: bool) -> BoxedStrategy<Resp> {
    (
        (prop_oneof![6 => 1u8..5, 1 => Just(16u8), 1 => 14u8..=16], prop_oneof![3 => Just(0u8), 2 => 1u8..4]),
        any::<bool>(),
        crate::gens::u64_interesting(),
        crate::gens::u64_interesting(),
        crate::gens::u64_interesting(),
        crate::gens::u64_interesting(),
        prop_oneof![Just(1usize), 0usize..9],
    )
        .prop_map(move |((stratum, li), upgrade, t2, t3, send_time, recv_time, nc)| {
            let mut r = Resp::honest(stratum);
            r.li = li;
            r.upgrade = upgrade;
            r.t2 = t2;
            r.t3 = t3;
            r.send_time = send_time;
            r.recv_time = recv_time;
            if nts {
                r.new_cookies = vec![104; nc];
            }
            r
        })
        .boxed()
}

pub fn op_strategy(nts: bool) -> BoxedStrategy<Op> {
    prop_oneof![
        8 => Just(Op::Timer),
        2 => prop_oneof![3 => 0u32..4_000, 2 => 4_000u32..7_000, 1 => 0u32..200_000].prop_map(|ms| Op::Advance { ms }),
        6 => honest_resp_strategy(nts).prop_map(Op::Deliver),
        8 => resp_strategy(nts).prop_map(Op::Deliver),
        2 => (0u8..3, resp_strategy(nts)).prop_map(|(back, resp)| Op::DeliverFor { back, resp }),
        2 => any::<u16>().prop_map(|idx| Op::Replay { idx }),
        1 => prop::collection::vec(any::<u8>(), 0..120).prop_map(Op::Garbage),
        1 => (-2i8..20).prop_map(Op::SetDesired),
    ]
    .boxed()
}

pub fn case_strategy(max_ops: usize) -> BoxedStrategy<SourceCase> {
    let nts = prop_oneof![
        1 => Just(None),
        1 => (any::<bool>(), prop::collection::vec(prop_oneof![Just(104u16), Just(168u16), 0u16..400], 1..9))
            .prop_map(|(alg512, cookie_lens)| Some(NtsSetup { alg512, cookie_lens })),
    ];
    (
        nts,
        0u8..3,
        (0i8..=17, 0i8..=17, 0i8..=17),
        prop_oneof![3 => Just(16u8), 1 => 1u8..17],
        prop::collection::vec(crate::w_server::addr_strategy(), 0..3),
        crate::w_server::addr_strategy(),
        any::<u64>(),
    )
        .prop_flat_map(move |(nts, proto, (a, b, c), local_stratum, local_ips, source_addr, key_seed)| {
            let mut v = [a, b, c];
            v.sort();
            let is_nts = nts.is_some();
            let proto = if is_nts { proto % 2 } else { proto };
            (
                Just((nts, proto, v, local_stratum, local_ips, source_addr, key_seed)),
                prop::collection::vec(op_strategy(is_nts), 1..=max_ops),
            )
        })
        .prop_map(|((nts, proto, v, local_stratum, local_ips, source_addr, key_seed), ops)| SourceCase {
            nts,
            proto,
            poll_min: v[0],
            poll_max: v[2],
            desired_poll: v[1],
            local_stratum,
            local_ips,
            source_addr,
            key_seed,
            ops,
            skip: Vec::new(),
            server_filter_kind: 0,
        })
        .boxed()
}
