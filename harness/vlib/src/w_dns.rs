//! Scripted DNS for the spawner checks (C35, C36).
//!
//! This module DEFINES the C symbols `getaddrinfo` / `freeaddrinfo`. Because std is linked
//! statically into the `vcheck` executable, both `std::net::ToSocketAddrs` and
//! `tokio::net::lookup_host` (which runs std's resolver on the blocking pool) end up here.
//!
//! * Host names that are in the script table are answered from the table (per host, per call),
//!   instantly and deterministically; every call is counted.
//! * Every other name is forwarded to the real libc implementation (`dlsym(RTLD_NEXT, ..)`),
//!   so the interposition is transparent for all other properties linked into `vcheck`.
//!
//! The table is process-global (the resolver is called on another thread), guarded by a mutex,
//! only ever accessed by key (no iteration order leaks into verdicts) and must be reset with
//! [`reset`] at the top of every case.

use std::collections::{HashMap, HashSet};
use std::ffi::CStr;
use std::net::IpAddr;
use std::sync::Mutex;
use std::sync::atomic::{AtomicUsize, Ordering};

use libc::{addrinfo, c_char, c_int};

/// One scripted answer of the resolver.
#[derive(Debug, Clone, PartialEq, Eq)]
pub enum Answer {
    /// success with these addresses in this order (an empty list is reported as `EAI_NONAME`,
    /// because a successful `getaddrinfo` always returns at least one entry)
    Addrs(Vec<IpAddr>),
    /// name does not exist (`EAI_NONAME`)
    NoName,
    /// temporary failure (`EAI_AGAIN`)
    Again,
}

#[derive(Debug)]
struct Script {
    answers: Vec<Answer>,
    calls: usize,
}

static TABLE: Mutex<Option<HashMap<String, Script>>> = Mutex::new(None);
/// heads of lists allocated by us and not yet freed
static OURS: Mutex<Option<HashSet<usize>>> = Mutex::new(None);
/// total number of scripted resolutions since process start (self-test of the interposition)
static TOTAL_SCRIPTED: AtomicUsize = AtomicUsize::new(0);

fn lock<T>(m: &Mutex<T>) -> std::sync::MutexGuard<'_, T> {
    m.lock().unwrap_or_else(|e| e.into_inner())
}

/// forget all scripts and counters
pub fn reset() {
    *lock(&TABLE) = Some(HashMap::new());
}

/// script `host`: call k (0-based) of the resolver gets `answers[k % len]`;
/// an empty `answers` means "name does not exist" on every call. Resets the call counter of `host`.
pub fn script(host: &str, answers: Vec<Answer>) {
    let mut t = lock(&TABLE);
    t.get_or_insert_with(HashMap::new)
        .insert(host.to_string(), Script { answers, calls: 0 });
}

/// number of resolver calls for `host` since it was scripted
pub fn calls(host: &str) -> usize {
    lock(&TABLE)
        .as_ref()
        .and_then(|t| t.get(host))
        .map(|s| s.calls)
        .unwrap_or(0)
}

/// the answer that resolver call `k` (0-based) for `host` got / will get
pub fn answer_of_call(host: &str, k: usize) -> Option<Answer> {
    let t = lock(&TABLE);
    let s = t.as_ref()?.get(host)?;
    if s.answers.is_empty() {
        Some(Answer::NoName)
    } else {
        Some(s.answers[k % s.answers.len()].clone())
    }
}

pub fn total_scripted_calls() -> usize {
    TOTAL_SCRIPTED.load(Ordering::SeqCst)
}

/// number of answer lists handed out and not yet released through `freeaddrinfo`
pub fn outstanding_lists() -> usize {
    lock(&OURS).as_ref().map(|s| s.len()).unwrap_or(0)
}

fn next_answer(host: &str) -> Option<Answer> {
    let mut t = lock(&TABLE);
    let s = t.as_mut()?.get_mut(host)?;
    let k = s.calls;
    s.calls += 1;
    TOTAL_SCRIPTED.fetch_add(1, Ordering::SeqCst);
    if s.answers.is_empty() {
        Some(Answer::NoName)
    } else {
        Some(s.answers[k % s.answers.len()].clone())
    }
}

#[repr(C)]
struct Node {
    ai: addrinfo, // must stay the first field: `*mut addrinfo` == `*mut Node`
    storage: libc::sockaddr_storage,
}

type GaiFn = unsafe extern "C" fn(*const c_char, *const c_char, *const addrinfo, *mut *mut addrinfo) -> c_int;
type FreeFn = unsafe extern "C" fn(*mut addrinfo);

static REAL_GAI: AtomicUsize = AtomicUsize::new(0);
static REAL_FREE: AtomicUsize = AtomicUsize::new(0);

unsafe fn real(sym: &'static [u8], cache: &AtomicUsize) -> usize {
    let p = cache.load(Ordering::Acquire);
    if p != 0 {
        return p;
    }
    let p = unsafe { libc::dlsym(libc::RTLD_NEXT, sym.as_ptr() as *const c_char) } as usize;
    cache.store(p, Ordering::Release);
    p
}

fn parse_port(service: *const c_char) -> u16 {
    if service.is_null() {
        return 0;
    }
    unsafe { CStr::from_ptr(service) }
        .to_str()
        .ok()
        .and_then(|s| s.parse::<u16>().ok())
        .unwrap_or(0)
}

/// Interposed resolver. Scripted names are answered from the table; everything else goes to libc.
///
/// # Safety
/// C ABI contract of getaddrinfo(3).
#[unsafe(no_mangle)]
pub unsafe extern "C" fn getaddrinfo(
    node: *const c_char,
    service: *const c_char,
    hints: *const addrinfo,
    res: *mut *mut addrinfo,
) -> c_int {
    let scripted = if node.is_null() {
        None
    } else {
        unsafe { CStr::from_ptr(node) }.to_str().ok().and_then(next_answer)
    };
    let Some(answer) = scripted else {
        let f = unsafe { real(b"getaddrinfo\0", &REAL_GAI) };
        if f == 0 {
            return libc::EAI_FAIL;
        }
        let f: GaiFn = unsafe { std::mem::transmute::<usize, GaiFn>(f) };
        return unsafe { f(node, service, hints, res) };
    };

    let (want_family, socktype, protocol) = if hints.is_null() {
        (libc::AF_UNSPEC, libc::SOCK_STREAM, 0)
    } else {
        let h = unsafe { &*hints };
        let st = if h.ai_socktype == 0 { libc::SOCK_STREAM } else { h.ai_socktype };
        (h.ai_family, st, h.ai_protocol)
    };
    let port = parse_port(service);

    let addrs = match answer {
        Answer::Addrs(a) => a,
        Answer::NoName => return libc::EAI_NONAME,
        Answer::Again => return libc::EAI_AGAIN,
    };
    let addrs: Vec<IpAddr> = addrs
        .into_iter()
        .filter(|a| match a {
            IpAddr::V4(_) => want_family == libc::AF_UNSPEC || want_family == libc::AF_INET,
            IpAddr::V6(_) => want_family == libc::AF_UNSPEC || want_family == libc::AF_INET6,
        })
        .collect();
    if addrs.is_empty() {
        return libc::EAI_NONAME;
    }

    // build the list back to front
    let mut head: *mut addrinfo = std::ptr::null_mut();
    for a in addrs.iter().rev() {
        let mut n: Box<Node> = Box::new(unsafe { std::mem::zeroed() });
        let (family, len) = match a {
            IpAddr::V4(v4) => {
                let sa = &mut n.storage as *mut libc::sockaddr_storage as *mut libc::sockaddr_in;
                unsafe {
                    (*sa).sin_family = libc::AF_INET as libc::sa_family_t;
                    (*sa).sin_port = port.to_be();
                    (*sa).sin_addr = libc::in_addr {
                        s_addr: u32::from_ne_bytes(v4.octets()),
                    };
                }
                (libc::AF_INET, std::mem::size_of::<libc::sockaddr_in>())
            }
            IpAddr::V6(v6) => {
                let sa = &mut n.storage as *mut libc::sockaddr_storage as *mut libc::sockaddr_in6;
                unsafe {
                    (*sa).sin6_family = libc::AF_INET6 as libc::sa_family_t;
                    (*sa).sin6_port = port.to_be();
                    (*sa).sin6_addr = libc::in6_addr { s6_addr: v6.octets() };
                }
                (libc::AF_INET6, std::mem::size_of::<libc::sockaddr_in6>())
            }
        };
        n.ai.ai_flags = 0;
        n.ai.ai_family = family;
        n.ai.ai_socktype = socktype;
        n.ai.ai_protocol = protocol;
        n.ai.ai_addrlen = len as libc::socklen_t;
        n.ai.ai_canonname = std::ptr::null_mut();
        n.ai.ai_next = head;
        let raw = Box::into_raw(n);
        unsafe {
            (*raw).ai.ai_addr = &mut (*raw).storage as *mut libc::sockaddr_storage as *mut libc::sockaddr;
        }
        head = raw as *mut addrinfo;
    }
    lock(&OURS).get_or_insert_with(HashSet::new).insert(head as usize);
    unsafe { *res = head };
    0
}

/// Interposed counterpart of [`getaddrinfo`].
///
/// # Safety
/// C ABI contract of freeaddrinfo(3).
#[unsafe(no_mangle)]
pub unsafe extern "C" fn freeaddrinfo(res: *mut addrinfo) {
    if res.is_null() {
        return;
    }
    let ours = lock(&OURS)
        .as_mut()
        .map(|s| s.remove(&(res as usize)))
        .unwrap_or(false);
    if ours {
        let mut cur = res;
        while !cur.is_null() {
            let next = unsafe { (*cur).ai_next };
            drop(unsafe { Box::from_raw(cur as *mut Node) });
            cur = next;
        }
        return;
    }
    let f = unsafe { real(b"freeaddrinfo\0", &REAL_FREE) };
    if f != 0 {
        let f: FreeFn = unsafe { std::mem::transmute::<usize, FreeFn>(f) };
        unsafe { f(res) };
    }
}
